"""Messages made of the syntax of the armour they will be wrapped in.

The armoured form of a signed message is

    -----BEGIN <NET> SIGNED MESSAGE-----
    <message>
    -----BEGIN SIGNATURE-----
    <address>
    <signature>
    -----END <NET> SIGNED MESSAGE-----

and its relatives (RFC 4880 section 7 clearsigned text, which the format imitates) add "Hash: SHA256"-style armour header
lines followed by an empty line after the BEGIN line, dash-escaping ("- " in front of a line that starts with a dash),
labelled trailer lines ("Address: ...", "Signature: ...") and an optional "Version:" / "Comment:" block. A writer never
emits or escapes any of these inside the message, so a parser that understands one of them more generously than the writer
returns another message than the one that was signed. This module builds messages in which every such element stands at the
start, in the middle, at the end of the message, or is the whole message - without ever producing a line that IS an armour
marker (those messages are outside the property's domain).

  ELEMENTS                 class name -> list of blocks (a block = list of lines; "{ADDR}" / "{SIG}" / "{NET}" are filled in)
  is_marker_line(line)     the lines a message must not contain
  in_domain(msg)           one newline style, no marker line
  systematic()             every (class, instance, position, newline style) once -> dict cases
  gen_case(rng)            one random case: one to three elements at distinct positions
  selftest()

Nothing here imports pycoin.
"""
import re

HEADER_LABELS = ["Hash", "Charset", "Version", "Comment", "Address", "Signature", "MessageID", "NotDashEscaped", "Message", "Date", "hash",
                 "HASH", "Content-Type"]
HEADER_VALUES = ["SHA256", "utf-8", "9f86d081884c7d659a2feaa0c55ad015", "SHA256,SHA1", "{ADDR}", "a: b", "", "GnuPG v2"]
FILL = ["I hereby confirm the digest named above.", "hello", "release 1.2 is authentic", "über", "see above", "x", "Pay to Alice 42 BTC",
        "日本語 \U0001F600", "two words"]
SIG_TEXT = "H" + "A1b2C3d4E5f6G7h8" * 5 + "abcdef="       # 88 characters of base64 alphabet, like a signature line

_MARKER = re.compile(r"-----(BEGIN|END) [A-Z ]*(SIGNATURE|SIGNED MESSAGE)-----")


def is_marker_line(line):
    """a line that is an armour marker (the statement's domain excludes messages with such lines). A marker with other characters
    on its line - a dash-escaped one, an indented one, one with a typo - is not one."""
    return _MARKER.fullmatch(line) is not None


def in_domain(msg):
    if any(c in msg for c in "\x0b\x0c\x1c\x1d\x1e\x85\u2028\u2029"):
        return False
    rest = msg.replace("\r\n", "")
    if "\r" in rest or ("\r\n" in msg and "\n" in rest):
        return False
    return not any(is_marker_line(ln) for ln in msg.replace("\r\n", "\n").split("\n"))


def _headers():
    out = {}
    for lab in HEADER_LABELS:
        out["header_block:" + lab] = [["%s: %s" % (lab, v), ""] for v in HEADER_VALUES[:3]] + [["%s: %s" % (lab, HEADER_VALUES[0]), "", ""]]
    return out


ELEMENTS = {
    # armour header lines closed by an empty line (RFC 4880 6.2 / 7), one label at a time: see _headers()
    # several header lines, then the empty line
    "header_block:several": [["Hash: SHA256", "Charset: utf-8", ""], ["Charset: UTF-8", "Hash: SHA1", "Hash: SHA256", ""],
                             ["Version: 1", "Comment: none", ""], ["Hash: SHA256", "Address: {ADDR}", ""], ["Comment: a", "Hash: b", ""]],
    # header-looking lines that are not a block: no empty line after them, no space after the colon, near-miss labels
    "header_line": [["Hash: SHA256"], ["Charset: utf-8"], ["Hash:SHA256", ""], ["Hash:", ""], ["Hash", ""], ["Hashes: a b c", ""],
                    ["Hash of the release: 1234", ""], [" Hash: SHA256", ""], ["Hash : SHA256", ""], ["Hash: SHA256", " "], [": x", ""],
                    ["Version: 1"], ["Comment: x: y"]],
    "blank_lines": [[""], ["", ""], ["", "", ""]],
    "space_lines": [[" "], ["\t"], ["  ", ""], ["", " "], [" \t "]],
    # RFC 4880 7.1 dash-escaping, and lines of dashes
    "dash_escaped": [["- text"], ["- -----BEGIN SIGNATURE-----"], ["- -----BEGIN {NET} SIGNED MESSAGE-----"], ["- -----END {NET} SIGNED MESSAGE-----"],
                     ["- - twice"], ["- "], ["- -"], ["- From the desk of"], ["-  two spaces"]],
    "dashes": [["-"], ["--"], ["-----"], ["----------"], ["-text"], ["-----BEGIN"], ["-----END"], ["-----BEGIN-----"], ["----- BEGIN SIGNATURE -----"],
               ["-- "], ["--- a/file"]],
    # marker text that is not a marker line
    "marker_lookalike": [["-----BEGIN SIGNATURE----"], ["----BEGIN SIGNATURE-----"], ["------BEGIN SIGNATURE-----"], ["-----BEGIN SIGNATURE------"],
                         ["-----begin signature-----"], [" -----BEGIN SIGNATURE-----"], ["-----BEGIN SIGNATURE----- "], ["-----BEGIN SIGNATURE-----x"],
                         ["x-----BEGIN SIGNATURE-----"], ["-----BEGIN {NET} SIGNED MESSAGE----"], ["-----Begin {NET} Signed Message-----"],
                         ["> -----BEGIN {NET} SIGNED MESSAGE-----"], ["-----BEGIN 2 SIGNATURE-----"], ["-----BEGIN_SIGNATURE-----"],
                         ["BEGIN SIGNATURE"], ["SIGNED MESSAGE"], ["x SIGNED MESSAGE-----"], ["SIGNED MESSAGE----- x"], ["-----BEGIN SIGNATURE"],
                         ["BEGIN SIGNATURE-----"]],
    "end_lookalike": [["-----END-----"], ["-----END {NET} SIGNED MESSAGE----"], [" -----END {NET} SIGNED MESSAGE-----"], ["-----END"],
                      ["-----end {NET} signed message-----"], ["-----END {NET} SIGNED MESSAGE-----."], ["> -----END {NET} SIGNED MESSAGE-----"]],
    # the trailer's own vocabulary
    "section_label": [["Address: {ADDR}"], ["Signature: {SIG}"], ["Address: {ADDR}", "Signature: {SIG}"], ["address: x"], ["Address:"], ["Address"],
                      ["Address: 1BitcoinEaterAddressDontSendf59kuE"]],
    "trailer_values": [["{ADDR}"], ["{SIG}"], ["{ADDR}", "{SIG}"], ["{SIG}", "{ADDR}"], ["{ADDR}", "{SIG}", "-----END"], ["", "{ADDR}", "{SIG}"]],
}
ELEMENTS.update(_headers())
CLASSES = sorted(ELEMENTS)
POSITIONS = ["start", "middle", "end", "only"]
# the labels a clearsign-aware parser knows
KNOWN_HEADER_LABELS = ["Hash", "Charset", "Version", "Comment", "Address", "Signature"]


def build(parts, nl, final_nl=False):
    """parts = list of blocks (lists of lines)."""
    lines = [ln for block in parts for ln in block]
    return nl.join(lines) + (nl if final_nl else "")


def place(block, position, fill_a, fill_b):
    if position == "start":
        return [block, [fill_a]]
    if position == "end":
        return [[fill_a], block]
    if position == "middle":
        return [[fill_a], block, [fill_b]]
    return [block]


def _case(cls, block, position, nl, fa, fb, final_nl=False):
    msg = build(place(block, position, fa, fb), nl, final_nl)
    return {"template": msg, "classes": [[cls, position]], "nl": "crlf" if nl == "\r\n" else "lf"}


def systematic():
    """every (class, instance, position) once, the newline style alternating - and both styles for blocks at the start."""
    out = []
    k = 0
    for cls in CLASSES:
        for bi, block in enumerate(ELEMENTS[cls]):
            for position in POSITIONS:
                k += 1
                styles = ["\n", "\r\n"] if (position in ("start", "only") and (cls.startswith("header_block") or cls == "blank_lines")) \
                    else ["\n" if k % 3 else "\r\n"]
                for nl in styles:
                    c = _case(cls, block, position, nl, FILL[k % len(FILL)], FILL[(k // 2 + 3) % len(FILL)], final_nl=(k % 7 == 0))
                    if "\r\n" == nl and "\n" not in c["template"]:
                        c["nl"] = "lf"
                    c["instance"], c["instances"] = bi, len(ELEMENTS[cls])
                    out.append(c)
    return out


def gen_case(rng):
    """one to three elements at distinct positions of one message."""
    n = rng.choice([1, 2, 2, 3])
    nl = "\n" if rng.random() < 0.6 else "\r\n"
    slots = rng.sample(["start", "middle", "end"], n)
    parts = {}
    classes = []
    for pos in slots:
        cls = rng.choice(CLASSES) if rng.random() < 0.7 else "header_block:" + rng.choice(KNOWN_HEADER_LABELS)
        parts[pos] = rng.choice(ELEMENTS[cls])
        classes.append([cls, pos])
    seq = []
    if "start" in parts:
        seq.append(parts["start"])
    if "start" not in parts or rng.random() < 0.7:
        seq.append([rng.choice(FILL)])
    if "middle" in parts:
        seq.append(parts["middle"])
        if "end" not in parts or rng.random() < 0.7:
            seq.append([rng.choice(FILL)])
    elif rng.random() < 0.5:
        seq.append([rng.choice(FILL)])
    if "end" in parts:
        seq.append(parts["end"])
    msg = build(seq, nl, rng.random() < 0.15)
    return {"template": msg, "classes": sorted(classes), "nl": "crlf" if "\r\n" in msg else "lf"}


def fill(template, addr, net_upper, sig=SIG_TEXT):
    return template.replace("{ADDR}", addr).replace("{SIG}", sig).replace("{NET}", net_upper)


def selftest():
    import random
    n = 0
    seen = set()
    for c in systematic():
        for net in ("BITCOIN", "BCASH", "DEFCOIN"):
            msg = fill(c["template"], "1BitcoinEaterAddressDontSendf59kuE", net)
            assert in_domain(msg), msg
            n += 1
        seen.add(tuple(c["classes"][0]))
    assert len(seen) == len(CLASSES) * len(POSITIONS)
    rng = random.Random(1)
    for _ in range(3000):
        c = gen_case(rng)
        assert in_domain(fill(c["template"], "1BitcoinEaterAddressDontSendf59kuE", "BITCOIN")), c
        n += 1
    # the lines the domain excludes, and their near misses
    for ln in ("-----BEGIN SIGNATURE-----", "-----BEGIN BITCOIN SIGNATURE-----", "-----BEGIN BITCOIN SIGNED MESSAGE-----", "-----END BCASH SIGNED MESSAGE-----",
               "-----BEGIN PGP SIGNED MESSAGE-----", "-----BEGIN PGP SIGNATURE-----"):
        assert is_marker_line(ln) and not in_domain("a\n%s\nb" % ln) and not in_domain(ln)
        assert not is_marker_line("- " + ln) and not is_marker_line(" " + ln) and not is_marker_line(ln + "x") and not is_marker_line(ln.lower())
    assert not in_domain("a\r\nb\nc") and not in_domain("a\rb") and in_domain("a\r\nb\r\n") and in_domain("") and in_domain("\n\n")
    return {"armour_syntax_messages": n, "classes": len(CLASSES)}
