"""Binding to the registered networks of the tree under test (shared by C08 and C18).

pycoin is imported inside the functions only. `params_of` reads the prefixes / HRP the network *declares*
into the plain record the independent text model (vmon/refs/keytext.py) works from.
"""
import contextlib
import io

from vmon.refs import keytext as KT

SKIP_EXPECTED = ("GRS", "GRSRT", "TGRS")      # need the groestlcoin_hash C extension, not installed here


def params_of(net):
    p = net.parse
    g = lambda a: getattr(p, a, None)
    kw = dict(symbol=net.symbol, p2pkh=g("_address_prefix"), p2sh=g("_pay_to_script_prefix"), wif=g("_wif_prefix"),
              hrp=g("_bech32_hrp"), sec_prefix=g("_sec_prefix"))
    for k in KT.BIP_KINDS:
        kw[k] = g("_%s_prefix" % k)
    return KT.Params(**kw)


def usable_networks():
    """-> (sorted list of (symbol, network), {symbol: reason it cannot be used})."""
    from pycoin.networks.registry import network_codes, network_for_netcode
    good, skipped = [], {}
    for code in sorted(set(network_codes())):
        try:
            net = network_for_netcode(code)
            with contextlib.redirect_stdout(io.StringIO()):
                net.keys.private(1).wif()
                net.keys.private(1).address()
            good.append((code, net))
        except ImportError as e:
            skipped[code] = "ImportError: %s" % str(e)[:80]
        except Exception as e:      # noqa
            skipped[code] = "%s: %s" % (type(e).__name__, str(e)[:80])
    return good, skipped


def require_registry(rec, good, skipped, minimum=40):
    """make the run inconclusive when networks other than the expected three cannot be used."""
    for s in skipped:
        rec.note("network %s skipped: %s" % (s, skipped[s]))
    unexpected = [s for s in skipped if s not in SKIP_EXPECTED]
    if unexpected or len(good) < minimum:
        rec.require("all_registered_networks_usable")      # never counted -> INCONCLUSIVE
        rec.note("unexpectedly unusable networks: %s (usable: %d)" % (unexpected, len(good)))


def configurations():
    try:
        good, skipped = usable_networks()
        return ["networks exercised (%d): %s" % (len(good), " ".join(c for c, _ in good)),
                "networks skipped: %s" % (skipped or "none")]
    except Exception as e:      # noqa
        return ["could not enumerate networks: %r" % e]
