"""Seeded generators of transactions (refs/txser dicts), headers (refs/blockser dicts) and blocks. No pycoin import."""
import hashlib

from vmon.refs import blockser, txser

U32_EDGE = [0, 1, 2, 0x7fffffff, 0x80000000, 0xfffffffe, 0xffffffff]
U64_EDGE = [0, 1, 0xffffffff, 0x100000000, 0x7fffffffffffffff, 0x8000000000000000, 0xffffffffffffffff]


def rbytes(rng, n):
    return bytes(rng.getrandbits(8) for _ in range(n)) if n else b""


def pick_u32(rng):
    return rng.choice(U32_EDGE) if rng.random() < 0.35 else rng.getrandbits(rng.choice([8, 16, 31, 32]))


def pick_u64(rng):
    return rng.choice(U64_EDGE) if rng.random() < 0.35 else rng.getrandbits(rng.choice([8, 32, 40, 63, 64]))


def rand_hash(rng):
    r = rng.random()
    if r < 0.05:
        return b"\0" * 32
    if r < 0.1:
        return b"\xff" * 32
    return rbytes(rng, 32)


def rand_script(rng):
    r = rng.random()
    if r < 0.15:
        return b""
    if r < 0.25:
        return rbytes(rng, rng.choice([252, 253, 254, 300]))
    return rbytes(rng, rng.randrange(1, 40))


def rand_tx(rng, segwit=None, small=False):
    """>= 1 input and >= 1 output (a zero-input serialisation is ambiguous with the segwit marker)."""
    if segwit is None:
        segwit = rng.random() < 0.35
    n_in = 1 if small else rng.choice([1, 1, 1, 2, 3, 5])
    n_out = 1 if small else rng.choice([1, 1, 2, 2, 3, 6])
    ins = []
    for _ in range(n_in):
        ins.append({"prev": rand_hash(rng), "index": pick_u32(rng), "script": rand_script(rng) if not small else rbytes(rng, 4),
                    "sequence": pick_u32(rng), "witness": []})
    if segwit:
        for k, i in enumerate(ins):
            if k == 0 or rng.random() < 0.6:
                i["witness"] = [rbytes(rng, rng.choice([0, 1, 33, 72, 73])) for _ in range(rng.choice([1, 2, 2, 3]))]
        if not any(len(i["witness"]) for i in ins):
            ins[0]["witness"] = [b"\x01"]
    outs = [{"value": pick_u64(rng), "script": rand_script(rng) if not small else rbytes(rng, 3)} for _ in range(n_out)]
    return {"version": pick_u32(rng), "ins": ins, "outs": outs, "lock_time": pick_u32(rng)}


def rand_header(rng, root=None, edge=None):
    h = {"version": pick_u32(rng), "prev": rand_hash(rng), "root": root if root is not None else rand_hash(rng),
         "time": pick_u32(rng), "bits": pick_u32(rng), "nonce": pick_u32(rng)}
    if edge is not None:
        for k in ("version", "time", "bits", "nonce"):
            h[k] = edge
    return h


def rand_block(rng, n, small=None):
    """header + n distinct transactions with the header root fixed from them (refs/merkle)."""
    if small is None:
        small = n > 40
    txs, seen = [], set()
    while len(txs) < n:
        t = rand_tx(rng, small=small)
        tid = txser.txid_bytes(t)
        if tid in seen:
            continue
        seen.add(tid)
        txs.append(t)
    return rand_header(rng, root=blockser.root_of(txs)), txs


def fake_txids(tag, n):
    return [hashlib.sha256(("%s/%d/%d" % (tag, n, i)).encode()).digest() for i in range(n)]
