"""Valid Base58Check texts with a chosen *shape* (C18): texts that begin with a given word, or that are spelled
entirely over a restricted alphabet. They are what a parser that dispatches on the look of a text (a leading
'<hrp>1', "looks like hex", "is all lower case" ...) mistakes for another format.

Constructed arithmetically, not by search over hashes: a Base58Check text is the base-58 numeral of
prefix || body || checksum; the leading characters are decided by the leading bytes, so a body is chosen inside the
interval of values whose numeral starts with the word (the 4 checksum bytes only move the tail of the numeral).
Uses only the reference codec (vmon/refs/b58.py); imports nothing from pycoin.
"""
from vmon.refs import b58 as RB

A = RB.ALPHABET
_VAL = {c: i for i, c in enumerate(A)}

HEX_CHARS = "".join(c for c in A if c in "0123456789abcdefABCDEF")
LOWER_CHARS = "".join(c for c in A if c.isdigit() or c.islower())
UPPER_CHARS = "".join(c for c in A if c.isdigit() or c.isupper())
ALPHABETS = (("hex", HEX_CHARS), ("lower", LOWER_CHARS), ("upper", UPPER_CHARS))


def value(s):
    v = 0
    for ch in s:
        v = v * 58 + _VAL[ch]
    return v


def numeral(v):
    return RB.encode(v.to_bytes((v.bit_length() + 7) // 8, "big")) if v else ""


def _value_range(prefix, blen, zeros):
    """[lo, hi) of int(prefix || body || checksum) over all bodies for which the byte string has exactly `zeros`
    leading zero bytes, or None."""
    total = len(prefix) + blen + 4
    shift = 8 * (blen + 4)
    p = int.from_bytes(prefix, "big")
    lo, hi = p << shift, (p + 1) << shift
    lo, hi = max(lo, 1 << (8 * (total - zeros - 1))), min(hi, 1 << (8 * (total - zeros)))
    return (lo, hi) if lo < hi else None


def _body_of(pv, blen, tail):
    body = (pv & ((1 << (8 * blen)) - 1)).to_bytes(blen, "big")
    if tail:
        body = body[:-len(tail)] + tail
    return body


def body_with_lead(prefix, blen, lead, rng, tail=b"", tries=6):
    """-> body of `blen` bytes (ending with `tail`) such that Base58Check(prefix + body) starts with `lead`; None when
    there is none (or none was hit in `tries` draws - the intervals are exact, a miss needs the fixed tail to leave it)."""
    if not lead or any(ch not in _VAL for ch in lead):
        return None
    zeros = len(lead) - len(lead.lstrip("1"))       # a leading '1' is a leading zero byte
    word = lead[zeros:]
    if not word:
        return None
    rg = _value_range(prefix, blen, zeros)
    if rg is None:
        return None
    lo0, hi0 = rg
    w = value(word)
    max_digits = len(numeral(hi0 - 1))
    spans = []
    for digits in range(max(len(word), len(numeral(lo0))), max_digits + 1):
        sc = 58 ** (digits - len(word))
        lo, hi = max(lo0, w * sc), min(hi0, (w + 1) * sc)
        # the payload part (value >> 32) must keep the numeral inside the interval whatever the checksum is
        plo, phi = -((-lo) >> 32), (hi >> 32) - 1
        if plo <= phi:
            spans.append((plo, phi))
    if not spans:
        return None
    for _ in range(tries):
        plo, phi = rng.choice(spans)
        body = _body_of(rng.randrange(plo, phi + 1), blen, tail)
        if RB.encode_check(prefix + body).startswith(lead):
            return body
    return None


def body_over_alphabet(prefix, blen, chars, rng, tries=1500):
    """-> body such that every character of Base58Check(prefix + body) is in `chars`, or None. The head of the text is
    drawn over `chars` directly; the last ~6 characters depend on the checksum, so this part is a bounded search
    (success per draw about (len(chars)/58)**5.5)."""
    chars = "".join(c for c in chars if c in _VAL)
    zeros = len(prefix) - len(prefix.lstrip(b"\0"))
    if not chars or (zeros and "1" not in chars):
        return None
    rg = _value_range(prefix, blen, zeros)
    if rg is None:
        return None
    lo0, hi0 = rg
    a, b = numeral(lo0), numeral(hi0 - 1)
    shapes = []
    for digits in range(len(a), len(b) + 1):
        lo_t = a if digits == len(a) else "2" + "1" * (digits - 1)          # smallest / largest numeral of that length
        hi_t = b if digits == len(b) else "z" * digits
        k = 0
        while k < digits and lo_t[k] == hi_t[k]:
            k += 1
        forced = lo_t[:k]
        if any(c not in chars for c in forced):
            continue
        nxt = [c for c in chars if k < digits and _VAL[lo_t[k]] <= _VAL[c] <= _VAL[hi_t[k]] and (k or c != "1")]
        if k < digits and not nxt:
            continue
        shapes.append((digits, forced, nxt))
    if not shapes:
        return None
    for _ in range(tries):
        digits, forced, nxt = rng.choice(shapes)
        s = forced + (rng.choice(nxt) if nxt else "")
        s += "".join(rng.choice(chars) for _ in range(digits - len(s)))
        v = value(s)
        if not lo0 <= v < hi0:
            continue
        body = _body_of(v >> 32, blen, b"")
        t = RB.encode_check(prefix + body)
        if all(c in chars for c in t):
            return body
    return None


def case_variants(word, limit=64):
    """letter-case spellings of `word` that Base58 can spell (plain / upper / title first), at most `limit`."""
    out = [word, word.upper(), word.lower(), word.title(), word.swapcase()]
    letters = [i for i, ch in enumerate(word) if ch.isalpha()]
    if len(letters) <= 6:
        for m in range(1 << len(letters)):
            w = list(word.lower())
            for j, i in enumerate(letters):
                if m >> j & 1:
                    w[i] = w[i].upper()
            out.append("".join(w))
    seen = []
    for w in out:
        if w not in seen and all(c in _VAL for c in w):
            seen.append(w)
    return seen[:limit]


def common_lead(prefix, blen, limit=4):
    """the characters every Base58Check(prefix + body) starts with (e.g. 'xprv'), at most `limit`."""
    a, b = RB.encode_check(prefix + bytes(blen)), RB.encode_check(prefix + b"\xff" * blen)
    k = 0
    while k < min(len(a), len(b), limit) and a[k] == b[k]:
        k += 1
    return a[:k] if len(a) == len(b) else "1" * (len(prefix) - len(prefix.lstrip(b"\0")))


# constructed witnesses kept as constants: (version byte, hash160, text). The texts are ordinary P2PKH addresses of the
# published Litecoin (0x30, HRP 'ltc') and DigiByte (0x1e, HRP 'dgb') parameters that begin like a segwit address.
KNOWN_SHAPED = (
    (0x30, "5becca1767ae6affaa15c04b4fb308859539a6a9", "LTc1R5zYUcjjc9BzjCjmR77pL4MLAVhKwV"),
    (0x30, "5762eda62ce4f9ee1184928fbb6d2787697ccd5c", "LTC1ZZZZZZZZZZZZZZZZZZZZZZZZb4tso5"),
    (0x1e, "79064b8b9eb9d04693d96e0d7b997f24621b426b", "DGB1qrtvb52Ld838HJVRef6tGzgM74YMPh"),
    (0x1e, "7d9016db2fcf88e9f20269db493fdaed433e91e3", "DGb1cjePpQJAAfqcd3oNx4iqTPHsA1op5L"),
)


def selftest():
    import random
    rng = random.Random(18)
    n = 0
    for ver, h, text in KNOWN_SHAPED:
        assert RB.encode_check(bytes([ver]) + bytes.fromhex(h)) == text and RB.decode_check(text) == bytes([ver]) + bytes.fromhex(h)
        n += 1
    # words: the result is checked through the reference decoder, never assumed
    for prefix, blen, lead, tail, feasible in (
            (b"\x00", 20, "1A1zP", b"", True), (b"\x00", 20, "11Ab", b"", True), (b"\x00", 20, "2", b"", False), (b"\x05", 20, "3Hex", b"", True),
            (b"\x05", 20, "1", b"", False), (b"\x30", 20, "LTC1", b"", True), (b"\x30", 20, "ltc1", b"", False), (b"\x30", 20, "LTc1q", b"", True), (b"\x30", 20, "LtC1", b"", False),
            (b"\x1e", 20, "DGb1", b"", True), (b"\x1e", 20, "DgB1", b"", False), (b"\x80", 33, "Kz", b"\x01", True), (b"\x80", 33, "5", b"\x01", False), (b"\x80", 32, "5J", b"", True),
            (b"\x80", 32, "K", b"", False), (bytes.fromhex("0488ade4"), 74, "xprv9", b"", True), (bytes.fromhex("0488ade4"), 74, "xpub", b"", False),
            (b"\x00", 20, "1O", b"", False), (b"\x6f", 20, "mtb1", b"", True), (b"\x6f", 20, "tb1", b"", False)):
        for _ in range(4):
            body = body_with_lead(prefix, blen, lead, rng, tail=tail)
            assert (body is not None) == feasible, (prefix, lead)
            if body is not None:
                t = RB.encode_check(prefix + body)
                assert len(body) == blen and body.endswith(tail) and t.startswith(lead) and RB.decode_check(t) == prefix + body
            n += 1
    # exhaustive cross-check of the interval arithmetic on a small format: 1-byte prefix, 1-byte body -> 256 texts per prefix
    for p in (0, 1, 5, 0x30, 0xff):
        texts = [RB.encode_check(bytes([p, x])) for x in range(256)]
        for lead in sorted({t[:k] for t in texts for k in (1, 2)}):
            body = body_with_lead(bytes([p]), 1, lead, rng, tries=64)
            # a lead exists among the texts; the constructor may only miss it when no body keeps it for every checksum
            if body is not None:
                assert RB.encode_check(bytes([p]) + body).startswith(lead)
        for lead in ("0", "I", "zzzzzzzzzzzz"):
            assert body_with_lead(bytes([p]), 1, lead, rng) is None
        n += 1
    impossible = {("hex", b"\x80"), ("lower", b"\x80")}      # uncompressed WIF is '5H'..'5K': no hex digit / lower-case letter fits
    for name, chars in ALPHABETS:
        for prefix, blen in ((b"\x00", 20), (b"\x05", 20), (b"\x80", 32)):
            body = body_over_alphabet(prefix, blen, chars, rng, tries=6000)
            assert (body is None) == ((name, prefix) in impossible), (name, prefix)
            if body is not None:
                t = RB.encode_check(prefix + body)
                assert all(c in chars for c in t) and RB.decode_check(t) == prefix + body and len(body) == blen
            n += 1
    assert body_over_alphabet(b"\x30", 20, HEX_CHARS, rng) is None          # 'L...' / 'M...' is never a hex digit
    assert body_over_alphabet(b"\x00", 20, "23456789", rng) is None         # needs the leading '1'
    assert HEX_CHARS == "123456789ABCDEFabcdef" and "l" not in LOWER_CHARS and "I" not in UPPER_CHARS and "O" not in UPPER_CHARS
    assert "LTc1" in case_variants("ltc1") and "ltc1" not in case_variants("ltc1") and "lTc1" not in case_variants("ltc1")
    assert common_lead(bytes.fromhex("0488ade4"), 74) == "xprv" and common_lead(bytes.fromhex("0488b21e"), 74) == "xpub"
    assert common_lead(b"\x80", 32) == "5" and common_lead(b"\x00", 20) == "1"
    return n + 6
