"""Seeded workload generators for script evaluation (C03) — independent of pycoin.

Case shapes (all JSON-able through probe.jx / unjx):
  spend: {"k": "spend", "tx": txdict, "n_in": i, "spk": bytes, "amount": int, "flags": int, "src": str}
  eval:  {"k": "eval", "script": bytes, "stack": [bytes], "flags": int, "sv": 0|1, "src": str,
          "tx": txdict, "n_in": 0, "spk": bytes, "amount": int}
         (+ "opm": [opcode, position] on the covering cases of the opcode matrix)
  multi: {"k": "multi", "tx": txdict, "spks": [bytes], "amounts": [int], "flags": int, "src": str}
"""
import hashlib
import json
import os

from vmon.refs import script as RS
from vmon.refs import sighash as SH
from vmon.refs import coretext as CT
from vmon.refs.ec import SECP256K1 as C

ALL_FLAGS = (1 << 16) - 1
STANDARD = ALL_FLAGS
OPN = RS.OP


def sha256(b):
    return hashlib.sha256(b).digest()


def hash160(b):
    return hashlib.new("ripemd160", sha256(b)).digest()


def push(data):
    """minimal push of data"""
    n = len(data)
    if n == 0:
        return b"\x00"
    if n == 1 and 1 <= data[0] <= 16:
        return bytes([0x50 + data[0]])
    if n == 1 and data[0] == 0x81:
        return b"\x4f"
    return SH.push_data(data)


def push_with(data, opcode):
    """push `data` with a chosen push opcode (possibly non-minimal): opcode in (len, 0x4c, 0x4d, 0x4e)"""
    n = len(data)
    if opcode == 0x4c:
        return b"\x4c" + bytes([n & 0xff]) + data
    if opcode == 0x4d:
        return b"\x4d" + (n & 0xffff).to_bytes(2, "little") + data
    if opcode == 0x4e:
        return b"\x4e" + n.to_bytes(4, "little") + data
    return bytes([n]) + data


def num(n):
    return CT.push_int(n)


def permitted(flags):
    return RS.flags_permitted(flags)


def fix_flags(flags):
    if flags & RS.CLEANSTACK:
        flags |= RS.P2SH | RS.WITNESS
    if flags & RS.WITNESS:
        flags |= RS.P2SH
    return flags


FLAG_SETS = [0, RS.P2SH, RS.P2SH | RS.WITNESS, RS.P2SH | RS.STRICTENC, ALL_FLAGS, ALL_FLAGS & ~RS.CLEANSTACK,
             RS.P2SH | RS.WITNESS | RS.MINIMALDATA, RS.MINIMALDATA, RS.P2SH | RS.WITNESS | RS.CLEANSTACK,
             ALL_FLAGS & ~RS.DISCOURAGE_UPGRADABLE_NOPS & ~RS.DISCOURAGE_UPGRADABLE_WITNESS_PROGRAM,
             RS.P2SH | RS.WITNESS | RS.NULLFAIL | RS.NULLDUMMY, RS.P2SH | RS.WITNESS | RS.DERSIG | RS.LOW_S]


def rand_flags(rng):
    r = rng.random()
    if r < 0.45:
        return rng.choice(FLAG_SETS)
    f = 0
    for i in range(16):
        if rng.random() < 0.5:
            f |= 1 << i
    return fix_flags(f)


# ---------------------------------------------------------------------------------------------------
# operand classes

def operand_classes():
    m = (1 << 31) - 1
    return {
        "empty": b"", "00": b"\x00", "80": b"\x80", "0080": b"\x00\x80", "0000": b"\x00\x00", "01": b"\x01", "02": b"\x02",
        "05": b"\x05", "10": b"\x10", "11": b"\x11", "7f": b"\x7f", "81": b"\x81", "ff": b"\xff", "8000": b"\x80\x00",
        "ff7f": b"\xff\x7f", "ffff": b"\xff\xff", "0100": b"\x01\x00", "0180": b"\x01\x80", "010000": b"\x01\x00\x00",
        "000080": b"\x00\x00\x80", "ffffff7f": RS.num_encode(m), "ffffffff": RS.num_encode(-m),
        "2^31": RS.num_encode(1 << 31), "-2^31": RS.num_encode(-(1 << 31)), "01000000": b"\x01\x00\x00\x00",
        "0100000000": b"\x01\x00\x00\x00\x00", "5byte": RS.num_encode(1 << 33), "6byte": RS.num_encode(1 << 41),
        "ff00000000": b"\xff\x00\x00\x00\x00", "0000000080": b"\x00\x00\x00\x00\x80",
        "20x": bytes(range(1, 21)), "32x": bytes(range(32)), "520": b"\x01" * 520, "521": b"\x02" * 521, "75": b"\x03" * 75, "76": b"\x04" * 76,
        "255": b"\x05" * 255, "256": b"\x06" * 256,
    }


OPERANDS = operand_classes()
SMALL_OPERANDS = ["empty", "00", "80", "0080", "01", "02", "05", "81", "ff", "8000", "0100", "ffffff7f", "ffffffff", "2^31",
                  "0100000000", "5byte", "ff00000000", "0000000080", "20x", "520"]

ARITY = {}
for _n in "1ADD 1SUB NEGATE ABS NOT 0NOTEQUAL IF NOTIF VERIFY TOALTSTACK IFDUP DROP DUP SIZE RIPEMD160 SHA1 SHA256 HASH160 HASH256 CHECKLOCKTIMEVERIFY CHECKSEQUENCEVERIFY".split():
    ARITY[OPN[_n]] = 1
for _n in ("ADD SUB BOOLAND BOOLOR NUMEQUAL NUMEQUALVERIFY NUMNOTEQUAL LESSTHAN GREATERTHAN LESSTHANOREQUAL GREATERTHANOREQUAL MIN MAX "
           "EQUAL EQUALVERIFY 2DROP 2DUP NIP OVER SWAP TUCK PICK ROLL CHECKSIG CHECKSIGVERIFY CAT AND OR XOR MUL DIV MOD LSHIFT RSHIFT LEFT RIGHT").split():
    ARITY[OPN[_n]] = 2
for _n in "WITHIN 3DUP ROT SUBSTR CHECKMULTISIG CHECKMULTISIGVERIFY".split():
    ARITY[OPN[_n]] = 3
for _n in "2OVER 2SWAP".split():
    ARITY[OPN[_n]] = 4
ARITY[OPN["2ROT"]] = 6


class Keys:
    """A few key pairs known to the harness, with reference signing."""

    def __init__(self, count=6):
        self.d = [int.from_bytes(sha256(b"vmon-key-%d" % i), "big") % (C.n - 1) + 1 for i in range(count)]
        self.d[0] = 1
        self.P = [C.mul(d, C.G) for d in self.d]
        self._sig = {}

    def sec(self, i, compressed=True):
        x, y = self.P[i]
        if compressed:
            return bytes([2 + (y & 1)]) + x.to_bytes(32, "big")
        return b"\x04" + x.to_bytes(32, "big") + y.to_bytes(32, "big")

    def hybrid(self, i, wrong_parity=False):
        x, y = self.P[i]
        par = (y & 1) ^ (1 if wrong_parity else 0)
        return bytes([6 + par]) + x.to_bytes(32, "big") + y.to_bytes(32, "big")

    def sign(self, i, digest):
        """(r, s) with low s; deterministic nonce (any nonce is a valid ECDSA signature)."""
        key = (i, digest)
        if key not in self._sig:
            z = int.from_bytes(digest, "big")
            k = int.from_bytes(sha256(b"nonce" + self.d[i].to_bytes(32, "big") + digest), "big") % (C.n - 1) + 1
            R = C.mul(k, C.G)
            r = R[0] % C.n
            s = pow(k, -1, C.n) * (z + r * self.d[i]) % C.n
            if s > C.n // 2:
                s = C.n - s
            assert r and s
            self._sig[key] = (r, s)
        return self._sig[key]


def der_int(v, pad=0, strip=False):
    b = v.to_bytes((v.bit_length() + 7) // 8 or 1, "big")
    if b[0] & 0x80 and not strip:
        b = b"\x00" + b
    return b"\x00" * pad + b


def der_sig(r, s, form="strict"):
    """DER encodings of (r, s) in the ways the rules distinguish."""
    rb, sb = der_int(r), der_int(s)
    if form == "strict":
        body = b"\x02" + bytes([len(rb)]) + rb + b"\x02" + bytes([len(sb)]) + sb
        return b"\x30" + bytes([len(body)]) + body
    if form == "pad10":                      # ten extra leading zeros on both: a signature blob longer than 75 bytes
        rb, sb = b"\x00" * 10 + rb, b"\x00" * 10 + sb
    if form == "padded_r":                   # extra leading zero
        rb = b"\x00" + rb
    elif form == "padded_s":
        sb = b"\x00" + sb
    elif form == "neg_r":                    # high bit set without the 00 (reads as the same magnitude in Core's lax parser)
        rb = der_int(r, strip=True)
    elif form == "neg_s":
        sb = der_int(s, strip=True)
    body = b"\x02" + bytes([len(rb)]) + rb + b"\x02" + bytes([len(sb)]) + sb
    if form == "longlen":                    # long-form length for the sequence
        return b"\x30\x81" + bytes([len(body)]) + body
    if form == "longlen_int":
        body = b"\x02\x81" + bytes([len(rb)]) + rb + b"\x02" + bytes([len(sb)]) + sb
        return b"\x30" + bytes([len(body)]) + body
    if form == "trailing":
        return b"\x30" + bytes([len(body)]) + body + b"\x00"
    if form == "trailing_in_seq":
        return b"\x30" + bytes([len(body) + 1]) + body + b"\x00"
    if form == "seqlen_short":
        return b"\x30" + bytes([len(body) - 1]) + body
    if form == "seqlen_long":
        return b"\x30" + bytes([len(body) + 5]) + body
    if form == "truncated":
        full = b"\x30" + bytes([len(body)]) + body
        return full[:len(full) // 2]
    if form == "trunc2":
        return b"\x30\x01"
    if form == "trunc3":
        return b"\x30\x02\x02"
    if form == "wrongtag":
        return b"\x31" + bytes([len(body)]) + body
    if form == "inttag":
        body = b"\x03" + body[1:]
        return b"\x30" + bytes([len(body)]) + body
    return b"\x30" + bytes([len(body)]) + body


DER_FORMS = ["strict", "pad10", "padded_r", "padded_s", "neg_r", "neg_s", "longlen", "longlen_int", "trailing", "trailing_in_seq", "seqlen_short",
             "seqlen_long", "truncated", "trunc2", "trunc3", "wrongtag", "inttag"]


def rand_prev(rng):
    return bytes(rng.randrange(1, 256) for _ in range(32))


def mk_tx(rng, script_sig, witness=(), amount=0, version=None, lock_time=None, sequence=None, extra_ins=0, n_outs=1, n_in=0):
    version = rng.choice([1, 1, 2, 2, 0, 0xffffffff, 3]) if version is None else version
    lock_time = rng.choice([0, 0, 1, 499999999, 500000000, 0xffffffff]) if lock_time is None else lock_time
    sequence = rng.choice([0xffffffff, 0xffffffff, 0, 1, 0xfffffffe, 1 << 22, 1 << 31]) if sequence is None else sequence
    ins = []
    total_ins = 1 + extra_ins
    for i in range(total_ins):
        if i == n_in:
            ins.append({"prev": rand_prev(rng), "index": rng.choice([0, 1, 7]), "script": script_sig, "sequence": sequence,
                        "witness": list(witness)})
        else:
            ins.append({"prev": rand_prev(rng), "index": rng.randrange(4), "script": b"", "sequence": rng.choice([0xffffffff, 5]),
                        "witness": []})
    outs = [{"value": rng.choice([0, 1, 5000, amount]), "script": rng.choice([b"", b"\x51", b"\x76\xa9\x14" + b"\x11" * 20 + b"\x88\xac"])}
            for _ in range(n_outs)]
    return {"version": version, "ins": ins, "outs": outs, "lock_time": lock_time}


def spend(tx, spk, amount, flags, src, n_in=0):
    return {"k": "spend", "tx": tx, "n_in": n_in, "spk": spk, "amount": amount, "flags": flags, "src": src}


def simple_spend(rng, sig, spk, wit, flags, src, amount=0):
    return spend(CT.credit_spend(sig, spk, wit, amount), spk, amount, flags, src)


# ---------------------------------------------------------------------------------------------------
# 1. corpus and 2. corpus mutation

_CORPUS = None


def corpus(data_dir):
    global _CORPUS
    if _CORPUS is None:
        out = []
        for item in json.load(open(os.path.join(data_dir, "script_tests.json"))):
            if len(item) < 4:
                continue
            wit, amount = [], 0
            if isinstance(item[0], list):
                wit = [bytes.fromhex(w) for w in item[0][:-1]]
                amount = int(round(item[0][-1] * 1e8))
                item = item[1:]
            try:
                out.append((CT.parse_script(item[0]), CT.parse_script(item[1]), wit, CT.parse_flags(item[2]), amount))
            except ValueError:
                pass
        txs = []
        for name in ("tx_valid.json", "tx_invalid.json"):
            for item in json.load(open(os.path.join(data_dir, name))):
                if len(item) != 3 or not isinstance(item[0], list):
                    continue
                try:
                    from vmon.refs import txser
                    tx, _ = txser.parse(bytes.fromhex(item[1]))
                    prev = {(bytes.fromhex(v[0])[::-1], v[1] & 0xffffffff): (CT.parse_script(v[2]), v[3] if len(v) > 3 else 0) for v in item[0]}
                    txs.append((tx, prev, CT.parse_flags(item[2])))
                except (ValueError, KeyError):
                    pass
        _CORPUS = (out, txs)
    return _CORPUS


def corpus_cases(data_dir):
    """every Core vector as a spend case (also the oracle's self-test material)"""
    scripts, txs = corpus(data_dir)
    for sig, spk, wit, flags, amount in scripts:
        yield spend(CT.credit_spend(sig, spk, wit, amount), spk, amount, flags, "corpus.script")
    for tx, prev, flags in txs:
        if CT.check_transaction(tx) is not None:
            continue
        for n, i in enumerate(tx["ins"]):
            if (i["prev"], i["index"]) in prev and i["prev"] != b"\0" * 32:
                spk, amount = prev[(i["prev"], i["index"])]
                yield spend(tx, spk, amount, flags, "corpus.tx", n_in=n)


def split_ops(script):
    """[(opcode, data, raw bytes)] up to the first unparsable tail, plus that tail"""
    out, pc = [], 0
    while pc < len(script):
        ok, opcode, data, npc = SH.get_op(script, pc)
        if not ok:
            break
        out.append((opcode, data, script[pc:npc]))
        pc = npc
    return out, script[pc:]


def mutate_script(rng, script):
    ops, tail = split_ops(script)
    if not ops:
        return bytes(rng.randrange(256) for _ in range(rng.randrange(1, 4)))
    raws = [r for _, _, r in ops]
    m = rng.randrange(10)
    i = rng.randrange(len(ops))
    if m >= 8:                                   # flip one bit of some push's data (first / last byte favoured)
        pushes = [k for k, (o, d, _) in enumerate(ops) if o <= 0x4e and len(d) > 0]
        if pushes:
            i = rng.choice(pushes)
            o, d, raw = ops[i]
            pos = rng.choice([0, len(d) - 1, len(d) - 1, rng.randrange(len(d))])
            d2 = bytearray(d)
            d2[pos] ^= 1 << rng.randrange(8)
            raws[i] = raw[:len(raw) - len(d)] + bytes(d2)
        return b"".join(raws) + tail
    if m == 0:                                   # operand substitution
        pushes = [k for k, (o, _, _) in enumerate(ops) if o <= 0x4e or 0x4f <= o <= 0x60]
        if pushes:
            i = rng.choice(pushes)
            data = OPERANDS[rng.choice(SMALL_OPERANDS)]
            raws[i] = push(data) if rng.random() < 0.7 else push_with(data, rng.choice([0x4c, 0x4d, 0x4e]))
    elif m == 1:                                 # opcode substitution
        raws[i] = bytes([rng.randrange(0x4f, 0x100)])
    elif m == 2:
        del raws[i]
    elif m == 3:
        raws.insert(i, raws[i])
    elif m == 4:                                 # insert an opcode
        raws.insert(i, bytes([rng.choice([0x61, 0x63, 0x64, 0x67, 0x68, 0x69, 0x73, 0x74, 0x75, 0x76, 0x82, 0x87, 0x91, 0x92, 0xab, 0xb1, 0xb2, 0x50, 0x62, 0x65])]))
    elif m == 5:                                 # swap two
        j = rng.randrange(len(ops))
        raws[i], raws[j] = raws[j], raws[i]
    elif m == 6:                                 # truncate
        s = b"".join(raws) + tail
        return s[:rng.randrange(len(s) + 1)]
    else:                                        # non-minimal re-encoding of a push
        pushes = [k for k, (o, d, _) in enumerate(ops) if 1 <= o <= 0x4b]
        if pushes:
            i = rng.choice(pushes)
            raws[i] = push_with(ops[i][1], rng.choice([0x4c, 0x4d, 0x4e]))
    return b"".join(raws) + tail


def wrap(rng, sig, spk, wit, kind):
    """move (scriptSig, scriptPubKey) into a P2SH / P2WSH / P2SH-P2WSH wrapper; needs push-only scriptSig for witness kinds"""
    if kind == "p2sh":
        return sig + SH.push_data(spk), b"\xa9\x14" + hash160(spk) + b"\x87", wit
    stack = []
    if not RS.is_push_only(sig):
        return None
    try:
        RS.eval_script(stack, sig, 0, RS.NullChecker(), 0)
    except RS.ScriptErr:
        return None
    prog = b"\x00\x20" + sha256(spk)
    if kind == "p2wsh":
        return b"", prog, stack + [spk]
    return SH.push_data(prog), b"\xa9\x14" + hash160(prog) + b"\x87", stack + [spk]


def corpus_mutations(rng, data_dir, n):
    scripts, txs = corpus(data_dir)
    for _ in range(n):
        sig, spk, wit, flags, amount = rng.choice(scripts)
        m = rng.random()
        src = "mut"
        if m < 0.25:                             # flag toggles
            if rng.random() < 0.6:
                flags = fix_flags(flags ^ (1 << rng.randrange(16)))
            else:
                flags = rand_flags(rng)
            src = "mut.flags"
        elif m < 0.5:
            sig = mutate_script(rng, sig)
            src = "mut.sig"
        elif m < 0.75:
            spk = mutate_script(rng, spk)
            src = "mut.spk"
        elif m < 0.82 and wit:
            wit = list(wit)
            k = rng.randrange(len(wit))
            wit[k] = mutate_script(rng, wit[k]) if rng.random() < 0.5 else OPERANDS[rng.choice(SMALL_OPERANDS)]
            src = "mut.wit"
        else:
            kind = rng.choice(["p2sh", "p2wsh", "p2sh-p2wsh"])
            if rng.random() < 0.4:
                spk = mutate_script(rng, spk)        # a mutated script as redeem / witness script
            w = wrap(rng, sig, spk, wit if not wit else [], kind) if not wit else None
            if w is None:
                continue
            sig, spk, wit = w
            flags = fix_flags(flags | RS.P2SH | (RS.WITNESS if kind != "p2sh" else 0)) if rng.random() < 0.8 else flags
            src = "mut.wrap." + kind
        if rng.random() < 0.15:
            flags = rand_flags(rng)
        if not permitted(flags):
            flags = fix_flags(flags)
        yield simple_spend(rng, sig, spk, wit, flags, src, amount)


# ---------------------------------------------------------------------------------------------------
# 3. opcode x operand-class enumeration (eval cases)

def eval_case(rng, script, stack, flags, sv, src, tx=None):
    spk = b"\x51"
    if tx is None:
        tx = CT.credit_spend(b"", spk, [], 0)
    return {"k": "eval", "script": script, "stack": list(stack), "flags": flags, "sv": sv, "src": src, "tx": tx, "n_in": 0,
            "spk": spk, "amount": 0}


EVAL_FLAGSETS = [0, RS.MINIMALDATA, RS.MINIMALIF, ALL_FLAGS, RS.DISCOURAGE_UPGRADABLE_NOPS, RS.CHECKLOCKTIMEVERIFY | RS.CHECKSEQUENCEVERIFY,
                 RS.NULLDUMMY | RS.NULLFAIL | RS.STRICTENC]


def eval_flags(rng):
    """the fixed single-script flag sets, and now and then an arbitrary permitted subset of the 16 flags"""
    if rng.random() < 0.15:
        return rand_flags(rng)
    return rng.choice(EVAL_FLAGSETS)


COVER_POSITIONS = ("exec", "dead_if", "dead_else")


def opcode_matrix(rng, opcodes, budget_per_opcode, as_initial_stack_ratio=0.5, cover=False):
    """with cover=True the first three cases of every opcode put it, in this order, in an executed position, in a dead IF branch
    and in a dead ELSE branch, with its operands on the initial stack and a well-formed body, so that nothing can fail before
    the opcode is reached; such cases carry "opm": [opcode, position]"""
    names = list(OPERANDS)
    for opcode in opcodes:
        ar = ARITY.get(opcode, 1)
        for it in range(budget_per_opcode):
            covering = cover and it < len(COVER_POSITIONS)
            k = rng.choice([ar, ar, ar, max(0, ar - 1), ar + 1])
            pool = SMALL_OPERANDS if rng.random() < 0.8 else names
            ops = [OPERANDS[rng.choice(pool)] for _ in range(k)]
            flags = eval_flags(rng)
            sv = rng.choice([0, 0, 1])
            pos = rng.choice(["exec", "exec", "exec", "dead_if", "dead_else", "nested_dead"])
            if covering:
                pos = COVER_POSITIONS[it]
            if opcode <= 0x4e:
                # push opcodes: right / short / truncated-length data
                if opcode < 0x4c:
                    body = bytes([opcode]) + bytes(rng.randrange(256) for _ in range(opcode if covering else rng.choice([opcode, opcode, max(0, opcode - 1), 0])))
                else:
                    width = {0x4c: 1, 0x4d: 2, 0x4e: 4}[opcode]
                    ln = rng.choice([0, 1, 2, 75, 76, 255, 256, 520, 521])
                    lenb = ln.to_bytes(width, "little") if ln < (1 << (8 * width)) else b"\xff" * width
                    lenb = lenb[:rng.choice([width, width, width, rng.randrange(width + 1)])]
                    body = bytes([opcode]) + lenb + (b"\x07" * rng.choice([ln, ln, max(0, ln - 1)]) if len(lenb) == width else b"")
                    if covering:
                        ln = min(ln, (1 << (8 * width)) - 1)
                        body = bytes([opcode]) + ln.to_bytes(width, "little") + b"\x07" * ln
            else:
                body = bytes([opcode])
            if covering or rng.random() < as_initial_stack_ratio:
                stack, pre = ops, b""
            else:
                stack, pre = [], b"".join(push(o) for o in ops)
            if pos == "exec":
                script = pre + body
            elif pos == "dead_if":
                script = pre + b"\x00\x63" + body + b"\x68"
            elif pos == "dead_else":
                script = pre + b"\x51\x63\x67" + body + b"\x68"
            else:
                script = pre + b"\x00\x63\x51\x63" + body + b"\x68\x68"
            if rng.random() < 0.3:
                script += rng.choice([b"\x74", b"\x51", b"\x76", b"\x75", b"\x87", b"\x61"])
            case = eval_case(rng, script, stack, flags, sv, "opmatrix.%s" % pos)
            if covering:
                case["opm"] = [opcode, pos]
            yield case


def minimal_push_matrix(rng):
    """every push opcode x data class x {no flag, MINIMALDATA} x {executed, dead branch}: which encodings of a value count as
    minimal (BIP62 rule 3) -- the empty string and the values 1..16 and -1 have an opcode of their own, up to 75 bytes the direct
    push, up to 255 PUSHDATA1, up to 65535 PUSHDATA2 -- and that the rule is not applied to pushes that are not executed"""
    datas = [b"", b"\x00", b"\x80", b"\x11", b"\x7f", b"\x82", b"\xff", b"\x01\x00", b"\x81\x00"] + [bytes([v]) for v in range(1, 17)] + [b"\x81"]
    datas += [b"\x09" * n for n in (2, 74, 75, 76, 77, 254, 255, 256, 257, 519, 520)]
    for data in datas:
        n = len(data)
        forms = [push_with(data, op) for op in (0x4c, 0x4d, 0x4e) if op != 0x4c or n <= 255]
        if n <= 75:
            forms.append(push_with(data, n))
        forms.append(push(data))
        for form in forms:
            for flags in (0, RS.MINIMALDATA, ALL_FLAGS):
                sv = rng.choice([0, 1])
                yield eval_case(rng, form, [], flags, sv, "minpush.exec")
                yield eval_case(rng, rng.choice([b"\x00\x63", b"\x51\x63\x51\x67"]) + form + b"\x68\x51", [], flags, sv, "minpush.dead")
            # the same as a scriptSig push of a real spend
            yield simple_spend(rng, form, b"\x82\x51\x87\x91", [], rng.choice([RS.MINIMALDATA, RS.MINIMALDATA | RS.P2SH, 0]), "minpush.spend")
    # 65535 / 65536 bytes: over the element limit either way, reachable only through PUSHDATA2 / PUSHDATA4
    for n in (65535, 65536):
        for op in (0x4d, 0x4e):
            if n < (1 << 16) or op == 0x4e:
                for flags in (0, RS.MINIMALDATA):
                    yield eval_case(rng, b"\x00\x63" + push_with(b"\x09" * n, op) + b"\x68\x51", [], flags, 0, "minpush.dead_huge")


def der_flag_matrix(rng, keys):
    """every DER form of a (valid) signature under each single encoding flag and under none, in P2PK with and without a trailing
    NOT: DERSIG, LOW_S and STRICTENC each demand strict DER on their own (BIP66 / BIP62 / BIP146)"""
    pub = keys.sec(1, True)
    for tail in (b"\xac", b"\xac\x91"):
        script = push(pub) + tail
        for form in DER_FORMS:
            for flags in (0, RS.DERSIG, RS.LOW_S, RS.STRICTENC):
                tx = mk_tx(rng, b"", [], 600, 1, 0, 0xffffffff, 0, 1, 0)
                sig = sig_blob(keys, 1, SH.legacy(tx, 0, script, 1), 1, form)
                tx["ins"][0]["script"] = SH.push_data(sig)
                yield spend(tx, script, 600, flags, "sig.der_flag")


# ---------------------------------------------------------------------------------------------------
# 4. limits

def limit_cases(rng):
    F = [0, RS.P2SH, ALL_FLAGS & ~RS.CLEANSTACK & ~RS.DISCOURAGE_UPGRADABLE_NOPS, RS.MINIMALDATA]

    def ev(script, stack=(), flags=None, sv=0, src="limit"):
        return eval_case(rng, script, stack, rng.choice(F) if flags is None else flags, sv, src)
    # script size
    for n in (9999, 10000, 10001):
        yield ev(b"\x51" + b"\x61" * 0 + (b"\x00\x75" * ((n - 1) // 2)) + (b"\x61" * ((n - 1) % 2) if (n - 1) % 2 else b""), src="limit.script_size")
        body = b"\x51" + SH.push_data(b"\x01" * 500) * 19 + b"\x75" * 19
        pad = n - len(body)
        if pad >= 3:
            yield ev(body + SH.push_data(b"\x02" * (pad - 3 - 1)) + b"\x75" if pad - 4 <= 520 else body, src="limit.script_size")
    # op count: counted ops around 200/201/202, with reserved / pushes in dead branches, and CHECKMULTISIG key counts
    for n in (199, 200, 201, 202):
        yield ev(b"\x51" + b"\x61" * n, src="limit.opcount")
        yield ev(b"\x51" + b"\x61" * (n - 2) + b"\x00\x63\x50\x50\x68", src="limit.opcount.dead_reserved")     # IF,ENDIF counted; RESERVED not
        yield ev(b"\x00\x63" + b"\x61" * (n - 2) + b"\x68\x51", src="limit.opcount.dead_nops")
        yield ev(b"\x51" + b"\x76\x75" * ((n - 1) // 2) + b"\x61" * ((n - 1) % 2) + b"\x61", src="limit.opcount")
        for nk in (0, 1, 3, 20):
            pre = b"\x00" + b"\x00" + b"".join(push(b"\x02" + bytes([k]) * 32) for k in range(nk)) + num(nk)
            k_ops = n - nk - 1
            if k_ops >= 0:
                yield ev(b"\x61" * k_ops + pre + b"\xae", src="limit.opcount.multisig")
                yield ev(b"\x61" * k_ops + pre + b"\xae" + b"\x61", src="limit.opcount.multisig")
                yield ev(pre + b"\xae" + b"\x61" * k_ops, src="limit.opcount.multisig_first")
    # stack size
    for n in (998, 999, 1000, 1001, 1002):
        yield ev(b"\x51" * min(n, 1200), src="limit.stack")
        yield ev(b"\x51" * (n - 1) + b"\x76\x75", src="limit.stack.transient")
        yield ev(b"\x51" * (n // 2) + b"\x51\x6b" * (n - n // 2), src="limit.stack.alt")
        yield ev(b"\x6f" * 0 + b"\x51\x51\x51" + b"\x6f" * ((n - 3) // 3) + b"\x51" * ((n - 3) % 3), src="limit.stack.3dup")
        yield ev(b"\x76" * 3, stack=[b"\x01"] * min(n - 3, 1000), src="limit.stack.initial")
        # initial stacks above 1,000 elements are outside the domain: consensus checks the limit only after an
        # opcode ran, pycoin before; no spend can present such a stack to a script that then succeeds
        yield ev(b"\x61", stack=[b"\x01"] * min(n, 1000), src="limit.stack.initial")
        yield ev(b"", stack=[b"\x01"] * min(n, 1000), src="limit.stack.initial_empty_script")
    # push sizes via each push opcode, executed and dead
    for n in (519, 520, 521):
        for op in (0x4d, 0x4e):
            p = push_with(b"\x09" * n, op)
            yield ev(p, src="limit.push")
            yield ev(b"\x00\x63" + p + b"\x68\x51", src="limit.push.dead")
            yield ev(b"\x51\x63\x51\x67" + p + b"\x68", src="limit.push.dead_else")
    for n in (75, 76, 255, 256):
        for op in (0x4c, 0x4d, 0x4e):
            yield ev(push_with(b"\x09" * n, op), flags=rng.choice([0, RS.MINIMALDATA]), src="limit.push.minimal")
            yield ev(b"\x00\x63" + push_with(b"\x09" * n, op) + b"\x68\x51", flags=RS.MINIMALDATA, src="limit.push.minimal.dead")
    # truncated pushes of every kind
    for s in (b"\x01", b"\x02\x01", b"\x4b" + b"\x01" * 74, b"\x4c", b"\x4c\x01", b"\x4c\x05\x01\x02", b"\x4d", b"\x4d\x01", b"\x4d\x51",
              b"\x4d\x01\x00", b"\x4d\x02\x00\x01", b"\x4e", b"\x4e\x01", b"\x4e\x01\x00", b"\x4e\x01\x00\x00", b"\x4e\x01\x00\x00\x00",
              b"\x4e\x02\x00\x00\x00\x01", b"\x4e\xff\xff\xff\xff", b"\x4e\xff\xff\xff\x7f\x01"):
        yield ev(b"\x51" + s, src="limit.truncated")
        yield ev(s, src="limit.truncated")
        yield ev(b"\x51\x00\x63" + s, src="limit.truncated.dead")
        yield ev(b"\x51\x00\x63\x68" + s, src="limit.truncated")
    # conditional nesting
    for d in (1, 2, 50, 100, 101, 200):
        yield ev(b"\x51" * d + b"\x63" * d + b"\x51" + b"\x68" * d, src="limit.nest")
        yield ev(b"\x51" * d + b"\x63" * d + b"\x51" + b"\x68" * (d - 1), src="limit.nest.unbalanced")
        yield ev(b"\x51" * d + b"\x63" * d + b"\x51" + b"\x68" * (d + 1), src="limit.nest.unbalanced")
        yield ev(b"\x00" + b"\x63" * d + b"\x68" * d + b"\x51", src="limit.nest.dead")
        yield ev(b"\x00" + b"\x63" * d + b"\x67" * (d % 7) + b"\x68" * d + b"\x51", src="limit.nest.dead_else")
    for s in (b"\x67", b"\x68", b"\x51\x67", b"\x51\x63\x67\x67\x68", b"\x51\x63\x67\x67\x67\x51\x68", b"\x00\x63\x67\x67\x51\x68",
              b"\x51\x63\x68\x67", b"\x63", b"\x64", b"\x00\x63\x65\x68\x51", b"\x00\x63\x66\x68\x51", b"\x51\x63\x67\x65\x68", b"\x00\x63\x62\x68\x51",
              b"\x51\x63\x62\x68", b"\x00\x63\x6a\x68\x51", b"\x00\x63\x7e\x68\x51", b"\x00\x63\xba\x68\x51", b"\x00\x63\xff\x68\x51"):
        yield ev(s, src="limit.cond")
        yield ev(s, stack=[b"\x01"], src="limit.cond")


def spend_limit_cases(rng):
    """the size limits met through a whole spend: scriptSig / scriptPubKey of 9,999 / 10,000 / 10,001 bytes, a P2SH redeem script of
    519 / 520 / 521 bytes (it has to be pushed), a witness stack item of 519 / 520 / 521 bytes under P2SH-P2WSH"""
    def big_script(n):
        # exactly n bytes, 20 counted operations, leaves [1]
        body = b"\x51" + SH.push_data(b"\x01" * 500) * 19 + b"\x75" * 19
        s = body + SH.push_data(b"\x02" * (n - len(body) - 4)) + b"\x75"
        assert len(s) == n
        return s
    for n in (9999, 10000, 10001):
        for flags in (0, RS.P2SH, RS.P2SH | RS.WITNESS):
            yield simple_spend(rng, b"", big_script(n), [], flags, "limit.spend.spk_size")
            yield simple_spend(rng, big_script(n), b"\x51", [], flags, "limit.spend.sig_size")
    for n in (519, 520, 521):
        redeem = SH.push_data(b"\x07" * (n - 5)) + b"\x75\x51"
        assert len(redeem) == n
        spk = b"\xa9\x14" + hash160(redeem) + b"\x87"
        for flags in (RS.P2SH, 0, RS.P2SH | RS.WITNESS | RS.CLEANSTACK):
            yield simple_spend(rng, SH.push_data(redeem), spk, [], flags, "limit.spend.redeem_size")
        ws = b"\x75\x51"
        prog = b"\x00\x20" + sha256(ws)
        for flags in (RS.P2SH | RS.WITNESS, ALL_FLAGS):
            yield simple_spend(rng, SH.push_data(prog), b"\xa9\x14" + hash160(prog) + b"\x87", [b"\x02" * n, ws], flags, "limit.spend.p2sh_p2wsh_item")
    for n in (520, 521, 9999, 10000, 10001):
        ws = big_script(n) if n > 9000 else SH.push_data(b"\x07" * (n - 5)) + b"\x75\x51"
        prog = b"\x00\x20" + sha256(ws)
        for flags in (RS.P2SH | RS.WITNESS, ALL_FLAGS):
            yield simple_spend(rng, SH.push_data(prog), b"\xa9\x14" + hash160(prog) + b"\x87", [ws], flags, "limit.spend.p2sh_p2wsh_script_size")


def witness_dispatch_cases(rng):
    """witness programs of every version and length, bare and P2SH-nested, with assorted scriptSigs and witnesses"""
    true_script = b"\x51"
    for ver in range(0, 17):
        for ln in (2, 3, 19, 20, 21, 31, 32, 33, 40, 41):
            prog = sha256(true_script)[:ln] if ln <= 32 else sha256(true_script) + b"\x07" * (ln - 32)
            if ver == 0 and ln == 20:
                prog = hash160(b"\x02" + b"\x11" * 32)
            spk = bytes([0x50 + ver if ver else 0, ln]) + prog
            for wit in ([], [true_script], [b"", true_script], [b"\x01", true_script], [b"\x01" * 521, true_script], [b"\x30", b"\x02" + b"\x11" * 32]):
                for sig in (b"", b"\x00", b"\x51\x75", b"\x61"):
                    flags = rng.choice([RS.P2SH | RS.WITNESS, ALL_FLAGS, ALL_FLAGS & ~RS.DISCOURAGE_UPGRADABLE_WITNESS_PROGRAM,
                                        RS.P2SH | RS.WITNESS | RS.CLEANSTACK, RS.P2SH, 0])
                    if rng.random() < 0.35:
                        yield simple_spend(rng, sig, spk, wit, flags, "witdisp.bare.v%d" % min(ver, 2))
                    if rng.random() < 0.25:
                        p2sh_spk = b"\xa9\x14" + hash160(spk) + b"\x87"
                        form = rng.choice(["canon", "canon", "pushdata1", "extra_push", "extra_op", "empty"])
                        ssig = {"canon": SH.push_data(spk), "pushdata1": push_with(spk, 0x4c), "extra_push": b"\x00" + SH.push_data(spk),
                                "extra_op": b"\x51\x75" + SH.push_data(spk), "empty": b""}[form]
                        yield simple_spend(rng, ssig, p2sh_spk, wit, flags, "witdisp.p2sh.%s" % form)
    # programs that are FALSE as script booleans (all zero, negative zero): the push itself leaves a false top element, so
    # the scriptPubKey / redeem-script stage already fails with EVAL_FALSE, whatever the witness version
    for ver in (0, 1, 2, 16):
        for ln in (2, 20, 32, 40):
            for prog in (b"\x00" * ln, b"\x00" * (ln - 1) + b"\x80", b"\x00" * (ln - 1) + b"\x01"):
                spk = bytes([0x50 + ver if ver else 0, ln]) + prog
                p2sh_spk = b"\xa9\x14" + hash160(spk) + b"\x87"
                for wit in ([], [b"\x51"], [b"\x01", b"\x01"]):
                    for flags in (RS.P2SH | RS.WITNESS, ALL_FLAGS & ~RS.DISCOURAGE_UPGRADABLE_WITNESS_PROGRAM, RS.P2SH, ALL_FLAGS):
                        yield simple_spend(rng, b"", spk, wit, flags, "witdisp.false_program.bare")
                        yield simple_spend(rng, SH.push_data(spk), p2sh_spk, wit, flags, "witdisp.false_program.p2sh")
    # witness script sizes and item sizes under P2WSH
    for n in (519, 520, 521, 3600, 9999, 10000, 10001):
        ws = b"\x51" + (b"\x00\x75" * ((n - 1) // 2)) + b"\x61" * ((n - 1) % 2)
        ws = ws[:n] if len(ws) >= n else ws
        spk = b"\x00\x20" + sha256(ws)
        for flags in (RS.P2SH | RS.WITNESS, ALL_FLAGS):
            yield simple_spend(rng, b"", spk, [ws], flags, "witdisp.script_size")
    for n in (519, 520, 521):
        ws = b"\x75\x51"
        for flags in (RS.P2SH | RS.WITNESS, ALL_FLAGS):
            yield simple_spend(rng, b"", b"\x00\x20" + sha256(ws), [b"\x01" * n, ws], flags, "witdisp.item_size")
    # 23-byte HASH160 .. EQUAL shapes that are not P2SH (second byte is not 0x14)
    for variant in range(6):
        inner = b"\x51"
        h = hash160(inner)
        spks = [b"\xa9\x14" + h + b"\x87", b"\xa9\x4c\x14" + h[:19] + b"\x87", b"\xa9\x13" + h[:19] + b"\x75\x87"[:1] + b"\x87",
                b"\xa9\x15" + h + b"\x00" * 0 + b"\x87"[:0], b"\xa9\x4c\x13" + h[:19] + b"\x87"]
        spk = spks[variant % len(spks)]
        if len(spk) != 23:
            spk = (spk + b"\x87" * 23)[:22] + b"\x87"
        for sig in (SH.push_data(inner), b"\x51" + SH.push_data(inner), SH.push_data(b"\x00"), SH.push_data(h[:19]), b"\x61" + SH.push_data(inner)):
            yield simple_spend(rng, sig, spk, [], rng.choice([RS.P2SH, 0, ALL_FLAGS & ~RS.CLEANSTACK]), "p2sh.shape")
    # witness present but no witness program
    for wit in ([b""], [b"\x01"]):
        for spk, sig in ((b"\x51", b""), (b"\xa9\x14" + hash160(b"\x51") + b"\x87", SH.push_data(b"\x51"))):
            yield simple_spend(rng, sig, spk, wit, rng.choice([RS.P2SH | RS.WITNESS, RS.P2SH, 0]), "witdisp.unexpected")


# ---------------------------------------------------------------------------------------------------
# 5. signature-bearing cases

def sig_blob(keys, ki, digest, hash_type, form="strict", high_s=False, s_override=None):
    r, s = keys.sign(ki, digest)
    if high_s:
        s = C.n - s
    if s_override is not None:
        s = s_override
    return der_sig(r, s, form) + bytes([hash_type])


class SigGen:
    def __init__(self, rng, keys):
        self.rng, self.keys = rng, keys

    def pubkey_variant(self, ki, kind):
        k = self.keys
        x, y = k.P[ki]
        if kind == "comp":
            return k.sec(ki, True)
        if kind == "uncomp":
            return k.sec(ki, False)
        if kind == "hybrid":
            return k.hybrid(ki)
        if kind == "hybrid_bad":
            return k.hybrid(ki, wrong_parity=True)
        if kind == "prefix":
            return bytes([self.rng.choice([0, 1, 5, 8, 0xff])]) + k.sec(ki, True)[1:]
        if kind == "prefix65":
            return bytes([self.rng.choice([0, 2, 3, 5, 8])]) + k.sec(ki, False)[1:]
        if kind == "wronglen":
            return k.sec(ki, True)[:self.rng.choice([0, 1, 32])] if self.rng.random() < 0.5 else k.sec(ki, True) + b"\x00"
        if kind == "offcurve":
            return b"\x04" + x.to_bytes(32, "big") + ((y + 1) % C.p).to_bytes(32, "big")
        if kind == "x_ge_p":
            # x' = x + p does not fit in 32 bytes unless x small: use the point with x = 1 if it exists, else fall back
            for xs in (1, 2, 3, 4, 5, 6, 7):
                if C.lift_x(xs) is not None and xs + C.p < (1 << 256):
                    return b"\x02" + (xs + C.p).to_bytes(32, "big")
            return k.sec(ki, True)
        if kind == "nopoint":
            xs = 5
            while C.lift_x(xs) is not None:
                xs += 1
            return b"\x02" + xs.to_bytes(32, "big")
        return k.sec(ki, True)

    def p2pk_like(self, n):
        """P2PK / P2PKH in all four wrappers with every encoding variant of signature and key"""
        rng, keys = self.rng, self.keys
        for _ in range(n):
            ki = rng.randrange(len(keys.d))
            pk_kind = rng.choice(["comp", "comp", "uncomp", "hybrid", "hybrid_bad", "prefix", "prefix65", "wronglen", "offcurve", "x_ge_p", "nopoint"])
            pub = self.pubkey_variant(ki, pk_kind)
            tmpl = rng.choice(["p2pk", "p2pkh", "p2pk_not", "p2pk_verify", "codesep", "fad"])
            if tmpl == "p2pkh":
                script = b"\x76\xa9\x14" + hash160(pub) + b"\x88\xac"
            elif tmpl == "p2pk_not":
                script = push(pub) + b"\xac\x91"
            elif tmpl == "p2pk_verify":
                script = push(pub) + b"\xad\x51"
            elif tmpl == "codesep":
                script = rng.choice([b"\xab", b"\x51\x75\xab", b"\xab\xab"]) + push(pub) + b"\xac" + rng.choice([b"", b"\xab", b"\x51\x75"])
            else:
                script = push(pub) + b"\xac"
            wrapper = rng.choice(["bare", "bare", "p2sh", "p2wsh", "p2sh-p2wsh"]) if len(pub) <= 75 else "bare"
            if tmpl == "p2pkh" and rng.random() < 0.3 and len(pub) in (33, 65):
                wrapper = rng.choice(["p2wpkh", "p2sh-p2wpkh"])
            ht = rng.choice([1, 1, 1, 2, 3, 0x81, 0x82, 0x83, 0, 4, 0x41, 0x80, 0xff, rng.randrange(256)])
            form = rng.choice(["strict"] * 6 + DER_FORMS)
            high = rng.random() < 0.2
            sov = None
            if rng.random() < 0.08:
                sov = rng.choice([C.n // 2, C.n // 2 + 1, C.p // 2, C.p // 2 + 1, C.n - 1, 0, C.n])
            flags = rand_flags(rng)
            amount = rng.choice([0, 1, 100000, 21 * 10 ** 14])
            version = rng.choice([1, 2, 1, 2, 0, 0xffffffff, 0x80000002])
            lock_time = rng.choice([0, 17, 0, 17, 499999999, 500000000, 0xffffffff])
            sequence = rng.choice([0xffffffff, 0xfffffffe, 0, 0xffffffff, 0xfffffffe, 0, (1 << 31) | 3, (1 << 22) | 5])
            extra_ins, n_outs, n_in = rng.choice([0, 0, 1, 2]), rng.choice([1, 1, 2, 0]), 0
            if extra_ins:
                n_in = rng.randrange(extra_ins + 1)
            witness_kind = wrapper in ("p2wsh", "p2sh-p2wsh", "p2wpkh", "p2sh-p2wpkh")
            # build spk / scriptSig shells
            if wrapper == "bare":
                spk = script
            elif wrapper == "p2sh":
                spk = b"\xa9\x14" + hash160(script) + b"\x87"
            elif wrapper == "p2wsh":
                spk = b"\x00\x20" + sha256(script)
            elif wrapper == "p2sh-p2wsh":
                redeem = b"\x00\x20" + sha256(script)
                spk = b"\xa9\x14" + hash160(redeem) + b"\x87"
            elif wrapper == "p2wpkh":
                spk = b"\x00\x14" + hash160(pub)
            else:
                redeem = b"\x00\x14" + hash160(pub)
                spk = b"\xa9\x14" + hash160(redeem) + b"\x87"
            tx = mk_tx(rng, b"", [], amount, version, lock_time, sequence, extra_ins, n_outs, n_in)
            # script code the signature commits to
            script_code = script
            if tmpl == "codesep":
                idx = script.rfind(b"\xab", 0, script.find(push(pub)) + 1)
                script_code = script[idx + 1:] if not witness_kind else script[idx + 1:]
            if wrapper in ("p2wpkh", "p2sh-p2wpkh"):
                script_code = b"\x76\xa9\x14" + hash160(pub) + b"\x88\xac"
            if witness_kind:
                digest = SH.bip143(tx, n_in, script_code, amount, ht)
            else:
                digest = SH.legacy(tx, n_in, script_code, ht)
            wrong = rng.random() < 0.12
            if wrong:
                digest = sha256(digest)
            sig = sig_blob(keys, ki, digest, ht, form, high, sov)
            if rng.random() < 0.05:
                sig = b""
            if tmpl == "fad" and wrapper in ("bare", "p2sh"):
                # the signature push also appears inside the script: FindAndDelete removes it before hashing, so the
                # signature commits to `DROP <pub> CHECKSIG`; with a non-canonical embedded push nothing is removed
                tail = b"\x75" + push(pub) + b"\xac"
                d2 = SH.legacy(tx, n_in, tail, ht)
                if wrong:
                    d2 = sha256(d2)
                sig = sig_blob(keys, ki, d2, ht, form, high, sov)
                emb = SH.push_data(sig) if rng.random() < 0.7 else push_with(sig, 0x4c)
                script = emb + tail
                spk = script if wrapper == "bare" else b"\xa9\x14" + hash160(script) + b"\x87"
            unlock = [sig] if tmpl != "p2pkh" else [sig, pub]
            if wrapper in ("p2wpkh", "p2sh-p2wpkh"):
                unlock = [sig, pub]
            if wrapper == "bare":
                ssig, wit = b"".join(push(u) if rng.random() < 0.95 else push_with(u, 0x4c) for u in unlock), []
            elif wrapper == "p2sh":
                ssig, wit = b"".join(push(u) for u in unlock) + SH.push_data(script), []
            elif wrapper == "p2wsh":
                ssig, wit = b"", unlock + [script]
            elif wrapper == "p2sh-p2wsh":
                ssig, wit = SH.push_data(redeem), unlock + [script]
            elif wrapper == "p2wpkh":
                ssig, wit = b"", unlock
            else:
                ssig, wit = SH.push_data(redeem), unlock
            if rng.random() < 0.04:
                ssig = rng.choice([b"\x00", b"\x61", b"\x51\x75"]) + ssig
            if rng.random() < 0.04 and wit:
                wit = [b""] + wit
            tx["ins"][n_in]["script"] = ssig
            tx["ins"][n_in]["witness"] = wit
            yield spend(tx, spk, amount, flags, "sig.%s.%s" % (tmpl, wrapper), n_in)

    def multisig(self, n):
        rng, keys = self.rng, self.keys
        nk_all = len(keys.d)
        for _ in range(n):
            nkeys = rng.choice([1, 2, 2, 3, 3, 4, 15, 16, 20])
            m = rng.randrange(1, min(nkeys, 4) + 1) if nkeys <= 4 else rng.choice([1, 2, nkeys])
            kidx = [rng.randrange(nk_all) for _ in range(nkeys)] if nkeys > nk_all else rng.sample(range(nk_all), nkeys) if nkeys <= nk_all else None
            if nkeys > nk_all:
                kidx = [i % nk_all for i in range(nkeys)]
            comp = [rng.random() < 0.85 for _ in range(nkeys)]
            pubs = [keys.sec(k, c) for k, c in zip(kidx, comp)]
            if rng.random() < 0.08:
                j = rng.randrange(nkeys)
                pubs[j] = self.pubkey_variant(kidx[j], rng.choice(["hybrid", "prefix", "wronglen", "nopoint"]))
            verify = rng.random() < 0.2
            script = num(m) + b"".join(push(p) for p in pubs) + num(nkeys) + (b"\xaf\x51" if verify else b"\xae")
            if rng.random() < 0.1:
                script = rng.choice([b"\xab", b"\x51\x75"]) + script
            if rng.random() < 0.05:
                script += b"\x91"      # NOT: makes a failing multisig succeed (NULLFAIL relevance)
            wrapper = rng.choice(["bare", "p2sh", "p2wsh", "p2sh-p2wsh"])
            if wrapper == "p2sh" and len(script) > 520:
                wrapper = "p2wsh"
            witness_kind = wrapper in ("p2wsh", "p2sh-p2wsh")
            ht = rng.choice([1, 1, 1, 2, 3, 0x81, 0x83, 0])
            flags = rand_flags(rng)
            amount = rng.choice([0, 5000, 10 ** 9])
            extra_ins = rng.choice([0, 0, 1])
            n_in = rng.randrange(extra_ins + 1)
            tx = mk_tx(rng, b"", [], amount, rng.choice([1, 2]), 0, 0xffffffff, extra_ins, rng.choice([1, 2]), n_in)
            script_code = script[script.rfind(b"\xab", 0, 4) + 1:] if script[:1] == b"\xab" else script
            digest = SH.bip143(tx, n_in, script_code, amount, ht) if witness_kind else SH.legacy(tx, n_in, script_code, ht)
            # choose which keys sign and in which order
            mode = rng.choice(["right", "right", "right", "wrong_order", "missing", "dup", "wrongkey", "empty_some", "bad_der", "tiny_sig"])
            signers = sorted(rng.sample(range(nkeys), m))
            if mode == "wrong_order" and m > 1:
                signers = signers[::-1]
            elif mode == "dup" and m > 1:
                signers = [signers[0]] * m
            sigs = [sig_blob(keys, kidx[j], digest, ht, "strict", rng.random() < 0.05) for j in signers]
            if mode == "missing":
                sigs = sigs[:-1]
            elif mode == "wrongkey":
                sigs[rng.randrange(len(sigs))] = sig_blob(keys, (kidx[signers[0]] + 1) % nk_all, sha256(digest), ht)
            elif mode == "empty_some":
                sigs[rng.randrange(len(sigs))] = b""
                if rng.random() < 0.5:
                    sigs = [b""] * len(sigs)
            elif mode == "tiny_sig" and m > 1:
                # a one-byte "signature" equal to a small number: FindAndDelete must remove <01 xx>, not OP_n
                sigs[0] = bytes([rng.choice([m, nkeys, 1, 2, 16, 0x81]) & 0xff])
                if not script.endswith(b"\x91") and not verify:
                    script += b"\x91"
                    # signatures were made over the script without NOT: redo them
                    script_code = script[script.rfind(b"\xab", 0, 4) + 1:] if script[:1] == b"\xab" else script
                    digest = SH.bip143(tx, n_in, script_code, amount, ht) if witness_kind else SH.legacy(tx, n_in, script_code, ht)
                    sigs = [sigs[0]] + [sig_blob(keys, kidx[j], digest, ht) for j in signers[1:]]
            elif mode == "bad_der":
                j = rng.randrange(len(sigs))
                sigs[j] = sig_blob(keys, kidx[signers[min(j, len(signers) - 1)]], digest, ht, rng.choice(DER_FORMS[1:]))
            dummy = rng.choice([b"", b"", b"", b"\x00", b"\x01", b"\x51"])
            unlock = [dummy] + sigs
            if wrapper == "bare":
                spk, ssig, wit = script, b"".join(push(u) for u in unlock), []
            elif wrapper == "p2sh":
                spk, ssig, wit = b"\xa9\x14" + hash160(script) + b"\x87", b"".join(push(u) for u in unlock) + SH.push_data(script), []
            elif wrapper == "p2wsh":
                spk, ssig, wit = b"\x00\x20" + sha256(script), b"", unlock + [script]
            else:
                redeem = b"\x00\x20" + sha256(script)
                spk, ssig, wit = b"\xa9\x14" + hash160(redeem) + b"\x87", SH.push_data(redeem), unlock + [script]
            tx["ins"][n_in]["script"] = ssig
            tx["ins"][n_in]["witness"] = wit
            yield spend(tx, spk, amount, flags, "sig.multisig.%s.%s" % (mode, wrapper), n_in)


def boundary_s_cases(rng, keys):
    """S on and around n/2 and p/2 under LOW_S, in templates where a failing signature still lets the script succeed"""
    for ki in range(2):
        pub = keys.sec(ki, True)
        for tail in (b"\xac\x91", b"\xac", b"\xac\x91\x91\x91"):
            script = push(pub) + tail
            for sv in (C.n // 2 - 1, C.n // 2, C.n // 2 + 1, C.n // 2 + 2, (C.n + C.p) // 4, C.p // 2, C.p // 2 + 1, C.n - 1, 1,
                       C.n, C.n + 1, C.p, (1 << 256) - 1, 0):
                for flags in (RS.LOW_S, RS.LOW_S | RS.P2SH | RS.WITNESS, RS.DERSIG, 0, RS.LOW_S | RS.STRICTENC, ALL_FLAGS & ~RS.NULLFAIL):
                    for wrapper in ("bare", "p2wsh"):
                        tx = mk_tx(rng, b"", [], 1000, 1, 0, 0xffffffff, 0, 1, 0)
                        r, _ = keys.sign(ki, sha256(b"boundary"))
                        sig = der_sig(r, sv) + b"\x01"
                        if wrapper == "bare":
                            tx["ins"][0]["script"] = push(sig)
                            yield spend(tx, script, 1000, flags, "sig.boundary_s.bare")
                        else:
                            tx["ins"][0]["witness"] = [sig, script]
                            yield spend(tx, b"\x00\x20" + sha256(script), 1000, fix_flags(flags | RS.WITNESS), "sig.boundary_s.p2wsh")


def nullfail_matrix(rng, keys, wrappers=("bare", "p2wsh")):
    """m-of-n CHECKMULTISIG with every pattern of valid / empty / wrong signatures, with and without a trailing NOT,
    under NULLFAIL and without it: a failed operation requires ALL signatures to be empty, matched ones included"""
    import itertools
    for nkeys, m in ((2, 2), (3, 2), (3, 3), (2, 1), (4, 3)):
        kidx = list(range(nkeys))
        pubs = [keys.sec(k, True) for k in kidx]
        for tail in (b"\xae", b"\xae\x91", b"\xaf\x51"):
            script = num(m) + b"".join(push(p) for p in pubs) + num(nkeys) + tail
            for wrapper in wrappers:
                for pattern in itertools.product("VEW", repeat=m):
                    for flags in (RS.NULLFAIL, RS.NULLFAIL | RS.P2SH | RS.WITNESS | RS.NULLDUMMY, 0, ALL_FLAGS & ~RS.CLEANSTACK):
                        if wrapper == "p2wsh":
                            flags = fix_flags(flags | RS.WITNESS)
                        tx = mk_tx(rng, b"", [], 7000, 1, 0, 0xffffffff, 0, 1, 0)
                        digest = SH.bip143(tx, 0, script, 7000, 1) if wrapper == "p2wsh" else SH.legacy(tx, 0, script, 1)
                        # signature j is meant for the j-th of the LAST m keys (so that valid ones are in matching order)
                        signers = kidx[nkeys - m:]
                        sigs = []
                        for j, c in enumerate(pattern):
                            if c == "V":
                                sigs.append(sig_blob(keys, signers[j], digest, 1))
                            elif c == "E":
                                sigs.append(b"")
                            else:
                                sigs.append(sig_blob(keys, signers[j], sha256(digest), 1))
                        unlock = [b""] + sigs
                        if wrapper == "bare":
                            tx["ins"][0]["script"] = b"".join(push(u) for u in unlock)
                            yield spend(tx, script, 7000, flags, "sig.nullfail.bare")
                        else:
                            tx["ins"][0]["witness"] = unlock + [script]
                            yield spend(tx, b"\x00\x20" + sha256(script), 7000, flags, "sig.nullfail.p2wsh")


def tiny_sig_matrix(rng, keys):
    """a one-byte "signature" whose value equals a small-number opcode, below genuine signatures, in legacy m-of-n scripts that
    tolerate failure (trailing NOT): FindAndDelete must remove the plain push <01 xx>, never OP_1..OP_16 / OP_1NEGATE, or the
    script code the genuine signatures commit to changes"""
    for nkeys, m in ((2, 2), (3, 2), (3, 3), (16, 2)):
        kidx = [k % len(keys.d) for k in range(nkeys)]
        pubs = [keys.sec(k, True) for k in kidx]
        script = num(m) + b"".join(push(p) for p in pubs) + num(nkeys) + b"\xae\x91"
        for tiny in sorted({m, nkeys & 0xff if nkeys <= 16 else 16, 1, 16, 0x81}):
            for flags in (RS.DERSIG, RS.STRICTENC, RS.LOW_S, RS.DERSIG | RS.P2SH, 0, RS.NULLFAIL, RS.P2SH | RS.WITNESS | RS.DERSIG | RS.NULLDUMMY):
                for wrapper in ("bare", "p2sh"):
                    if wrapper == "p2sh" and len(script) > 520:
                        continue
                    tx = mk_tx(rng, b"", [], 9000, 1, 0, 0xffffffff, 0, 1, 0)
                    digest = SH.legacy(tx, 0, script, 1)
                    signers = kidx[nkeys - m + 1:]
                    sigs = [bytes([tiny])] + [sig_blob(keys, k, digest, 1) for k in signers]
                    unlock = [b""] + sigs
                    ssig = b"".join(SH.push_data(u) for u in unlock)
                    if wrapper == "bare":
                        tx["ins"][0]["script"] = ssig
                        yield spend(tx, script, 9000, flags, "sig.tiny_sig.bare")
                    else:
                        tx["ins"][0]["script"] = ssig + SH.push_data(script)
                        yield spend(tx, b"\xa9\x14" + hash160(script) + b"\x87", 9000, fix_flags(flags | RS.P2SH), "sig.tiny_sig.p2sh")


def two_sigops_cases(rng, keys, n):
    """legacy scripts running two signature operations, where one of the checked signatures is itself pushed inside the
    script: each operation's digest is over the script code minus ITS OWN signatures (FindAndDelete), so the two digests
    differ even for equal hash types"""
    for _ in range(n):
        a, b = rng.sample(range(len(keys.d)), 2)
        pka, pkb = keys.sec(a, rng.random() < 0.8), keys.sec(b, rng.random() < 0.8)
        hta = rng.choice([1, 1, 2, 3, 0x81])
        htb = hta if rng.random() < 0.7 else rng.choice([1, 2, 3, 0x83])
        sep = rng.choice([b"", b"", b"", b"\xab"])
        order = rng.random() < 0.5
        tx = mk_tx(rng, b"", [], 4000, rng.choice([1, 2]), 0, 0xffffffff, rng.choice([0, 1]), rng.choice([1, 2]), 0)
        # the embedded signature (A) commits to the script with its own push removed
        if order:       # <pkB> CHECKSIGVERIFY [sep] <sigA> <pkA> CHECKSIG      spent with <sigB>
            head, tail_wo = push(pkb) + b"\xad" + sep, push(pka) + b"\xac"
            code_a_wo = (tail_wo if sep else head + tail_wo)
            siga = sig_blob(keys, a, SH.legacy(tx, 0, code_a_wo, hta), hta)
            script = head + SH.push_data(siga) + tail_wo
            sigb = sig_blob(keys, b, SH.legacy(tx, 0, script, htb), htb)
        else:           # <sigA> <pkA> CHECKSIGVERIFY [sep] <pkB> CHECKSIG      spent with <sigB>
            tail = sep + push(pkb) + b"\xac"
            code_a_wo = push(pka) + b"\xad" + tail
            siga = sig_blob(keys, a, SH.legacy(tx, 0, code_a_wo, hta), hta)
            script = SH.push_data(siga) + push(pka) + b"\xad" + tail
            code_b = (push(pkb) + b"\xac") if sep else script
            sigb = sig_blob(keys, b, SH.legacy(tx, 0, code_b, htb), htb)
        mode = rng.random()
        if mode < 0.15:
            sigb = sig_blob(keys, b, sha256(b"wrong"), htb)
        flags = rng.choice([0, RS.P2SH, RS.P2SH | RS.STRICTENC | RS.DERSIG, ALL_FLAGS & ~RS.CLEANSTACK & ~RS.SIGPUSHONLY, RS.NULLFAIL | RS.P2SH])
        if rng.random() < 0.5:
            tx["ins"][0]["script"] = push(sigb)
            yield spend(tx, script, 4000, flags, "sig.two_sigops.bare")
        else:
            tx["ins"][0]["script"] = push(sigb) + SH.push_data(script)
            yield spend(tx, b"\xa9\x14" + hash160(script) + b"\x87", 4000, fix_flags(flags | RS.P2SH), "sig.two_sigops.p2sh")


def multi_input_cases(rng, keys, n):
    """transactions with several signed inputs (P2WPKH / P2PKH), per-input hash types incl. SINGLE over distinct outputs, some
    signatures deliberately computed for ANOTHER input's position; to be validated input by input, also through one shared
    checker object in both orders"""
    for _ in range(n):
        k = rng.choice([2, 2, 3, 4])
        n_out = rng.choice([k, k, k - 1, k + 1])
        tx = {"version": rng.choice([1, 2]), "lock_time": 0,
              "ins": [{"prev": rand_prev(rng), "index": rng.randrange(3), "script": b"", "sequence": rng.choice([0xffffffff, 0xfffffffe, 7]), "witness": []} for _ in range(k)],
              "outs": [{"value": 1000 + 37 * j + rng.randrange(5), "script": bytes([0x51 + j])} for j in range(n_out)]}
        spks, amounts = [], []
        plan = []
        for i in range(k):
            ki = rng.randrange(len(keys.d))
            pub = keys.sec(ki, True)
            kind = rng.choice(["p2wpkh", "p2wpkh", "p2pkh"])
            amount = 5000 + 11 * i
            spk = (b"\x00\x14" + hash160(pub)) if kind == "p2wpkh" else (b"\x76\xa9\x14" + hash160(pub) + b"\x88\xac")
            spks.append(spk)
            amounts.append(amount)
            plan.append((ki, pub, kind, rng.choice([1, 3, 3, 0x83, 2, 0x81])))
        for i, (ki, pub, kind, ht) in enumerate(plan):
            sign_as = i if rng.random() < 0.75 else rng.randrange(k)
            code = b"\x76\xa9\x14" + hash160(pub) + b"\x88\xac"
            if kind == "p2wpkh":
                digest = SH.bip143(tx, sign_as, code, amounts[i] if sign_as == i else amounts[sign_as], ht)
                tx["ins"][i]["witness"] = [sig_blob(keys, ki, digest, ht), pub]
            else:
                digest = SH.legacy(tx, sign_as, code, ht)
                tx["ins"][i]["script"] = push(sig_blob(keys, ki, digest, ht)) + push(pub)
        flags = rng.choice([RS.P2SH | RS.WITNESS, ALL_FLAGS, RS.P2SH | RS.WITNESS | RS.NULLFAIL])
        yield {"k": "multi", "tx": tx, "spks": spks, "amounts": amounts, "flags": flags, "src": "multi.shared_checker"}


def embedded_sig_length_cases(rng, keys):
    """a signature blob of an exact length around each push-opcode boundary (75/76, 255/256), pushed canonically inside
    the legacy script it is checked in: FindAndDelete must look for exactly the canonical push of that length.
    The blob is a strict DER signature followed by filler bytes (ignored by the lax parser) and the hash-type byte."""
    for L in (72, 73, 74, 75, 76, 77, 78, 80, 254, 255, 256, 257, 300):
        for ht in (1, 0x81, 3):
            for wrapper in ("bare", "p2sh"):
                ki = rng.randrange(len(keys.d))
                pub = keys.sec(ki, True)
                tail = b"\x75" + push(pub) + b"\xac"
                tx = mk_tx(rng, b"", [], 3000, 1, 0, 0xffffffff, rng.choice([0, 1]), 2, 0)
                r, s_ = keys.sign(ki, SH.legacy(tx, 0, tail, ht))
                der = der_sig(r, s_)
                if len(der) + 1 > L:
                    continue
                blob = der + b"\x00" * (L - len(der) - 1) + bytes([ht])
                script = SH.push_data(blob) + tail
                for flags in (0, RS.P2SH, RS.P2SH | RS.NULLFAIL):
                    t2 = {"version": tx["version"], "lock_time": tx["lock_time"], "ins": [dict(i) for i in tx["ins"]], "outs": tx["outs"]}
                    if wrapper == "bare":
                        t2["ins"][0]["script"] = SH.push_data(blob)
                        yield spend(t2, script, 3000, flags, "sig.embedded_len.bare")
                    elif len(script) <= 520:
                        t2["ins"][0]["script"] = SH.push_data(blob) + SH.push_data(script)
                        yield spend(t2, b"\xa9\x14" + hash160(script) + b"\x87", 3000, fix_flags(flags | RS.P2SH), "sig.embedded_len.p2sh")


def locktime_cases(rng, n):
    """CLTV / CSV: operand x tx lock_time / sequence / version on both sides of every comparison"""
    T = 500000000
    lt_vals = [0, 1, T - 1, T, T + 1, 0xffffffff, 100, 1000000]
    seq_vals = [0, 1, 0xffff, 0x10000, 1 << 22, (1 << 22) | 5, 1 << 31, (1 << 31) | 5, 0xffffffff, 0xfffffffe, 5, 6]
    for _ in range(n):
        op = rng.choice([0xb1, 0xb2])
        if op == 0xb1:
            operand = rng.choice(lt_vals + [-1, 1 << 32, (1 << 39) - 1, 1 << 39])
            tx_lt = rng.choice(lt_vals)
            seq = rng.choice([0xffffffff, 0, 0xfffffffe])
            ver = rng.choice([1, 2])
        else:
            operand = rng.choice(seq_vals + [-1, 1 << 32, (1 << 32) | 5, (1 << 39) - 1, 1 << 39, 4])
            tx_lt = 0
            seq = rng.choice(seq_vals)
            ver = rng.choice([0, 1, 2, 3, 0xffffffff, 0x80000002])
        enc = RS.num_encode(operand)
        if rng.random() < 0.1:
            enc = enc + b"\x00" if enc and not enc[-1] & 0x80 else enc     # non-minimal
        spk = push(enc) + bytes([op]) + rng.choice([b"", b"\x75\x51", b"\x87"[:0]])
        flags = rng.choice([RS.CHECKLOCKTIMEVERIFY | RS.CHECKSEQUENCEVERIFY, RS.CHECKLOCKTIMEVERIFY, RS.CHECKSEQUENCEVERIFY, 0,
                            RS.DISCOURAGE_UPGRADABLE_NOPS, ALL_FLAGS & ~RS.CLEANSTACK, RS.CHECKLOCKTIMEVERIFY | RS.CHECKSEQUENCEVERIFY | RS.MINIMALDATA])
        if rng.random() < 0.15:
            flags = rand_flags(rng) & ~RS.CLEANSTACK
        tx = CT.credit_spend(b"", spk, [], 0, version=ver, lock_time=tx_lt, sequence=seq)
        yield spend(tx, spk, 0, flags, "locktime.%s" % ("cltv" if op == 0xb1 else "csv"))


def locktime_eval_cases(rng, n):
    """single-script evaluation of CLTV / CSV with a satisfiable context: the operand must stay on the stack unchanged"""
    encs = [b"\x01", b"\x01\x00", b"\x01\x00\x00\x00", b"\x01\x00\x00\x00\x00", b"", b"\x00", b"\x80", b"\x00\x80", b"\x05\x00", b"\x10\x27",
            b"\x10\x27\x00", b"\xff\xff\x00", b"\xff\xff\x00\x00\x00", b"\x00\x65\xcd\x1d", b"\x00\x65\xcd\x1d\x00", b"\x05\x00\x40", b"\x05\x00\x40\x00",
            b"\x00\x00\x00\x80\x00", b"\x05\x00\x00\x80\x00"]
    for _ in range(n):
        op = rng.choice([0xb1, 0xb2])
        enc = rng.choice(encs)
        flags = rng.choice([RS.CHECKLOCKTIMEVERIFY | RS.CHECKSEQUENCEVERIFY, RS.CHECKLOCKTIMEVERIFY | RS.CHECKSEQUENCEVERIFY | RS.MINIMALDATA, 0])
        tx = CT.credit_spend(b"", b"\x51", [], 0, version=rng.choice([2, 2, 1]), lock_time=rng.choice([10000, 500000001, 0xffffffff, 1]),
                             sequence=rng.choice([0xfffffffe, 10000, (1 << 22) | 7, 0]))
        script = (b"" if rng.random() < 0.5 else push(enc)) + bytes([op]) + rng.choice([b"", b"\x82", b"\x76", b"\x61"])
        stack = [enc] if script[0] == op else []
        yield eval_case(rng, script, stack, flags, rng.choice([0, 1]), "locktime.eval", tx=tx)


def cond_tree_cases(rng, n):
    """random conditional structures: nesting, multiple ELSEs, dead branches holding anything, MINIMALIF operand forms"""
    conds = [b"", b"\x01", b"\x00", b"\x80", b"\x02", b"\x01\x00", b"\x00\x00", b"\x00\x80", b"\x81", b"\x01\x01"]
    fillers = [b"\x61", b"\x51", b"\x00", b"\x75", b"\x76", b"\x50", b"\x62", b"\x65", b"\x66", b"\x6a", b"\x7e", b"\x8d", b"\xba", b"\xff",
               b"\x02\x01", b"\x4c", b"\x4d\x01", b"\x09" + b"\x01" * 9, b"\x4d\x09\x02" + b"\x01" * 521, b"\xb1", b"\xb2", b"\xab", b"\x6b", b"\x6c"]

    def block(depth):
        parts = []
        for _ in range(rng.randrange(0, 4)):
            r = rng.random()
            if r < 0.35 and depth < 6:
                parts.append(push(rng.choice(conds)) if rng.random() < 0.85 else b"")
                parts.append(rng.choice([b"\x63", b"\x64"]))
                parts.append(block(depth + 1))
                for _ in range(rng.choice([0, 1, 1, 2, 3])):
                    parts.append(b"\x67")
                    parts.append(block(depth + 1))
                if rng.random() < 0.93:
                    parts.append(b"\x68")
            elif r < 0.5:
                parts.append(rng.choice([b"\x67", b"\x68"]) if rng.random() < 0.2 else b"\x61")
            else:
                f = rng.choice(fillers)
                parts.append(f if rng.random() < 0.6 else rng.choice([b"\x61", b"\x51", b"\x00"]))
        return b"".join(parts)
    for _ in range(n):
        script = block(0) + rng.choice([b"", b"\x51", b"\x74"])
        flags = rng.choice([0, RS.MINIMALIF, RS.MINIMALIF | RS.MINIMALDATA, ALL_FLAGS, RS.MINIMALDATA])
        sv = rng.choice([0, 1, 1])
        stack = [rng.choice(conds) for _ in range(rng.randrange(0, 3))]
        if rng.random() < 0.7:
            yield eval_case(rng, script, stack, flags, sv, "cond.eval")
        else:
            # the same through a real P2WSH / bare spend
            if rng.random() < 0.5:
                yield simple_spend(rng, b"", b"\x00\x20" + sha256(script), stack + [script], fix_flags(flags | RS.WITNESS), "cond.p2wsh")
            else:
                yield simple_spend(rng, b"".join(push(x) for x in stack), script, [], fix_flags(flags & ~RS.CLEANSTACK), "cond.bare")


def arith_chain_cases(rng, n):
    """chains of numeric opcodes over boundary integers: 5-byte results may be produced but not consumed"""
    vals = [0, 1, -1, 2, 127, 128, 255, 256, 32767, 32768, (1 << 31) - 1, -((1 << 31) - 1), (1 << 31) - 2, 1 << 30, -(1 << 30), 16, 17]
    unary = [0x8b, 0x8c, 0x8f, 0x90, 0x91, 0x92]
    binary = [0x93, 0x94, 0x9a, 0x9b, 0x9c, 0x9e, 0x9f, 0xa0, 0xa1, 0xa2, 0xa3, 0xa4]
    for _ in range(n):
        parts = [num(rng.choice(vals)), num(rng.choice(vals))]
        depth = 2
        for _ in range(rng.randrange(1, 7)):
            r = rng.random()
            if r < 0.3:
                parts.append(num(rng.choice(vals)))
                depth += 1
            elif r < 0.55 and depth >= 1:
                parts.append(bytes([rng.choice(unary)]))
            elif r < 0.9 and depth >= 2:
                parts.append(bytes([rng.choice(binary)]))
                depth -= 1
            elif depth >= 3:
                parts.append(b"\xa5")
                depth -= 2
            else:
                parts.append(bytes([rng.choice([0x76, 0x7c, 0x78, 0x82, 0x73])]))
        yield eval_case(rng, b"".join(parts), [], rng.choice([0, RS.MINIMALDATA, ALL_FLAGS]), rng.choice([0, 1]), "arith.chain")


def random_scripts(rng, n):
    for _ in range(n):
        ln = rng.choice([1, 2, 3, 5, 8, 13, 30])
        mode = rng.random()
        if mode < 0.4:
            s = bytes(rng.randrange(256) for _ in range(ln))
        else:
            # opcode soup biased to valid opcodes with small pushes
            parts = []
            for _ in range(ln):
                r = rng.random()
                if r < 0.35:
                    parts.append(push(OPERANDS[rng.choice(SMALL_OPERANDS[:14])]))
                elif r < 0.45:
                    parts.append(num(rng.choice([-1, 0, 1, 2, 3, 16, 17, 127, 128, 255, 256])))
                else:
                    parts.append(bytes([rng.choice(list(range(0x4f, 0xbb)))]))
            s = b"".join(parts)
        flags = rng.choice(EVAL_FLAGSETS)
        if rng.random() < 0.5:
            yield eval_case(rng, s, [OPERANDS[rng.choice(SMALL_OPERANDS)] for _ in range(rng.randrange(0, 4))], flags, rng.choice([0, 1]), "random.eval")
        else:
            sig = b"".join(push(OPERANDS[rng.choice(SMALL_OPERANDS)]) for _ in range(rng.randrange(0, 3)))
            flags = fix_flags(flags & ~RS.CLEANSTACK) if rng.random() < 0.7 else rand_flags(rng)
            if rng.random() < 0.3:
                # the same random bytes as a redeem script / witness script
                kind = rng.choice(["p2sh", "p2wsh", "p2sh-p2wsh"])
                w = wrap(rng, sig, s, [], kind)
                if w is not None:
                    yield simple_spend(rng, w[0], w[1], w[2], fix_flags(flags | RS.P2SH | (RS.WITNESS if kind != "p2sh" else 0)), "random.wrapped." + kind)
                    continue
            yield simple_spend(rng, sig, s, [], flags, "random.spend")


# ---------------------------------------------------------------------------------------------------
# 9. every flag's rule x every evaluation stage, with operator-bearing scripts in each stage
#
# A fragment is (inputs, body): the script `push(inputs) + body` is self-contained and leaves exactly one element, <01>, when no
# flag beyond the dispatch ones is set. It is placed in each stage either "own" (its inputs are pushed by the stage's own script)
# or "fed" (its inputs are left by the previous stage: scriptSig pushes / the witness stack). Signatures among the inputs are made
# here for the script code and digest algorithm of the stage the fragment runs in (legacy + FindAndDelete of the signature's own
# push in scriptSig / scriptPubKey / redeem script, BIP143 in a witness script).

FS_STAGES = ("scriptSig", "scriptPubKey", "redeem", "witness")
FS_RULES = ("MINIMALIF", "WITNESS_PUBKEYTYPE", "STRICTENC", "DERSIG", "LOW_S", "NULLDUMMY", "NULLFAIL", "MINIMALDATA",
            "DISCOURAGE_UPGRADABLE_NOPS", "CHECKLOCKTIMEVERIFY", "CHECKSEQUENCEVERIFY", "CLEANSTACK")
FS_PLACEMENTS = ("scriptSig.own", "scriptSig.own+p2sh", "scriptSig.own+wit", "scriptPubKey.own", "scriptPubKey.fed", "redeem.own",
                 "redeem.fed", "witness.fed", "witness.own", "witness.p2sh.fed")
FS_TX = {"version": 2, "lock_time": 100, "sequence": 10, "amount": 5000}
P2WSH_TRUE_SPK = b"\x00\x20" + sha256(b"\x51")


def _fs_sig(ht=1, form="strict", high=False, wrong=False, ki=1):
    return ("sig", ki, ht, form, high, wrong)


def fs_fragments(keys):
    """[{name, rule, inputs, body, ok0, ok0w}]: ok0 / ok0w = the consensus verdict the generator promises under the bare dispatch
    flags in a legacy stage / in a witness script (checked against the reference by the monitor: a broken promise is a harness
    contradiction, not a violation)"""
    K, U, H = keys.sec(1, True), keys.sec(1, False), keys.hybrid(1)
    K2 = keys.sec(2, True)
    short = K[:32]
    IF_, NOTIF, ELSE, ENDIF, NOT, DROP, CS, CMS = b"\x63", b"\x64", b"\x67", b"\x68", b"\x91", b"\x75", b"\xac", b"\xae"
    out = []

    def add(name, rule, inputs, body, ok0=True, ok0w=None):
        out.append({"name": name, "rule": rule, "inputs": list(inputs), "body": body, "ok0": ok0, "ok0w": ok0 if ok0w is None else ok0w})
    ifbody, notifbody = IF_ + b"\x51" + ELSE + b"\x00" + ENDIF, NOTIF + b"\x51" + ELSE + b"\x00" + ENDIF
    for nm, arg in (("02", b"\x02"), ("0100", b"\x01\x00"), ("01", b"\x01"), ("10", b"\x10"), ("81", b"\x81"), ("0001", b"\x00\x01")):
        add("if_" + nm, "MINIMALIF", [arg], ifbody)
    for nm, arg in (("00", b"\x00"), ("80", b"\x80"), ("empty", b""), ("0000", b"\x00\x00")):
        add("notif_" + nm, "MINIMALIF", [arg], notifbody)
    add("if_nested_02", "MINIMALIF", [b"\x01", b"\x02"], IF_ + IF_ + b"\x51" + ELSE + b"\x00" + ENDIF + ELSE + b"\x00" + ENDIF)
    add("if_dead_02", "MINIMALIF", [b"\x02", b""], IF_ + IF_ + b"\x00" + ENDIF + DROP + b"\x00" + ELSE + DROP + b"\x51" + ENDIF)
    # key forms
    add("cs_uncomp", "WITNESS_PUBKEYTYPE", [_fs_sig()], push(U) + CS)
    add("cs_comp", "WITNESS_PUBKEYTYPE", [_fs_sig()], push(K) + CS)
    add("cs_hybrid", "STRICTENC", [_fs_sig()], push(H) + CS)
    add("cs_uncomp_empty_not", "WITNESS_PUBKEYTYPE", [b""], push(U) + CS + NOT)
    add("cs_short_key_not", "WITNESS_PUBKEYTYPE", [b""], push(short) + CS + NOT)
    add("cs_hybrid_empty_not", "STRICTENC", [b""], push(H) + CS + NOT)
    add("cms_uncomp_empty_not", "WITNESS_PUBKEYTYPE", [b"", b""], b"\x51" + push(U) + b"\x51" + CMS + NOT)
    add("cms_uncomp", "WITNESS_PUBKEYTYPE", [b"", _fs_sig()], b"\x51" + push(U) + b"\x51" + CMS)
    add("cms_uncomp_unexamined", "WITNESS_PUBKEYTYPE", [b"", _fs_sig(ki=2)], b"\x51" + push(U) + push(K2) + b"\x52" + CMS)
    add("cms_uncomp_examined", "WITNESS_PUBKEYTYPE", [b"", _fs_sig(ki=2)], b"\x51" + push(K2) + push(U) + b"\x52" + CMS)
    add("csv_uncomp", "WITNESS_PUBKEYTYPE", [_fs_sig()], push(U) + b"\xad\x51")
    # signature forms
    add("cs_padded_r", "DERSIG", [_fs_sig(form="padded_r")], push(K) + CS)
    add("cs_longlen", "DERSIG", [_fs_sig(form="longlen")], push(K) + CS)
    add("cs_high_s", "LOW_S", [_fs_sig(high=True)], push(K) + CS)
    add("cs_ht4", "STRICTENC", [_fs_sig(ht=4)], push(K) + CS)
    add("cs_ht0", "STRICTENC", [_fs_sig(ht=0)], push(K) + CS)
    add("cs_ht83", "STRICTENC", [_fs_sig(ht=0x83)], push(K) + CS)
    add("cms_dummy_01", "NULLDUMMY", [b"\x01", _fs_sig()], b"\x51" + push(K) + b"\x51" + CMS)
    add("cms_dummy_00", "NULLDUMMY", [b"\x00", _fs_sig()], b"\x51" + push(K) + b"\x51" + CMS)
    add("cms_dummy_empty", "NULLDUMMY", [b"", _fs_sig()], b"\x51" + push(K) + b"\x51" + CMS)
    add("cs_wrong_not", "NULLFAIL", [_fs_sig(wrong=True)], push(K) + CS + NOT)
    add("cms_wrong_not", "NULLFAIL", [b"", _fs_sig(wrong=True)], b"\x51" + push(K) + b"\x51" + CMS + NOT)
    add("cs_empty_not", "NULLFAIL", [b""], push(K) + CS + NOT)
    # minimal pushes and numbers
    add("md_pushdata1", "MINIMALDATA", [], b"\x4c\x01\x05" + DROP + b"\x51")
    add("md_direct_05", "MINIMALDATA", [], b"\x01\x05" + DROP + b"\x51")
    add("md_pushdata2", "MINIMALDATA", [], b"\x4d\x02\x00\x07\x07" + DROP + b"\x51")
    add("md_dead_push", "MINIMALDATA", [], b"\x00" + IF_ + b"\x4c\x01\x05" + ENDIF + b"\x51")
    add("md_num", "MINIMALDATA", [b"\x01\x00"], b"\x8b\x52\x87")
    add("md_num_negzero", "MINIMALDATA", [b"\x80"], b"\x8b\x51\x87")
    add("md_pick", "MINIMALDATA", [b"\x07", b"\x00"], b"\x79\x87")
    add("md_cms_counts", "MINIMALDATA", [b"", b"\x00", b"\x00"], CMS)
    add("md_ok", "MINIMALDATA", [b"\x01"], b"\x8b\x52\x87")
    # upgradable NOPs and the lock-time opcodes (tx: version 2, lock_time 100, sequence 10)
    add("nop1", "DISCOURAGE_UPGRADABLE_NOPS", [], b"\x51\xb0")
    add("nop10", "DISCOURAGE_UPGRADABLE_NOPS", [], b"\xb9\x51")
    add("nop4_dead", "DISCOURAGE_UPGRADABLE_NOPS", [], b"\x00" + IF_ + b"\xb3" + ENDIF + b"\x51")
    for nm, op, rule in (("cltv", b"\xb1", "CHECKLOCKTIMEVERIFY"), ("csv", b"\xb2", "CHECKSEQUENCEVERIFY")):
        big, small = (200, 50) if nm == "cltv" else (20, 5)
        add(nm + "_unsat", rule, [RS.num_encode(big)], op + DROP + b"\x51")
        add(nm + "_sat", rule, [RS.num_encode(small)], op + DROP + b"\x51")
        add(nm + "_neg", rule, [b"\x81"], op + DROP + b"\x51")
        add(nm + "_5byte", rule, [RS.num_encode((1 << 31) | 5)], op + DROP + b"\x51")
        add(nm + "_nonminimal", rule, [RS.num_encode(small) + b"\x00"], op + DROP + b"\x51")
        add(nm + "_nostack", rule, [], op + b"\x51")
    # what is left at the end
    add("extra_item", "CLEANSTACK", [], b"\x51\x51\x61", True, False)
    add("extra_item_below_false", "CLEANSTACK", [b""], b"\x61\x51", True, False)
    add("push1", "CLEANSTACK", [b"\x01"], b"")
    return out


# fragments that fail part-way (error-path workload) and fragments whose verdict would change if anything were left behind
def fs_failing_fragments(keys):
    K = keys.sec(1, True)
    out = []

    def add(name, inputs, body):
        out.append({"name": name, "rule": None, "inputs": list(inputs), "body": body, "ok0": False, "ok0w": False})
    add("fail_in_nested_if_with_alt", [], b"\x51\x63\x51\x63\x57\x6b\x58\x6b" + b"\x61" * 40 + b"\x00\x69\x68\x68\x51")
    add("fail_open_if", [], b"\x51\x63\x51\x63\x51")
    add("fail_false_branch_open", [], b"\x00\x63\x51\x63\x6a")
    add("fail_return_with_stack", [b"\x07", b"\x08"], b"\x6b\x6b\x51\x51\x51\x6a")
    add("fail_truncated_push", [], b"\x51\x51\x6b\x05\x01\x02")
    add("fail_disabled_in_if", [], b"\x51\x63\x51\x51\x7e\x68")
    add("fail_opcount", [], b"\x51" + b"\x61" * 202)
    add("fail_stack_overflow", [], b"\x51" + b"\x76" * 120 + b"\x6f" * 80 + b"\x6e" * 400)
    add("fail_multisig_sigcount", [b"", b""], b"\x53" + push(K) + b"\x51\xae")
    add("fail_multisig_keycount", [b""], b"\x51" + push(K) + b"\x01\x15\xae")
    add("fail_checksigverify", [_fs_sig(wrong=True)], b"\x57\x6b" + push(K) + b"\xad\x51")
    add("fail_equalverify", [b"\x07"], b"\x51\x63\x58\x88\x68\x51")
    add("fail_numeric_overflow", [b"\x01\x00\x00\x00\x00"], b"\x51\x6b\x8b")
    add("fail_unbalanced_else", [], b"\x51\x67\x51")
    add("fail_verif_dead", [], b"\x00\x63\x65\x68\x51")
    return out


def fs_detector_fragments():
    """succeed only on a clean slate: empty alt stack, no open conditional, empty data stack, zero operation count"""
    out = []

    def add(name, body, ok0):
        out.append({"name": name, "rule": None, "inputs": [], "body": body, "ok0": ok0, "ok0w": ok0})
    add("det_fromalt_empty", b"\x6c", False)
    add("det_depth_zero", b"\x74\x00\x87", True)
    add("det_endif_alone", b"\x51\x68", False)
    add("det_else_alone", b"\x67\x51\x68", False)
    add("det_201_ops", b"\x51" + b"\x61" * 201, True)
    add("det_stack_999", b"\x51" + b"\x76" * 120 + b"\x6f" * 80 + b"\x6e" * 319 + b"\x76" + b"\x6d" * 499, True)
    add("det_alt_roundtrip", b"\x51\x6b\x6c", True)
    return out


def _fs_item_push(x):
    return push(x)


def fs_place(keys, frag, placement, tx, n_in, amount):
    """(scriptSig, scriptPubKey, witness) putting the fragment into the stage named by `placement` for input n_in of `tx`
    (whose scripts are not yet set), or None where the placement does not exist for this fragment"""
    stage, _, how = placement.partition(".")
    inputs, body = frag["inputs"], frag["body"]
    has_sig = any(isinstance(x, tuple) for x in inputs)
    own = how.startswith("own")
    if stage == "witness" and own and has_sig:
        return None             # a witness script cannot contain a signature over itself
    if not own and not inputs:
        return None             # nothing to feed: the same as "own"
    if stage == "witness" and any(not isinstance(x, tuple) and len(x) > 520 for x in inputs):
        return None
    suffix = b""
    redeem_of_sig = b"\x51\x87"
    if placement == "scriptSig.own+p2sh":
        suffix = SH.push_data(redeem_of_sig)
    plain = [x for x in inputs if not isinstance(x, tuple)]
    if own:
        code = b"".join(push(x) for x in plain) + body + suffix      # the stage's script minus the pushes of its signatures
    else:
        code = body
    resolved = []
    for x in inputs:
        if isinstance(x, tuple):
            _, ki, ht, form, high, wrong = x
            digest = SH.bip143(tx, n_in, code, amount, ht) if stage == "witness" else SH.legacy(tx, n_in, code, ht)
            if wrong:
                digest = sha256(digest)
            x = sig_blob(keys, ki, digest, ht, form, high)
        resolved.append(x)
    if own:
        full = b"".join(SH.push_data(x) if isinstance(i, tuple) else push(x) for i, x in zip(inputs, resolved)) + body
    else:
        full = body
    feed = b"".join(push(x) for x in resolved)
    if placement == "scriptSig.own":
        return full, b"\x51\x87", []
    if placement == "scriptSig.own+p2sh":
        return full + suffix, b"\xa9\x14" + hash160(redeem_of_sig) + b"\x87", []
    if placement == "scriptSig.own+wit":
        return full, P2WSH_TRUE_SPK, [b"\x51"]
    if placement == "scriptPubKey.own":
        return b"", full, []
    if placement == "scriptPubKey.fed":
        return feed, full, []
    if placement == "redeem.own":
        return SH.push_data(full), b"\xa9\x14" + hash160(full) + b"\x87", []
    if placement == "redeem.fed":
        return feed + SH.push_data(full), b"\xa9\x14" + hash160(full) + b"\x87", []
    prog = b"\x00\x20" + sha256(full)
    wit = ([] if own else list(resolved)) + [full]
    if placement in ("witness.fed", "witness.own"):
        return b"", prog, wit
    if placement == "witness.p2sh.fed":
        return SH.push_data(prog), b"\xa9\x14" + hash160(prog) + b"\x87", wit
    raise ValueError(placement)


def fs_base_flags(placement):
    stage = placement.split(".")[0]
    if stage == "witness" or placement == "scriptSig.own+wit":
        return RS.P2SH | RS.WITNESS
    if stage == "redeem" or placement == "scriptSig.own+p2sh":
        return RS.P2SH
    return 0


def fs_flag_sets(frag, placement):
    base = fs_base_flags(placement)
    rule = RS.FLAG_NAMES.get(frag["rule"] or "", 0)
    sets = [base, 0, ALL_FLAGS, ALL_FLAGS & ~RS.SIGPUSHONLY, ALL_FLAGS & ~RS.SIGPUSHONLY & ~RS.CLEANSTACK,
            ALL_FLAGS & ~RS.SIGPUSHONLY & ~RS.CLEANSTACK & ~rule, fix_flags(base | rule | RS.WITNESS)]
    sets += [fix_flags(base | (1 << i)) for i in range(16)]
    seen, out = set(), []
    for f in sets:
        if f not in seen and permitted(f):
            seen.add(f)
            out.append(f)
    return out


def fs_tx(rng, n_ins=1):
    tx = mk_tx(rng, b"", [], FS_TX["amount"], FS_TX["version"], FS_TX["lock_time"], FS_TX["sequence"], n_ins - 1, 1, 0)
    for i in tx["ins"]:
        i["sequence"] = FS_TX["sequence"]
    return tx


def flag_stage_matrix(rng, keys, placements=FS_PLACEMENTS, narrow=False):
    """every rule-exercising fragment x every placement x {dispatch flags alone, + each single flag, everything, everything
    but the fragment's own rule, nothing}. Cases carry "fs": [fragment, placement, rule, promised verdict under the dispatch
    flags]. With narrow=True only the scriptSig placements in front of a P2SH / witness output for fragments without signatures."""
    for frag in fs_fragments(keys):
        for placement in placements:
            if placement in ("scriptSig.own+p2sh", "scriptSig.own+wit") and frag["name"] not in (
                    "if_02", "notif_00", "cs_uncomp", "cs_wrong_not", "md_pushdata1", "nop1", "cltv_unsat", "push1", "extra_item"):
                continue
            tx = fs_tx(rng)
            amount = FS_TX["amount"]
            placed = fs_place(keys, frag, placement, tx, 0, amount)
            if placed is None:
                continue
            ssig, spk, wit = placed
            tx["ins"][0]["script"], tx["ins"][0]["witness"] = ssig, wit
            stage = placement.split(".")[0]
            promise = frag["ok0w"] if stage == "witness" else frag["ok0"]
            if placement == "scriptSig.own+p2sh" and not RS.is_push_only(ssig):
                promise = False
            if placement == "scriptSig.own+wit":
                promise = False
            base = fs_base_flags(placement)
            for flags in fs_flag_sets(frag, placement):
                case = spend(tx, spk, amount, flags, "flagstage." + stage)
                case["fs"] = [frag["name"], placement, frag["rule"], promise if flags == base else None]
                yield case


def error_path_multi_cases(rng, keys, n):
    """transactions of 3..7 inputs mixing spends that fail part-way in every stage (inside conditionals, with things on the alt
    stack, at the operation / stack limits, inside signature operations), spends that succeed only on a clean slate, rule
    fragments, and pairs of inputs locked by the SAME script and key; validated on one shared checker object in both orders"""
    frags, fails, dets = fs_fragments(keys), fs_failing_fragments(keys), fs_detector_fragments()
    legacy_pl = ("scriptSig.own", "scriptPubKey.own", "scriptPubKey.fed", "redeem.own", "redeem.fed")
    all_pl = legacy_pl + ("witness.fed", "witness.own", "witness.p2sh.fed")
    flagsets = [RS.P2SH | RS.WITNESS, ALL_FLAGS & ~RS.SIGPUSHONLY & ~RS.CLEANSTACK, ALL_FLAGS & ~RS.SIGPUSHONLY,
                RS.P2SH | RS.WITNESS | RS.MINIMALIF | RS.WITNESS_PUBKEYTYPE | RS.NULLFAIL, RS.P2SH | RS.WITNESS | RS.NULLFAIL | RS.MINIMALDATA]
    K = keys.sec(1, True)
    for it in range(n):
        k = rng.choice([3, 4, 5, 6, 7])
        tx = fs_tx(rng, k)
        tx["outs"] = [{"value": 700 + j, "script": bytes([0x51 + j])} for j in range(rng.choice([k, k + 1, 2]))]
        spks, amounts = [], []
        roles = []
        twin = rng.random() < 0.5
        for i in range(k):
            r = rng.random()
            if twin and i in (1, 2):
                roles.append("twin_bad" if i == 1 else "twin_good")
            elif i % 2 == 0 and r < 0.75:
                roles.append("fail")
            elif r < 0.45:
                roles.append("det")
            else:
                roles.append("frag")
        if twin and rng.random() < 0.5:
            roles[1], roles[2] = roles[2], roles[1]
        for i, role in enumerate(roles):
            amount = 4000 + 13 * i
            if role in ("twin_bad", "twin_good"):
                # P2PKH / P2PK on the same key and script for both twins, same hash type; the bad twin carries a wrong signature
                kind = "p2pk" if it % 2 else "p2pkh"
                spk = (push(K) + b"\xac") if kind == "p2pk" else (b"\x76\xa9\x14" + hash160(K) + b"\x88\xac")
                digest = SH.legacy(tx, i, spk, 1)
                sig = sig_blob(keys, 1, sha256(digest) if role == "twin_bad" else digest, 1)
                placed = (push(sig) + (push(K) if kind == "p2pkh" else b""), spk, [])
            else:
                while True:
                    pool = fails if role == "fail" else dets if role == "det" else frags
                    frag = rng.choice(pool)
                    placed = fs_place(keys, frag, rng.choice(all_pl), tx, i, amount)
                    if placed is not None:
                        break
            tx["ins"][i]["script"], tx["ins"][i]["witness"] = placed[0], placed[2]
            spks.append(placed[1])
            amounts.append(amount)
        case = {"k": "multi", "tx": tx, "spks": spks, "amounts": amounts, "flags": rng.choice(flagsets), "src": "multi.error_path"}
        if rng.random() < 0.4:
            # an input the library cannot even evaluate (its witness holds something that is not a byte string): never judged itself
            j = rng.randrange(k)
            tx["ins"][j]["script"], tx["ins"][j]["witness"] = b"", [b"\x51"]
            spks[j] = P2WSH_TRUE_SPK
            case["poison"] = [[j, rng.choice(["wit_none", "wit_str", "wit_int", "wit_scalar"])]]
        yield case
