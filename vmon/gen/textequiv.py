"""Different strings that a text pipeline would call "the same text".

A signed message is a sequence of code points (its UTF-8 bytes are what is hashed). Everything that canonicalises text
-- Unicode normalisation, case folding, trimming / collapsing white space, newline conversion, dropping a byte order mark or
invisible format characters, C-string truncation, lenient encoding (errors="ignore"/"replace"/"surrogateescape", UTF-16
surrogate pairs), unescaping -- maps several DIFFERENT messages to one. This module produces such messages in pairs
(a, b): a != b as strings, but canon(a) == canon(b) for a named canonicalisation; either side may be the signed one.

  CANON            name -> canonicalisation (str -> hashable)
  gen_pair(rng, i) -> {"family", "a", "form_a", "b", "form_b", "under"}; b may be a str that UTF-8 cannot encode (lone
                   surrogates) or a bytes object (family "encoding"): such a b can only be *queried*, never signed; in that
                   family "more" lists the remaining unsignable spellings of a
  respell(msg, rng)-> [(form, text)] other spellings of an arbitrary message (always str, always UTF-8 encodable, != msg)
  selftest()       -> every family yields pairs; every pair is equivalent under the canonicalisation it names

Nothing here imports pycoin.
"""
import html
import re
import unicodedata
import urllib.parse

U = unicodedata

# ---------------------------------------------------------------------------------------------------------------------
# canonicalisations

INVISIBLE = ["\ufeff", "\u200b", "\u200c", "\u200d", "\u2060", "\u00ad", "\u200e", "\u200f", "\u202a", "\u202c", "\u2061", "\u034f",
             "\ufe0f", "\ufe0e", "\u180e", "\U000e0001", "\U000e0020", "\u061c"]
_INV = set(INVISIBLE)
CONTROLS = ["\x00", "\x07", "\x08", "\x1b", "\x7f", "\x1f", "\x01", "\x9f"]
PUNCT = {"\u201c": '"', "\u201d": '"', "\u2018": "'", "\u2019": "'", "\u2014": "-", "\u2013": "-", "\u2026": "...", "\u00ab": '"', "\u00bb": '"',
         "\u00d7": "x", "\u2032": "'", "\u2212": "-", "\u2010": "-", "\u2044": "/", "\u201a": ","}
_PUNCT_TR = {ord(k): v for k, v in PUNCT.items()}
_SMART = {'"': "\u201d", "'": "\u2019", "-": "\u2013", "x": "\u00d7", "/": "\u2044", ",": "\u201a"}
# Latin letter -> look-alike of another script (UTS #39 "confusables", a handful)
CONFUSABLE = {"a": "\u0430", "e": "\u0435", "o": "\u043e", "p": "\u0440", "c": "\u0441", "x": "\u0445", "y": "\u0443", "i": "\u0456", "s": "\u0455",
              "A": "\u0391", "B": "\u0392", "E": "\u0395", "H": "\u041d", "K": "\u039a", "M": "\u041c", "O": "\u039f", "P": "\u0420", "T": "\u0422",
              "1": "l", "0": "O"}
_SKEL = {ord(v): k for k, v in CONFUSABLE.items()}
DIGIT_ZEROS = [0x0660, 0x06f0, 0x0966, 0xff10, 0x1d7ce, 0x0e50, 0x1d7d8]


def strip_accents(s):
    return U.normalize("NFC", "".join(c for c in U.normalize("NFD", s) if U.category(c) != "Mn"))


def drop_invisible(s):
    return "".join(c for c in s if c not in _INV and U.category(c) != "Cf")


def drop_control(s):
    return "".join(c for c in s if U.category(c) != "Cc" or c in "\t\n\r")


def c_string(s):
    return s.split("\x00", 1)[0]


def collapse_ws(s):
    return " ".join(s.split())


def strip_lines(s):
    return re.sub(r"[ \t]+(?=\r?\n|$)", "", s)


def universal_newlines(s):
    return tuple(s.splitlines())


def fold_digits(s):
    return "".join(str(U.digit(c)) if U.category(c) == "Nd" else c for c in s)


def ascii_punct(s):
    return s.translate(_PUNCT_TR)


def skeleton(s):
    return s.translate(_SKEL)


def utf8_ignore(s):
    return s.encode("utf8", "ignore")


def utf8_replace(s):
    return s.encode("utf8", "replace")


def ascii_replace(s):
    return s.encode("ascii", "replace")


def join_surrogates(s):
    return s.encode("utf-16-le", "surrogatepass").decode("utf-16-le", "replace")


def escaped_bytes(s):
    try:
        return s.encode("utf8", "surrogateescape")
    except UnicodeEncodeError:
        return ("unencodable", s)


def demojibake(s):
    for enc in ("cp1252", "latin-1"):
        try:
            return s.encode(enc).decode("utf8")
        except (UnicodeEncodeError, UnicodeDecodeError):
            pass
    return s


def backslash_unescape(s):
    def sub(mo):
        t = mo.group(0)
        if t[1] in "nrt\\":
            return {"n": "\n", "r": "\r", "t": "\t", "\\": "\\"}[t[1]]
        return chr(int(t[2:], 16))
    return re.sub(r"\\(?:[nrt\\]|x[0-9a-fA-F]{2}|u[0-9a-fA-F]{4}|U[0-9a-fA-F]{8})", sub, s)


def nfkc_casefold(s):
    return U.normalize("NFKC", U.normalize("NFKC", s).casefold())


def decoded(b):
    """what a str-or-bytes API would most plausibly make of a bytes message."""
    if isinstance(b, str):
        return b
    if b[:3] == b"\xef\xbb\xbf":
        return b[3:].decode("utf8", "replace")
    if b[:4] in (b"\xff\xfe\x00\x00", b"\x00\x00\xfe\xff"):
        return b.decode("utf-32", "replace")
    if b[:2] in (b"\xff\xfe", b"\xfe\xff"):
        return b.decode("utf-16", "replace")
    for enc in ("utf8", "utf-16-le", "utf-16-be"):
        try:
            t = b.decode(enc)
            if enc == "utf8" or (t and all(0x20 <= ord(c) < 0x3000 or c in "\n\r\t" for c in t)):
                return t
        except UnicodeDecodeError:
            pass
    return b.decode("latin-1")


CANON = {
    "nfc": lambda s: U.normalize("NFC", s), "nfd": lambda s: U.normalize("NFD", s),
    "nfkc": lambda s: U.normalize("NFKC", s), "nfkd": lambda s: U.normalize("NFKD", s),
    "lower": str.lower, "upper": str.upper, "casefold": str.casefold, "nfkc_casefold": nfkc_casefold,
    "strip": str.strip, "collapse_ws": collapse_ws, "strip_lines": strip_lines, "universal_newlines": universal_newlines,
    "crlf_to_lf": lambda s: s.replace("\r\n", "\n"), "drop_final_newline": lambda s: s.rstrip("\r\n"),
    "drop_bom": lambda s: s.lstrip("\ufeff"), "drop_invisible": drop_invisible, "drop_control": drop_control, "c_string": c_string,
    "strip_accents": strip_accents, "ascii_punct": ascii_punct, "fold_digits": fold_digits, "skeleton": skeleton,
    "utf8_ignore": utf8_ignore, "utf8_replace": utf8_replace, "ascii_replace": ascii_replace, "join_surrogates": join_surrogates,
    "surrogateescape": escaped_bytes, "demojibake": demojibake, "decode_bytes": decoded,
    "decode_bytes_nfc": lambda b: U.normalize("NFC", decoded(b)).rstrip("\x00"),
    "html_unescape": html.unescape, "url_unquote": urllib.parse.unquote, "url_unquote_plus": urllib.parse.unquote_plus,
    "backslash_unescape": backslash_unescape,
}

FAMILIES = {
    # family -> canonicalisations any one of which makes the two sides equal
    "canonical": ["nfc"],
    "compat": ["nfkc"],
    "case": ["casefold", "lower", "upper", "nfkc_casefold"],
    "whitespace": ["strip", "strip_lines", "collapse_ws"],
    "newline": ["crlf_to_lf", "drop_final_newline", "universal_newlines"],
    "invisible": ["drop_bom", "drop_invisible"],
    "control": ["c_string", "drop_control"],
    "accents": ["strip_accents"],
    "punct": ["ascii_punct"],
    "digits": ["fold_digits"],
    "confusable": ["skeleton"],
    "escape": ["html_unescape", "url_unquote", "url_unquote_plus", "backslash_unescape"],
    "encoding": ["utf8_ignore", "utf8_replace", "ascii_replace", "join_surrogates", "surrogateescape", "demojibake", "decode_bytes", "decode_bytes_nfc"],
}
SCHEDULE = ["canonical", "compat", "case", "whitespace", "canonical", "newline", "invisible", "encoding", "canonical", "control", "accents",
            "compat", "punct", "digits", "encoding", "case", "escape", "confusable", "invisible", "whitespace", "newline", "encoding"]


def equivalent_under(family, a, b):
    """name of a canonicalisation of the family under which a and b coincide, else None."""
    for name in FAMILIES[family]:
        f = CANON[name]
        try:
            if f(a) == f(b):
                return name
        except (UnicodeError, ValueError, TypeError, AttributeError):
            continue
    return None


def encodable(s):
    if not isinstance(s, str):
        return False
    try:
        s.encode("utf8")
        return True
    except UnicodeEncodeError:
        return False


# ---------------------------------------------------------------------------------------------------------------------
# material

PLAIN = ["hello", "world", "Pay", "to", "Alice", "42", "BTC", "I", "agree", "the", "quick", "brown", "fox", "0.5", "Bob", "owes", "me", "x", "1000",
         "ok", "fine", "office", "affix", "Hexes", "pay"]
CANON_TOKENS = ["Caf\u00e9", "\u00c5sa", "se\u00f1or", "na\u00efve", "Z\u00fcrich", "\ud55c\uae00", "\uac01", "Vi\u1ec7t", "\u1ec7", "\u01d6", "\u1e69",
                "\u03a9", "K", "\u00e9\u00e9\u00e9", "\u304c", "\u03cc", "\U0001d15e", "\U0002f800", "\u0958", "\ufb1d", "\u00c5ngstr\u00f6m",
                "r\u00e9sum\u00e9", "cr\u00e8me br\u00fbl\u00e9e", "\u0110\u00e0 N\u1eb5ng", "\u1e0d\u0307", "\u0344", "\u0f73", "\U000110ab", "\u212b", "\u2126"]
COMPAT_TOKENS = ["\ufb01nance", "o\ufb00ice", "\u2460\u2461", "\uff21\uff4c\uff49\uff43\uff45", "\uff11\uff10\uff10", "\uff76\uff9e", "x\u00b2", "\u00b5s", "\u338f",
                 "\u2163", "wait\u2026", "\u210c", "\U0001d400\U0001d401", "\u00aa", "\u00bd", "TM\u2122", "\u017f", "a\u00a0b", "a\u2003b", "\u3231", "\ufdfa", "\u00a8",
                 "\ufe56", "\u2474", "\U0001f14b", "\u1e9b\u0323"]
CASE_TOKENS = ["Stra\u00dfe", "STRASSE", "\u0130stanbul", "\u01c5", "\u038c\u03a3\u039f\u03a3", "\u1f40\u03b4\u03cc\u03c2", "\u03c3\u03c2", "\u212a", "\u017f", "\u1e9e", "\u0149",
               "\u01f0", "\u0390", "\ufb01", "\u2167", "\u24d0", "\U00010400", "Hello World", "BTC", "iPhone", "I OWE YOU", "title case", "\u0131", "\u1e96"]
PUNCT_TOKENS = ["\u201cquoted\u201d", "it\u2019s", "a\u2014b", "a\u2013b", "wait\u2026", "\u00abx\u00bb", "1 \u00d7 2", "3\u2032", "\"q\"", "don't", "a-b", "so...", "1/2", "a, b"]
EMOJI_TOKENS = ["\U0001f44d\U0001f3fd", "\u2764\ufe0f", "\U0001f600", "\U0001f468\u200d\U0001f469\u200d\U0001f467", "\U00020bb7", "\U00010348", "\u65e5\u672c\u8a9e"]
ESCAPE_TOKENS = ["a & b", "<b>bold</b>", "50% off", "caf\u00e9", "back\\slash", "q=\"v\"", "a+b c", "x/y?z=1", "tab\there", "1 < 2 > 0", "\U0001f600", "it's"]
SINGLETONS = {"\u00c5": "\u212b", "\u03a9": "\u2126", "K": "\u212a", "\u03cc": "\u1f79", "\u4e3d": "\U0002f800", "\u0301": "\u0341", "\u0300": "\u0340", ";": "\u037e",
              "\u00b7": "\u0387", "\u3008": "\u2329", "\u8c48": "\uf900"}
_UNSINGLE = {v: k for k, v in SINGLETONS.items()}
WIDE = {"fi": "\ufb01", "ff": "\ufb00", "fl": "\ufb02", "...": "\u2026", "TM": "\u2122", "IV": "\u2163", "1/2": "\u00bd", "kg": "\u338f"}
PADS = [" ", "  ", "\t", "\n", "\r\n", "\u00a0", "\u3000", " \n", "\n\n", "\x0c", "\u2003", " \t "]


def _words(rng, pool, n_special=(1, 3), n_plain=(0, 4)):
    toks = [rng.choice(pool) for _ in range(rng.randrange(*n_special) if n_special[0] != n_special[1] else n_special[0])]
    toks += [rng.choice(PLAIN) for _ in range(rng.randrange(n_plain[0], n_plain[1] + 1))]
    rng.shuffle(toks)
    return toks


def _join(rng, toks, multiline=None):
    if multiline is None:
        multiline = rng.random() < 0.25
    if not multiline or len(toks) < 2:
        return " ".join(toks)
    nl = "\n" if rng.random() < 0.6 else "\r\n"
    cut = sorted(rng.sample(range(1, len(toks)), min(len(toks) - 1, rng.randrange(1, 3))))
    lines, prev = [], 0
    for c in cut + [len(toks)]:
        lines.append(" ".join(toks[prev:c]))
        prev = c
    return nl.join(lines) + (nl if rng.random() < 0.25 else "")


def _insert(rng, s, piece):
    p = rng.randrange(len(s) + 1)
    return s[:p] + piece + s[p:]


# -- respellers: str -> str, the result is the same text to a human / to the named canonicalisation -------------------------

def partial_decompose(rng, s, p=0.5):
    out = []
    for c in s:
        d = U.decomposition(c)
        if d and not d.startswith("<") and rng.random() < p:
            out.append("".join(chr(int(x, 16)) for x in d.split()))
        elif 0xac00 <= ord(c) <= 0xd7a3 and rng.random() < p:
            out.append(U.normalize("NFD", c))
        else:
            out.append(c)
    return "".join(out)


def singletons(rng, s, p=0.7):
    return "".join((SINGLETONS.get(c) or _UNSINGLE.get(c) or c) if rng.random() < p else c for c in s)


def reorder_marks(rng, s):
    cs = list(U.normalize("NFD", s))
    idx = [i for i in range(len(cs) - 1) if U.combining(cs[i]) and U.combining(cs[i + 1]) and U.combining(cs[i]) != U.combining(cs[i + 1])]
    if not idx:
        return s
    for i in rng.sample(idx, max(1, len(idx) // 2)):
        if U.combining(cs[i]) and U.combining(cs[i + 1]) and U.combining(cs[i]) != U.combining(cs[i + 1]):
            cs[i], cs[i + 1] = cs[i + 1], cs[i]
    return "".join(cs)


def widen(rng, s, p=0.5):
    for k, v in WIDE.items():
        if k in s and rng.random() < 0.7:
            s = s.replace(k, v)
    out = []
    for c in s:
        r = rng.random()
        if r >= p:
            out.append(c)
        elif "!" <= c <= "~" and r < p * 0.6:
            out.append(chr(ord(c) + 0xfee0))                                    # fullwidth form
        elif c.isascii() and c.isdigit():
            out.append(rng.choice([chr(0x2460 + int(c) - 1) if c != "0" else "\u24ea", "\u2070\u00b9\u00b2\u00b3\u2074\u2075\u2076\u2077\u2078\u2079"[int(c)],
                                   chr(0x1d7ce + int(c))]))
        elif c.isascii() and c.isalpha():
            out.append(chr((0x1d400 if c.isupper() else 0x1d41a) + ord(c.lower()) - 97))   # mathematical bold (non-BMP)
        elif c == " ":
            out.append(rng.choice(["\u00a0", "\u2003", "\u2009", "\u3000", "\u202f"]))
        else:
            out.append(c)
    return "".join(out)


def flip_case(rng, s, p=0.4):
    out = []
    for c in s:
        d = c.lower() if c.isupper() else c.upper()
        out.append(d if d != c and rng.random() < p else c)
    return "".join(out)


def respace(rng, s):
    k = rng.randrange(9)
    if k == 0:
        return rng.choice(PADS) + s
    if k == 1:
        return s + rng.choice(PADS)
    if k == 2:
        return rng.choice(PADS) + s + rng.choice(PADS)
    if k == 3 and " " in s:
        return s.replace(" ", "  ", rng.choice([1, 99]))
    if k == 4 and " " in s:
        return s.replace(" ", rng.choice(["\t", "\u00a0", "\u2009", " \t", "\u3000"]), rng.choice([1, 99]))
    if k == 5 and "\n" in s:
        return re.sub(r"(\r?\n)", lambda mo: rng.choice([" ", "\t", "  "]) + mo.group(1), s)
    if k == 6:
        return s.strip() if s.strip() != s else " " + s
    if k == 7:
        return s + ("\r\n" if "\r\n" in s else "\n")
    return " ".join(s.split()) if " ".join(s.split()) != s else s + " "


NEWLINES = ["\n", "\r\n", "\r", "\u2028", "\x85", "\x0b", "\x0c", "\u2029", "\n\r"]


def renewline(rng, s, style=None):
    lines = s.splitlines()
    if len(lines) < 2:
        lines = (s.split(" ", 1) if " " in s else [s, "second line"])
    style = style or rng.choice(NEWLINES + ["mixed"])
    if style == "mixed":
        out = lines[0]
        for i, l in enumerate(lines[1:]):
            out += ("\n", "\r\n", "\r")[(i + rng.randrange(3)) % 3] + l
    else:
        if style == "\n\r":
            style = "\n"
        out = style.join(lines)
    if rng.random() < 0.3:
        out += style if style in ("\n", "\r\n") else rng.choice(["\n", "\r\n"])
    return out


def sprinkle(rng, s, pool, n=None):
    for _ in range(n or rng.randrange(1, 4)):
        s = _insert(rng, s, rng.choice(pool))
    return s


def smarten(rng, s):
    out = "".join(_SMART.get(c, c) if rng.random() < 0.7 else c for c in s.replace("...", "\u2026"))
    return out


def redigit(rng, s, zero=None):
    zero = zero or rng.choice(DIGIT_ZEROS)
    return "".join(chr(zero + int(c)) if c.isascii() and c.isdigit() and rng.random() < 0.8 else c for c in s)


def spoof(rng, s, p=0.5):
    return "".join(CONFUSABLE[c] if c in CONFUSABLE and rng.random() < p else c for c in s)


def split_surrogates(s):
    out = []
    for c in s:
        o = ord(c)
        if o >= 0x10000:
            o -= 0x10000
            out.append(chr(0xd800 + (o >> 10)) + chr(0xdc00 + (o & 0x3ff)))
        else:
            out.append(c)
    return "".join(out)


# ---------------------------------------------------------------------------------------------------------------------
# families: -> list of (form, text)

def _v_canonical(rng):
    base = _join(rng, _words(rng, CANON_TOKENS, (1, 4)))
    return [("raw", base), ("nfc", U.normalize("NFC", base)), ("nfd", U.normalize("NFD", base)), ("partly_decomposed", partial_decompose(rng, base)),
            ("singleton", singletons(rng, U.normalize("NFC", base))), ("marks_reordered", reorder_marks(rng, base)),
            ("partly_decomposed", partial_decompose(rng, U.normalize("NFC", base), 0.3))]


def _v_compat(rng):
    toks = _words(rng, COMPAT_TOKENS, (1, 3))
    if rng.random() < 0.3:
        toks.append(rng.choice(CANON_TOKENS))
    base = _join(rng, toks, multiline=False if rng.random() < 0.8 else None)
    plain = U.normalize("NFKC", base)
    return [("raw", base), ("nfkc", plain), ("nfkd", U.normalize("NFKD", base)), ("nfc", U.normalize("NFC", base)), ("nfd", U.normalize("NFD", base)),
            ("widened", widen(rng, plain)), ("widened", widen(rng, base, 0.25))]


def _v_case(rng):
    base = _join(rng, _words(rng, CASE_TOKENS, (1, 3)))
    return [("raw", base), ("lower", base.lower()), ("upper", base.upper()), ("casefold", base.casefold()), ("title", base.title()),
            ("capitalize", base.capitalize()), ("swapcase", base.swapcase()), ("flipped", flip_case(rng, base)), ("flipped", flip_case(rng, base.casefold())),
            ("widened_flipped", widen(rng, flip_case(rng, base), 0.3))]


def _v_whitespace(rng):
    toks = _words(rng, PLAIN + CANON_TOKENS[:5], (2, 5), (0, 2))
    base = _join(rng, toks, multiline=rng.random() < 0.4)
    if rng.random() < 0.3:
        base = respace(rng, base)
    out = [("raw", base), ("stripped", base.strip()), ("collapsed", collapse_ws(base)), ("lines_stripped", strip_lines(base))]
    for _ in range(4):
        out.append(("respaced", respace(rng, base)))
    out.append(("respaced", respace(rng, respace(rng, base))))
    return out


def _v_newline(rng):
    toks = _words(rng, PLAIN + EMOJI_TOKENS[:3], (2, 6), (0, 2))
    base = _join(rng, toks, multiline=True)
    out = [("raw", base), ("lf", renewline(rng, base, "\n")), ("crlf", renewline(rng, base, "\r\n")), ("cr", renewline(rng, base, "\r")),
           ("mixed", renewline(rng, base, "mixed")), ("exotic", renewline(rng, base, rng.choice(NEWLINES[3:]))),
           ("no_final_newline", base.rstrip("\r\n")), ("final_newline", base.rstrip("\r\n") + rng.choice(["\n", "\r\n"]))]
    return out


def _v_invisible(rng):
    base = _join(rng, _words(rng, PLAIN + EMOJI_TOKENS + CANON_TOKENS[:4], (1, 4), (0, 2)))
    clean = drop_invisible(base)
    return [("raw", base), ("clean", clean), ("bom_first", "\ufeff" + clean), ("bom_last", clean + "\ufeff"), ("bom_first", "\ufeff" + base),
            ("sprinkled", sprinkle(rng, clean, INVISIBLE)), ("sprinkled", sprinkle(rng, base, INVISIBLE[:6], 1)), ("sprinkled", sprinkle(rng, clean, INVISIBLE, 6))]


def _v_control(rng):
    base = _join(rng, _words(rng, PLAIN + CANON_TOKENS[:3], (1, 4), (0, 2)))
    return [("raw", base), ("nul_suffix", base + "\x00"), ("nul_junk", base + "\x00" + rng.choice(PLAIN)), ("nul_junk", base + "\x00\x00 and more\n"),
            ("sprinkled", sprinkle(rng, base, CONTROLS[1:])), ("sprinkled", sprinkle(rng, base, CONTROLS[1:], 1)), ("nul_inside", _insert(rng, base, "\x00")),
            ("nul_first", "\x00" + base)]


def _v_accents(rng):
    base = _join(rng, _words(rng, CANON_TOKENS[:5] + CANON_TOKENS[20:24] + ["\u00fcber", "pi\u00f1ata", "\u00e0 la carte", "fa\u00e7ade"], (1, 3)))
    bare = strip_accents(base)
    marks = ["\u0301", "\u0300", "\u0308", "\u0303", "\u0323", "\u0302"]
    return [("raw", base), ("bare", bare), ("nfd", U.normalize("NFD", base)), ("other_accents", U.normalize("NFC", sprinkle(rng, bare, marks))),
            ("other_accents", sprinkle(rng, U.normalize("NFD", base), marks, 1))]


def _v_punct(rng):
    base = _join(rng, _words(rng, PUNCT_TOKENS, (1, 4)))
    return [("raw", base), ("ascii", ascii_punct(base)), ("smart", smarten(rng, ascii_punct(base))), ("smart", smarten(rng, base))]


def _v_digits(rng):
    toks = _words(rng, ["42", "1000", "0.5", "2026-09-26", "3 BTC", "id 007", "\u0663", "\uff11\uff10"], (1, 3))
    base = fold_digits(_join(rng, toks))
    return [("ascii", base)] + [("other_script", redigit(rng, base, z)) for z in rng.sample(DIGIT_ZEROS, 3)] + [("mixed_scripts", redigit(rng, redigit(rng, base), None))]


def _v_confusable(rng):
    base = _join(rng, _words(rng, PLAIN, (2, 5), (0, 0)))
    return [("latin", base), ("spoofed", spoof(rng, base)), ("spoofed", spoof(rng, base, 1.0)), ("spoofed", spoof(rng, base, 0.2))]


def _v_escape(rng):
    base = _join(rng, _words(rng, ESCAPE_TOKENS, (1, 3), (0, 2)), multiline=rng.random() < 0.3)
    return [("raw", base), ("html", html.escape(base)), ("html_numeric", "".join(c if c.isascii() and c not in "&<>" else "&#%d;" % ord(c) for c in base)),
            ("percent", urllib.parse.quote(base)), ("percent_plus", urllib.parse.quote_plus(base)), ("percent_all", "".join("%%%02X" % x for x in base.encode("utf8"))),
            ("backslash", base.encode("unicode_escape").decode("ascii")),
            ("backslash", base.replace("\\", "\\\\").replace("\n", "\\n").replace("\r", "\\r").replace("\t", "\\t"))]


def _v_encoding(rng):
    toks = _words(rng, EMOJI_TOKENS + CANON_TOKENS[:6] + ["\u00e9", "\u20ac5", "\u00a310"], (1, 3), (0, 3))
    base = _join(rng, toks, multiline=rng.random() < 0.15)
    out = [("raw", base)]
    out.append(("lone_surrogate_inserted", sprinkle(rng, base, ["\ud800", "\udfff", "\udc80", "\udbff", "\udcff"])))
    out.append(("lone_surrogate_inserted", sprinkle(rng, base, ["\ud800", "\udc00"], 1)))
    out.append(("utf16_surrogate_pairs", split_surrogates(base)))
    out.append(("surrogateescaped_utf8", base.encode("utf8").decode("ascii", "surrogateescape")))
    out.append(("ascii_replaced", base.encode("ascii", "replace").decode("ascii")))
    out.append(("utf8_replaced", sprinkle(rng, base, ["?"], 1)))
    out.append(("lone_surrogate_for_replaced", None))      # placeholder, filled below
    pos = rng.randrange(len(base) + 1)
    out[-2] = ("utf8_replaced", base[:pos] + "?" + base[pos:])
    out[-1] = ("lone_surrogate_inserted", base[:pos] + rng.choice(["\ud800", "\udfff"]) + base[pos:])
    for enc in ("cp1252", "latin-1"):
        try:
            out.append(("mojibake_" + enc, base.encode("utf8").decode(enc)))
        except UnicodeDecodeError:
            pass
    for enc in ("utf-8-sig", "utf-16", "utf-16-le", "utf-16-be", "utf-32", "latin-1", "cp1252"):
        try:
            b = base.encode(enc)
        except UnicodeEncodeError:
            continue
        if b != base.encode("utf8"):
            out.append(("bytes_" + enc, b))
    out.append(("bytes_utf8_of_nfd", U.normalize("NFD", base).encode("utf8")))
    out.append(("bytes_utf8_nul", base.encode("utf8") + b"\x00"))
    # never the UTF-8 bytes of the text itself: an API that took bytes might rightly accept those
    return [(f, t) for f, t in out if t != base.encode("utf8")]


_VARIANTS = {"canonical": _v_canonical, "compat": _v_compat, "case": _v_case, "whitespace": _v_whitespace, "newline": _v_newline,
             "invisible": _v_invisible, "control": _v_control, "accents": _v_accents, "punct": _v_punct, "digits": _v_digits,
             "confusable": _v_confusable, "escape": _v_escape, "encoding": _v_encoding}

FALLBACK = {
    "canonical": ("nfc", "Caf\u00e9", "nfd", "Cafe\u0301"), "compat": ("raw", "\ufb01ne", "nfkc", "fine"), "case": ("raw", "Stra\u00dfe", "upper", "STRASSE"),
    "whitespace": ("raw", "a b", "respaced", " a  b\n"), "newline": ("lf", "a\nb", "crlf", "a\r\nb"), "invisible": ("clean", "ab", "bom_first", "\ufeffab"),
    "control": ("raw", "ab", "nul_junk", "ab\x00c"), "accents": ("raw", "caf\u00e9", "bare", "cafe"), "punct": ("raw", "it\u2019s", "ascii", "it's"),
    "digits": ("ascii", "3", "other_script", "\u0663"), "confusable": ("latin", "pay", "spoofed", "\u0440\u0430\u0443"), "escape": ("raw", "a & b", "html", "a &amp; b"),
    "encoding": ("raw", "\U0001f600", "utf16_surrogate_pairs", "\ud83d\ude00"),
}


# directed (signed form, queried form) pairs that are visited systematically (two visits out of three), so that both sides of each
# equivalence are signed and queried in every run; the remaining visits take any two spellings
PRIORITY = {
    "canonical": [("nfc", "nfd"), ("nfd", "nfc"), ("nfc", "singleton"), ("singleton", "nfc"), ("nfc", "partly_decomposed"), ("partly_decomposed", "nfc"),
                  ("nfc", "marks_reordered"), ("marks_reordered", "nfd"), ("nfd", "partly_decomposed"), ("singleton", "nfd")],
    "compat": [("nfkc", "raw"), ("raw", "nfkc"), ("nfkc", "widened"), ("widened", "nfkc"), ("nfkd", "nfkc"), ("nfkc", "nfkd"), ("raw", "nfkd"), ("nfc", "nfkc")],
    "case": [("casefold", "raw"), ("raw", "casefold"), ("upper", "lower"), ("lower", "upper"), ("casefold", "upper"), ("title", "casefold"), ("raw", "swapcase"),
             ("casefold", "widened_flipped"), ("flipped", "casefold")],
    "whitespace": [("stripped", "respaced"), ("respaced", "stripped"), ("collapsed", "respaced"), ("respaced", "collapsed"), ("raw", "lines_stripped")],
    "newline": [("lf", "crlf"), ("crlf", "lf"), ("lf", "cr"), ("cr", "lf"), ("lf", "exotic"), ("crlf", "mixed"), ("no_final_newline", "final_newline"),
                ("final_newline", "no_final_newline"), ("exotic", "crlf")],
    "invisible": [("clean", "bom_first"), ("bom_first", "clean"), ("clean", "sprinkled"), ("sprinkled", "clean"), ("clean", "bom_last"), ("bom_last", "clean")],
    "control": [("raw", "nul_suffix"), ("nul_junk", "raw"), ("raw", "sprinkled"), ("sprinkled", "raw"), ("raw", "nul_inside"), ("nul_first", "raw")],
    "accents": [("raw", "bare"), ("bare", "raw"), ("raw", "other_accents"), ("nfd", "bare")],
    "punct": [("raw", "ascii"), ("ascii", "raw"), ("ascii", "smart"), ("smart", "ascii")],
    "digits": [("ascii", "other_script"), ("other_script", "ascii"), ("other_script", "mixed_scripts")],
    "confusable": [("latin", "spoofed"), ("spoofed", "latin")],
    "escape": [("raw", "html"), ("html", "raw"), ("raw", "percent"), ("percent", "raw"), ("raw", "backslash"), ("backslash", "raw"), ("html_numeric", "raw"),
               ("raw", "percent_all")],
    "encoding": [("raw", "utf16_surrogate_pairs"), ("raw", "surrogateescaped_utf8"), ("raw", "lone_surrogate_inserted"), ("raw", "bytes_utf-8-sig"),
                 ("raw", "ascii_replaced"), ("ascii_replaced", "raw"), ("raw", "bytes_utf-16"), ("raw", "mojibake_cp1252"), ("mojibake_cp1252", "raw"),
                 ("raw", "bytes_latin-1"), ("utf8_replaced", "lone_surrogate_inserted"), ("raw", "bytes_utf8_of_nfd")],
}
_SLOTS = {f: [j for j, g in enumerate(SCHEDULE) if g == f] for f in FAMILIES}


def _finish(family, fa, a, fb, b, under, vs):
    out = {"family": family, "a": a, "form_a": fa, "b": b, "form_b": fb, "under": under}
    if family == "encoding":
        # every other spelling of a that cannot be signed (not UTF-8 encodable, or bytes): to be queried as well
        seen, more = [b], []
        for f, t in vs:
            if t != a and t not in seen and not encodable(t) and fa == "raw" and equivalent_under(family, a, t):
                seen.append(t)
                more.append([f, t])
        out["more"] = more
    return out


def gen_pair(rng, i, rot=0):
    """one pair of different messages of family SCHEDULE[i % len]: a is always a signable str; b is a str (signable when
    encodable(b)) or bytes. "under" names the canonicalisation that identifies them. Two visits of a family out of three take the
    next directed form pair of PRIORITY (rotated by rot)."""
    family = SCHEDULE[i % len(SCHEDULE)]
    slots = _SLOTS[family]
    visit = (i // len(SCHEDULE)) * len(slots) + slots.index(i % len(SCHEDULE))
    want = None
    if visit % 3 != 2:
        pr = PRIORITY[family]
        want = pr[(visit - visit // 3 + rot * 3) % len(pr)]
    for attempt in range(24):
        vs = [(f, t) for f, t in _VARIANTS[family](rng) if t is not None]
        if want and attempt < 16:
            for fa, a in vs:
                if fa != want[0] or not encodable(a):
                    continue
                for fb, b in vs:
                    if fb == want[1] and b != a and (isinstance(b, str) or fa == "raw"):
                        under = equivalent_under(family, a, b)
                        if under:
                            return _finish(family, fa, a, fb, b, under, vs)
            continue
        signable = [(f, t) for f, t in vs if encodable(t)]
        rng.shuffle(signable)
        for fa, a in signable:
            others = [(f, t) for f, t in vs if t != a]
            if family == "encoding":
                others = [(f, t) for f, t in others if f != "raw"] if fa == "raw" else [(f, t) for f, t in others if f == "raw"]
            rng.shuffle(others)
            for fb, b in others:
                under = equivalent_under(family, a, b)
                if under:
                    return _finish(family, fa, a, fb, b, under, vs)
    fa, a, fb, b = FALLBACK[family]
    return dict(_finish(family, fa, a, fb, b, equivalent_under(family, a, b), []), fallback=True)


def pair_shapes(p):
    """which side of the pair is in which canonical form: names like 'canonical:nfc>other' (signed side first)."""
    a, b, fam = p["a"], p["b"], p["family"]
    if not isinstance(b, str):
        return ["encoding:text>bytes"]
    out = []
    tests = {"canonical": [("nfc", CANON["nfc"]), ("nfd", CANON["nfd"])], "compat": [("nfkc", CANON["nfkc"]), ("nfkd", CANON["nfkd"])],
             "case": [("folded", str.casefold), ("upper", str.upper)], "whitespace": [("stripped", str.strip), ("collapsed", collapse_ws)],
             "invisible": [("clean", drop_invisible)], "accents": [("bare", strip_accents)], "punct": [("ascii", ascii_punct)],
             "digits": [("ascii", fold_digits)], "control": [("clean", lambda s: drop_control(c_string(s)))]}.get(fam, [])
    for name, f in tests:
        ia, ib = f(a) == a, f(b) == b
        other = {"stripped": "padded", "clean": "bom" if b.startswith("\ufeff") or a.startswith("\ufeff") else "dirty"}.get(name, "other")
        if ia and not ib:
            out.append("%s:%s>%s" % (fam, name, other))
        elif ib and not ia:
            out.append("%s:%s>%s" % (fam, other, name))
        elif not ia and not ib:
            out.append("%s:neither_%s" % (fam, name))
    if fam == "newline":
        sty = lambda s: "crlf" if "\r\n" in s and "\n" not in s.replace("\r\n", "") and "\r" not in s.replace("\r\n", "") else \
            "lf" if "\n" in s and "\r" not in s else "other"
        out.append("newline:%s>%s" % (sty(a), sty(b)))
    if fam == "encoding":
        out.append("encoding:text>%s" % ("unencodable" if not encodable(b) else "text"))
    return out or [fam + ":other"]


def respell(msg, rng):
    """other spellings of an arbitrary message: [(form, text)], every text != msg, a str that UTF-8 encodes."""
    out = [("nfc", U.normalize("NFC", msg)), ("nfd", U.normalize("NFD", msg)), ("nfkc", U.normalize("NFKC", msg)), ("nfkd", U.normalize("NFKD", msg)),
           ("partly_decomposed", partial_decompose(rng, msg)), ("singleton", singletons(rng, msg)), ("casefold", msg.casefold()), ("swapcase", msg.swapcase()),
           ("title", msg.title()), ("flipped", flip_case(rng, msg)), ("respaced", respace(rng, msg)), ("respaced", respace(rng, msg)),
           ("collapsed", collapse_ws(msg)), ("bom_first", "\ufeff" + msg), ("sprinkled", sprinkle(rng, msg, INVISIBLE, 1)),
           ("nul_junk", msg + "\x00" + rng.choice(PLAIN)), ("bare", strip_accents(msg)), ("ascii_replaced", msg.encode("ascii", "replace").decode("ascii")),
           ("smart", smarten(rng, msg)), ("ascii_punct", ascii_punct(msg)), ("html", html.escape(msg)), ("percent", urllib.parse.quote(msg)),
           ("widened", widen(rng, msg[:300], 0.3) + msg[300:]), ("other_script_digits", redigit(rng, msg)), ("spoofed", spoof(rng, msg[:300], 0.3) + msg[300:])]
    if "\n" in msg or "\r" in msg:
        out += [("crlf", msg.replace("\r\n", "\n").replace("\n", "\r\n")), ("lf", msg.replace("\r\n", "\n")), ("renewlined", renewline(rng, msg)),
                ("no_final_newline", msg.rstrip("\r\n"))]
    else:
        out.append(("final_newline", msg + rng.choice(["\n", "\r\n"])))
    seen, res = {msg}, []
    for f, t in out:
        if t not in seen and encodable(t):
            seen.add(t)
            res.append((f, t))
    return res


def selftest():
    import random
    rng = random.Random(17)
    # the canonicalisations do what their names say, on examples taken from the Unicode standard (UAX #15 figures, SpecialCasing.txt)
    assert CANON["nfc"]("A\u030a") == "\u00c5" == CANON["nfc"]("\u212b") and CANON["nfd"]("\u00c5") == "A\u030a"
    assert CANON["nfc"]("\u1e0b\u0323") == "\u1e0d\u0307" and CANON["nfd"]("\u1e0b\u0323") == "d\u0323\u0307"          # UAX #15 fig. 5
    assert CANON["nfkc"]("\ufb01") == "fi" and CANON["nfkc"]("2\u2075") == "25" and CANON["nfc"]("\ufb01") == "\ufb01"
    assert CANON["nfd"]("\uac01") == "\u1100\u1161\u11a8" and CANON["nfc"]("\u1100\u1161\u11a8") == "\uac01"
    assert CANON["casefold"]("Stra\u00dfe") == "strasse" == CANON["casefold"]("STRASSE") and CANON["upper"]("\ufb01") == "FI"
    assert CANON["casefold"]("\u03a3\u03c3\u03c2") == "\u03c3\u03c3\u03c3"
    assert CANON["collapse_ws"](" a \t\n b\u00a0c ") == "a b c" and CANON["universal_newlines"]("a\r\nb\rc\u2028d\n") == ("a", "b", "c", "d")
    assert CANON["drop_invisible"]("\ufeffa\u200bb\u00adc") == "abc" and CANON["c_string"]("ab\x00cd") == "ab" and CANON["drop_control"]("a\x07b\n") == "ab\n"
    assert CANON["strip_accents"]("cr\u00e8me br\u00fbl\u00e9e") == "creme brulee" and CANON["fold_digits"]("\u0663\uff14x") == "34x"
    assert CANON["join_surrogates"]("\ud83d\ude00") == "\U0001f600" and split_surrogates("a\U0001f600") == "a\ud83d\ude00"
    assert CANON["surrogateescape"]("\udcc3\udca9") == "\u00e9".encode("utf8") and CANON["utf8_ignore"]("a\ud800b") == b"ab"
    assert CANON["demojibake"]("caf\u00c3\u00a9") == "caf\u00e9" and CANON["decode_bytes"]("\u00e9".encode("utf-8-sig")) == "\u00e9"
    assert CANON["decode_bytes"]("hi \u00e9".encode("utf-16")) == "hi \u00e9" and CANON["backslash_unescape"]("a\\nb\\u00e9\\\\") == "a\nb\u00e9\\"
    assert not encodable("\ud800") and not encodable(b"x") and encodable("\U0001f600")
    fams, forms, unders, shapes = {}, set(), set(), {}
    for i in range(len(SCHEDULE) * 36):
        p = gen_pair(rng, i % (len(SCHEDULE) * 12), rot=i // (len(SCHEDULE) * 12))
        a, b = p["a"], p["b"]
        assert a != b and encodable(a) and p["under"] in FAMILIES[p["family"]], p
        assert equivalent_under(p["family"], a, b) == p["under"]
        if isinstance(b, str) and encodable(b):
            assert a.encode("utf8") != b.encode("utf8")
        for t in [b] + [t for _, t in p.get("more", [])]:
            assert t != a.encode("utf8") and t != a, p
        assert not p.get("fallback"), p
        fams[p["family"]] = fams.get(p["family"], 0) + 1
        forms.add((p["family"], p["form_a"], p["form_b"]))
        unders.add(p["under"])
        for k in pair_shapes(p):
            shapes[k] = shapes.get(k, 0) + 1
    assert set(fams) == set(FAMILIES), fams
    # both directions of the normal forms, the unsignable spellings and the bytes spellings all occur
    for need in [("encoding", "raw", "utf16_surrogate_pairs"), ("encoding", "raw", "surrogateescaped_utf8"), ("encoding", "raw", "lone_surrogate_inserted"),
                 ("encoding", "raw", "bytes_utf-8-sig")]:
        assert need in forms, need
    for need in ["canonical:nfc>other", "canonical:other>nfc", "canonical:nfd>other", "canonical:other>nfd", "compat:nfkc>other", "compat:other>nfkc",
                 "newline:lf>crlf", "newline:crlf>lf", "invisible:clean>bom", "invisible:bom>clean", "case:folded>other", "case:other>folded",
                 "whitespace:stripped>padded", "whitespace:padded>stripped"]:
        assert shapes.get(need), (need, shapes)
    missing = set(CANON) - unders - {"nfd", "nfkd"}
    n = 0
    for m in ["", "a", "Caf\u00e9 3\u20ac\n", "x" * 300, " \ufb01 \n\r\n", "\U0001f600", "A\u030a", "hello world", "\x00"]:
        for f, t in respell(m, rng):
            assert t != m and encodable(t)
            n += 1
    # the systematic visits reach every directed form pair they name
    for fam, pr in PRIORITY.items():
        for want in pr:
            assert (fam,) + want in forms, (fam, want)
    return {"pairs": sum(fams.values()), "families": len(fams), "form_pairs": len(forms), "canonicalisations_exercised": len(unders),
            "canonicalisations_never_deciding": sorted(missing), "respellings": n}
