"""Seeded, boundary-biased transaction generator (shared by C07, C13, C20 and later checks).

Transactions are plain dicts in the shape of vmon/refs/txser.py:

  {"version": int, "ins": [{"prev": 32 bytes (wire order), "index": int, "script": bytes,
                            "sequence": int, "witness": [bytes, ...]}],
   "outs": [{"value": int, "script": bytes}], "lock_time": int}

Nothing at module level imports pycoin; `to_pycoin` / `from_pycoin` receive the Tx class of the network under test.
All randomness comes from the `rng` handed in (vmon.probe.shard_rng).
"""

U32_EDGES = [0, 1, 2, 0x7fffffff, 0x80000000, 0xfffffffe, 0xffffffff]
AMOUNT_EDGES = [0, 1, (1 << 63) - 1, 1 << 63, (1 << 64) - 1]
LEN_EDGES = [0, 1, 0xfc, 0xfd, 0xfe, 0xffff, 0x10000]
LEN_EDGES_SMALL = [0, 1, 0xfc, 0xfd, 0xfe]
COUNT_EDGES = [1, 2, 252, 253, 254, 300]
NULL_HASH = b"\0" * 32
NULL_INDEX = 0xffffffff
BIG = 0xffff          # a field of at least this many bytes is "big"; at most MAX_BIG of them per transaction
MAX_BIG = 2


# ---------------------------------------------------------------------------------------------
# field generators

def rbytes(rng, n):
    return rng.randbytes(n) if n else b""


def rand_u32(rng, p_edge=0.45):
    if rng.random() < p_edge:
        return rng.choice(U32_EDGES)
    return rng.getrandbits(rng.choice([8, 16, 31, 32]))


def rand_amount(rng, p_edge=0.4, hi=(1 << 64) - 1):
    r = rng.random()
    if r < p_edge:
        v = rng.choice(AMOUNT_EDGES)
    elif r < p_edge + 0.3:
        v = rng.getrandbits(rng.choice([1, 8, 33, 51, 63, 64]))
    else:
        v = rng.randrange(0, 21 * 10 ** 14 + 1)
    return min(v, hi)


def rand_hash(rng):
    r = rng.random()
    if r < 0.04:
        return NULL_HASH
    if r < 0.07:
        return b"\xff" * 32
    if r < 0.10:
        return b"\0" * 31 + b"\1"
    return rbytes(rng, 32)


class _Budget:
    """limits the number of big fields in one transaction so that cost stays predictable"""

    def __init__(self, big=MAX_BIG, p_big=0.005):
        self.big = big
        self.p_big = p_big

    def length(self, rng, p_edge, allow_big=True):
        r = rng.random()
        if r < self.p_big and allow_big and self.big > 0:
            n = rng.choice([0xffff, 0x10000, 0xffff, 0x10000, 0x10001, 0xfffe])
        elif r < p_edge:
            n = rng.choice(LEN_EDGES_SMALL)
        elif r < p_edge + 0.1:
            n = rng.randrange(0xf0, 0x110)
        else:
            n = rng.choice([0, 1, 2, 20, 22, 23, 25, 34, 35, 71, 72, 73, 106, 107, rng.randrange(0, 80)])
        if n >= BIG:
            self.big -= 1
        return n


def rand_witness(rng, budget, p_edge=0.3, kind=None):
    """one witness stack; kind None picks among empty / small / with empty items / 252..254 items"""
    kind = kind or rng.choice(["empty", "small", "small", "emptyitems", "manyitems" if rng.random() < 0.15 else "small"])
    if kind == "empty":
        return []
    if kind == "emptyitems":
        return [b"" if rng.random() < 0.6 else rbytes(rng, budget.length(rng, p_edge)) for _ in range(rng.randrange(1, 5))]
    if kind == "manyitems":
        n = rng.choice([252, 253, 254])
        return [rbytes(rng, rng.choice([0, 0, 1, 2])) for _ in range(n)]
    return [rbytes(rng, budget.length(rng, p_edge)) for _ in range(rng.randrange(1, 5))]


def rand_count(rng, p_edge, lo):
    r = rng.random()
    if r < p_edge:
        return max(lo, rng.choice(COUNT_EDGES))
    if r < p_edge + 0.05:
        return max(lo, rng.randrange(240, 270))
    return max(lo, rng.choice([0, 1, 1, 1, 2, 2, 3, 4, 5, 8, rng.randrange(0, 20)]))


WITNESS_MODES = ["none", "none", "all_empty", "some", "some", "all", "first_only", "last_only"]


def rand_tx(rng, n_in=None, n_out=None, witness=None, p_edge=0.3, p_count_edge=0.04, max_big=MAX_BIG,
            amount_hi=(1 << 64) - 1, distinct_outpoints=False):
    """A random transaction dict with at least one input.

    witness: None (random mode) or one of WITNESS_MODES. "all_empty" gives every input an empty stack (legacy form).
    distinct_outpoints: make all (prev, index) pairs different and never the null outpoint (for C13 / C20 bases).
    """
    budget = _Budget(max_big)
    if n_in is None:
        n_in = rand_count(rng, p_count_edge, 1)
    if n_out is None:
        n_out = rand_count(rng, p_count_edge, 0)
    many = n_in + n_out > 40
    pe = p_edge / 6 if many else p_edge
    if many:
        budget.p_big = 0.0003
    mode = witness or rng.choice(WITNESS_MODES)
    ins = []
    seen = set()
    for k in range(n_in):
        while True:
            prev, index = rand_hash(rng), rand_u32(rng)
            if not distinct_outpoints:
                break
            if prev != NULL_HASH and (prev, index) not in seen:
                seen.add((prev, index))
                break
        if mode in ("none", "all_empty"):
            w = []
        elif mode == "all":
            w = rand_witness(rng, budget, pe, kind=rng.choice(["small", "emptyitems", "small", "manyitems" if not many and rng.random() < 0.1 else "small"]))
        elif mode == "first_only":
            w = rand_witness(rng, budget, pe, kind="small") if k == 0 else []
        elif mode == "last_only":
            w = rand_witness(rng, budget, pe, kind="emptyitems") if k == n_in - 1 else []
        else:
            w = rand_witness(rng, budget, pe, kind="small" if many and rng.random() < 0.9 else None) if rng.random() < 0.5 else []
        ins.append({"prev": prev, "index": index, "script": rbytes(rng, budget.length(rng, pe)),
                    "sequence": rand_u32(rng), "witness": w})
    outs = [{"value": rand_amount(rng, hi=amount_hi), "script": rbytes(rng, budget.length(rng, pe))} for _ in range(n_out)]
    return {"version": rand_u32(rng), "ins": ins, "outs": outs, "lock_time": rand_u32(rng)}


def simple_tx(n_in=1, n_out=1, value=1, script_len=0, out_script_len=0, witness=None, fill=b"\x51"):
    """A deterministic, defect-free transaction with distinct non-null outpoints (building block for sweeps)."""
    ins = [{"prev": bytes([k & 0xff, (k >> 8) & 0xff]) + b"\xaa" * 30, "index": k, "script": fill * script_len,
            "sequence": 0xffffffff, "witness": list(witness or [])} for k in range(n_in)]
    outs = [{"value": value, "script": fill * out_script_len} for _ in range(n_out)]
    return {"version": 1, "ins": ins, "outs": outs, "lock_time": 0}


def boundary_sweep():
    """Deterministic transactions that put every compact-size boundary on every kind of length / count field and every
    integer-width boundary on every integer field, one at a time. Yields (label, tx dict)."""
    for L in LEN_EDGES + [0xfb, 0xff, 0x100, 0xfffe]:
        yield "in_script_len=%#x" % L, simple_tx(script_len=L)
        yield "out_script_len=%#x" % L, simple_tx(out_script_len=L)
        yield "witness_item_len=%#x" % L, simple_tx(witness=[b"\x07" * L])
        t = simple_tx(n_in=2)
        t["ins"][1]["witness"] = [b"", b"\x07" * L, b""]
        yield "witness_item_len=%#x,second_input" % L, t
    for n in [1, 2, 0xfc, 0xfd, 0xfe, 0xff, 0x100, 300]:
        yield "n_in=%d" % n, simple_tx(n_in=n)
        yield "n_out=%d" % n, simple_tx(n_out=n)
        yield "n_witness_items=%d" % n, simple_tx(witness=[bytes([k & 1]) * (k % 3) for k in range(n)])
        t = simple_tx(n_in=n)
        t["ins"][-1]["witness"] = [b"\x01"]
        yield "n_in=%d,witness_on_last" % n, t
    yield "n_out=0", simple_tx(n_out=0)
    yield "n_out=0,witness", simple_tx(n_out=0, witness=[b"x"])
    yield "witness=[empty item]", simple_tx(witness=[b""])
    yield "witness=[empty, empty]", simple_tx(witness=[b"", b""])
    yield "all_empty_witness", simple_tx(n_in=3)
    for v in AMOUNT_EDGES + [0x7fffffff, 0x80000000, 0xffffffff, 0x100000000, 21 * 10 ** 14]:
        yield "amount=%d" % v, simple_tx(value=v)
    for v in U32_EDGES:
        for field in ("version", "lock_time"):
            t = simple_tx()
            t[field] = v
            yield "%s=%#x" % (field, v), t
        for field in ("index", "sequence"):
            t = simple_tx(n_in=2)
            t["ins"][1][field] = v
            yield "%s=%#x" % (field, v), t
            t = simple_tx(witness=[b"\x02\x03"])
            t["ins"][0][field] = v
            yield "%s=%#x,witness" % (field, v), t
    for h in (NULL_HASH, b"\xff" * 32, bytes(range(32))):
        t = simple_tx()
        t["ins"][0]["prev"] = h
        yield "prev=%s" % h[:2].hex(), t


# ---------------------------------------------------------------------------------------------
# shape (for distinctness / non-triviality)

def _len_class(n):
    if n in (0, 1):
        return n
    for e in (0xfc, 0xfd, 0xfe, 0xffff, 0x10000):
        if n == e:
            return "=%x" % e
    return "<fd" if n < 0xfd else "<10000" if n < 0x10000 else ">=10000"


def _int_class(v, edges):
    return ("e", v) if v in edges else "r"


def shape(tx):
    """field-shape vector: classes of every count, length and integer field (not the contents)"""
    ins = tuple((_len_class(len(i["script"])), _int_class(i["index"], U32_EDGES), _int_class(i["sequence"], U32_EDGES),
                 tuple(_len_class(len(w)) for w in i["witness"][:6]), _len_class(len(i["witness"]))) for i in tx["ins"][:8])
    outs = tuple((_len_class(len(o["script"])), _int_class(o["value"], AMOUNT_EDGES)) for o in tx["outs"][:8])
    return (_len_class(len(tx["ins"])), _len_class(len(tx["outs"])), _int_class(tx["version"], U32_EDGES),
            _int_class(tx["lock_time"], U32_EDGES), ins, outs)


def on_boundary(tx):
    """at least one field sits on a compact-size or integer-width boundary"""
    edges = {0xfc, 0xfd, 0xfe, 0xffff, 0x10000}
    if len(tx["ins"]) in edges or len(tx["outs"]) in edges:
        return True
    if tx["version"] in U32_EDGES[3:] or tx["lock_time"] in U32_EDGES[3:]:
        return True
    for i in tx["ins"]:
        if len(i["script"]) in edges or len(i["witness"]) in edges or i["index"] in U32_EDGES[3:] or i["sequence"] in U32_EDGES[3:-1]:
            return True
        if any(len(w) in edges or len(w) == 0 for w in i["witness"]):
            return True
    for o in tx["outs"]:
        if len(o["script"]) in edges or o["value"] in AMOUNT_EDGES[2:]:
            return True
    return False


# ---------------------------------------------------------------------------------------------
# conversion to / from the objects of the library under test

def to_pycoin(Tx, d, witness_via="attr"):
    """Build an object of class `Tx` (the transaction class of some network) from a dict.
    witness_via: "attr" assigns tx_in.witness = list, "set_witness" goes through Tx.set_witness, "tuple" assigns a tuple."""
    txs_in = []
    for i in d["ins"]:
        t = Tx.TxIn(i["prev"], i["index"], i["script"], i["sequence"])
        if witness_via == "attr":
            t.witness = list(i["witness"])
        elif witness_via == "tuple":
            t.witness = tuple(i["witness"])
        txs_in.append(t)
    txs_out = [Tx.TxOut(o["value"], o["script"]) for o in d["outs"]]
    tx = Tx(d["version"], txs_in, txs_out, d["lock_time"])
    if witness_via == "set_witness":
        for k, i in enumerate(d["ins"]):
            if i["witness"]:
                tx.set_witness(k, list(i["witness"]))
    return tx


def from_pycoin(tx):
    """Read the fields of a transaction object back into the dict shape (pure observation)."""
    return {"version": tx.version,
            "ins": [{"prev": bytes(i.previous_hash), "index": i.previous_index, "script": bytes(i.script),
                     "sequence": i.sequence, "witness": [bytes(w) for w in i.witness]} for i in tx.txs_in],
            "outs": [{"value": o.coin_value, "script": bytes(o.script)} for o in tx.txs_out],
            "lock_time": tx.lock_time}


def norm(d):
    """canonical copy of a dict (witness as lists of bytes, missing witness = [])"""
    return {"version": d["version"],
            "ins": [{"prev": bytes(i["prev"]), "index": i["index"], "script": bytes(i["script"]), "sequence": i["sequence"],
                     "witness": [bytes(w) for w in (i.get("witness") or [])]} for i in d["ins"]],
            "outs": [{"value": o["value"], "script": bytes(o["script"])} for o in d["outs"]],
            "lock_time": d["lock_time"]}


def first_difference(a, b):
    """name of the first field in which two tx dicts differ, or None"""
    for f in ("version", "lock_time"):
        if a[f] != b[f]:
            return f
    if len(a["ins"]) != len(b["ins"]):
        return "n_in"
    if len(a["outs"]) != len(b["outs"]):
        return "n_out"
    for x, y in zip(a["ins"], b["ins"]):
        for f in ("prev", "index", "script", "sequence"):
            if x[f] != y[f]:
                return "in." + f
        if list(x["witness"]) != list(y["witness"]):
            return "in.witness"
    for x, y in zip(a["outs"], b["outs"]):
        for f in ("value", "script"):
            if x[f] != y[f]:
                return "out." + f
    return None


# ---------------------------------------------------------------------------------------------
# compact, JSON-friendly form for stored cases (long runs of one byte are kept as ["rep", byte, length])

def _pack_bytes(b):
    if len(b) > 600 and b == b[:1] * len(b):
        return ["rep", b[0], len(b)]
    return b


def _unpack_bytes(v):
    if isinstance(v, (list, tuple)) and len(v) == 3 and v[0] == "rep":
        return bytes([int(v[1])]) * int(v[2])
    if isinstance(v, str):
        return bytes.fromhex(v[2:]) if v.startswith("x:") else bytes.fromhex(v)
    return bytes(v)


def pack(d):
    return {"version": d["version"], "lock_time": d["lock_time"],
            "ins": [{"prev": i["prev"], "index": i["index"], "script": _pack_bytes(i["script"]), "sequence": i["sequence"],
                     "witness": [_pack_bytes(w) for w in i["witness"]]} for i in d["ins"]],
            "outs": [{"value": o["value"], "script": _pack_bytes(o["script"])} for o in d["outs"]]}


def unpack(d):
    return {"version": int(d["version"]), "lock_time": int(d["lock_time"]),
            "ins": [{"prev": _unpack_bytes(i["prev"]), "index": int(i["index"]), "script": _unpack_bytes(i["script"]),
                     "sequence": int(i["sequence"]), "witness": [_unpack_bytes(w) for w in (i.get("witness") or [])]}
                    for i in d["ins"]],
            "outs": [{"value": int(o["value"]), "script": _unpack_bytes(o["script"])} for o in d["outs"]]}


# ---------------------------------------------------------------------------------------------
# spendables

def rand_spendable(rng, value_hi=(1 << 64) - 1, p_edge=0.35):
    """field dict of a spendable record: coin_value, script, tx_hash (wire order), tx_out_index and the three bookkeeping fields"""
    b = _Budget(1)
    return {"coin_value": rand_amount(rng, p_edge, hi=value_hi), "script": rbytes(rng, b.length(rng, p_edge * 0.6)),
            "tx_hash": rand_hash(rng), "tx_out_index": rand_u32(rng),
            "block_index_available": rng.choice([0, 0, 1, 0xfc, 0xfd, 0xffff, 0x10000, 0xffffffff, rng.getrandbits(24)]),
            "does_seem_spent": rng.choice([0, 0, 1]),
            "block_index_spent": rng.choice([0, 0, 1, 0xfc, 0xfd, 0xffff, 0x10000, 0xffffffff, rng.getrandbits(24)])}


SPENDABLE_FIELDS = ("coin_value", "script", "tx_hash", "tx_out_index", "block_index_available", "does_seem_spent", "block_index_spent")


def spendable_to_pycoin(Spendable, f):
    return Spendable(f["coin_value"], f["script"], f["tx_hash"], f["tx_out_index"], f["block_index_available"],
                     bool(f["does_seem_spent"]), f["block_index_spent"])


def spendable_from_pycoin(s):
    return {"coin_value": s.coin_value, "script": bytes(s.script), "tx_hash": bytes(s.tx_hash), "tx_out_index": s.tx_out_index,
            "block_index_available": s.block_index_available, "does_seem_spent": int(s.does_seem_spent),
            "block_index_spent": s.block_index_spent}
