"""Run the tree-under-test's own test-suite as a monitored workload (see suite_plugin.py) from inside a worker shard."""
import glob
import json
import os
import subprocess
import tempfile

ROOT = os.path.dirname(os.path.dirname(os.path.abspath(__file__)))
QUICK_FILES = ["tests/validation_test.py", "tests/tx_test.py", "tests/sign_test.py", "tests/pay_to_test.py", "tests/btc/segwit_test.py",
               "tests/btc/bc_transaction_test.py", "tests/multisig_individual_test.py", "tests/sighash_single_test.py", "tests/build_tx_test.py"]


def run_suite(spec, rec, prefixes, required_counter):
    repo = spec["repo"]
    files = [f for f in QUICK_FILES if os.path.exists(os.path.join(repo, f))] if spec["tier"] == "quick" else ["tests"]
    outdir = tempfile.mkdtemp(prefix="suite-", dir=os.path.join(ROOT, ".work"))
    out = os.path.join(outdir, "obs")
    env = dict(os.environ, PYTHONPATH=os.pathsep.join([repo, ROOT, os.path.join(ROOT, ".deps")]), VMON_SUITE_OUT=out, PYTHONDONTWRITEBYTECODE="1")
    cmd = ["/venv/bin/python", "-m", "pytest", "-q", "-p", "no:cacheprovider", "-p", "vmon.suite_plugin", "--timeout=900", "-n", "4" if spec["tier"] == "quick" else "8"] + files
    try:
        p = subprocess.run(cmd, cwd=repo, env=env, capture_output=True, text=True, timeout=1500)
    except subprocess.TimeoutExpired:
        rec.note("suite run timed out")
        return
    merged = {}
    n_files = 0
    for f in glob.glob(out + ".*"):
        st = json.load(open(f))
        n_files += 1
        for k, v in st["counters"].items():
            merged[k] = merged.get(k, 0) + v
        for v in st["violations"]:
            if any(v["mech"].startswith(pre) for pre in prefixes):
                rec.violation(v["mech"], v["case"], v["observed"], v["expected"])
    for k, v in merged.items():
        if any(k.startswith(pre.split("_")[0]) for pre in prefixes) or "monitor_error" in k or k == "suite.installed":
            rec.ev(k, v)
    rec.case(("suite", tuple(files)), nontrivial=True, n=merged.get(required_counter, 0))
    rec.note("suite workload: pytest %s -> %s" % (" ".join(files)[:80], (p.stdout.strip().splitlines() or ["?"])[-1][:120]))
    for f in glob.glob(out + ".*"):
        os.remove(f)
    os.rmdir(outdir)
    rec.sample({"op": "test-suite as workload", "files": files[:4], "monitored_events": {k: v for k, v in merged.items() if k.startswith("suite.")}})
