"""Independent Bitcoin transaction wire (de)serialisation, from the protocol documentation and BIP144.

A transaction is a plain dict:
  {"version": int, "ins": [{"prev": 32 bytes in wire order, "index": int, "script": bytes,
                            "sequence": int, "witness": [bytes, ...]}],
   "outs": [{"value": int, "script": bytes}], "lock_time": int}
"""
import hashlib


def dsha(b):
    return hashlib.sha256(hashlib.sha256(b).digest()).digest()


def csize(n):
    if n < 0xfd:
        return bytes([n])
    if n <= 0xffff:
        return b"\xfd" + n.to_bytes(2, "little")
    if n <= 0xffffffff:
        return b"\xfe" + n.to_bytes(4, "little")
    return b"\xff" + n.to_bytes(8, "little")


def varstr(b):
    return csize(len(b)) + b


class Reader:
    def __init__(self, b, pos=0):
        self.b, self.pos = b, pos

    def take(self, n):
        if n < 0 or self.pos + n > len(self.b):
            raise ValueError("short read")
        r = self.b[self.pos:self.pos + n]
        self.pos += n
        return r

    def u(self, n):
        return int.from_bytes(self.take(n), "little")

    def csize(self):
        t = self.u(1)
        if t < 0xfd:
            return t
        return self.u({0xfd: 2, 0xfe: 4, 0xff: 8}[t])

    def varstr(self):
        return self.take(self.csize())


def has_witness(tx):
    return any(len(i.get("witness") or []) > 0 for i in tx["ins"])


def ser_out(o):
    return o["value"].to_bytes(8, "little") + varstr(o["script"])


def ser_in(i):
    return i["prev"] + i["index"].to_bytes(4, "little") + varstr(i["script"]) + i["sequence"].to_bytes(4, "little")


def serialize(tx, with_witness=True):
    w = with_witness and has_witness(tx)
    out = [(tx["version"] & 0xffffffff).to_bytes(4, "little")]
    if w:
        out.append(b"\x00\x01")
    out.append(csize(len(tx["ins"])))
    out += [ser_in(i) for i in tx["ins"]]
    out.append(csize(len(tx["outs"])))
    out += [ser_out(o) for o in tx["outs"]]
    if w:
        for i in tx["ins"]:
            items = i.get("witness") or []
            out.append(csize(len(items)))
            out += [varstr(it) for it in items]
    out.append(tx["lock_time"].to_bytes(4, "little"))
    return b"".join(out)


def parse(b, allow_trailing=False):
    r = Reader(b)
    version = r.u(4)
    n_in = r.csize()
    w = False
    if n_in == 0:
        flag = r.u(1)
        if flag != 1:
            raise ValueError("bad segwit flag")
        w = True
        n_in = r.csize()
    ins = []
    for _ in range(n_in):
        prev = r.take(32)
        index = r.u(4)
        script = r.varstr()
        seq = r.u(4)
        ins.append({"prev": prev, "index": index, "script": script, "sequence": seq, "witness": []})
    outs = []
    for _ in range(r.csize()):
        v = r.u(8)
        outs.append({"value": v, "script": r.varstr()})
    if w:
        for i in ins:
            i["witness"] = [r.varstr() for _ in range(r.csize())]
    lock_time = r.u(4)
    if r.pos != len(b) and not allow_trailing:
        raise ValueError("trailing bytes")
    return {"version": version, "ins": ins, "outs": outs, "lock_time": lock_time}, r.pos


def txid_bytes(tx):
    """hash as produced by double-SHA256 (wire order); the displayed id is this reversed, in hex."""
    return dsha(serialize(tx, with_witness=False))


def wtxid_bytes(tx):
    return dsha(serialize(tx, with_witness=True))


def txid_hex(tx):
    return txid_bytes(tx)[::-1].hex()


def wtxid_hex(tx):
    return wtxid_bytes(tx)[::-1].hex()


def selftest():
    # the genesis coinbase transaction
    g = bytes.fromhex(
        "01000000010000000000000000000000000000000000000000000000000000000000000000ffffffff4d04ffff001d0104455468652054696d65732030332f4a616e2f"
        "32303039204368616e63656c6c6f72206f6e206272696e6b206f66207365636f6e64206261696c6f757420666f722062616e6b73ffffffff0100f2052a01000000434104"
        "678afdb0fe5548271967f1a67130b7105cd6a828e03909a67962e0ea1f61deb649f6bc3f4cef38c4f35504e51ec112de5c384df7ba0b8d578a4c702b6bf11d5fac00000000")
    tx, n = parse(g)
    assert n == len(g) and serialize(tx) == g
    assert txid_hex(tx) == "4a5e1e4baab89f3a32518a88c31bc87f618f76673e2cc77ab2127b7afdeda33b"
    # BIP143 native P2WPKH example, signed form (BIP143 text)
    s = bytes.fromhex(
        "01000000000102fff7f7881a8099afa6940d42d1e7f6362bec38171ea3edf433541db4e4ad969f00000000494830450221008b9d1dc26ba6a9cb62127b02742fa9d754cd3bebf3"
        "37f7a55d114c8e5cdd30be022040529b194ba3f9281a99f2b1c0a19c0489bc22ede944ccf4ecbab4cc618ef3ed01eeffffffef51e1b804cc89d182d279655c3aa89e815b1b309f"
        "e287d9b2b55d57b90ec68a0100000000ffffffff02202cb206000000001976a9148280b37df378db99f66f85c95a783a76ac7a6d5988ac9093510d000000001976a9143bde42db"
        "ee7e4dbe6a21b2d50ce2f0167faa815988ac000247304402203609e17b84f6a7d30c80bfa610b5b4542f32a8a0d5447a12fb1366d7f01cc44a0220573a954c4518331561406f90"
        "300e8f3358f51928d43c212a8caed02de67eebee0121025476c2e83188368da1ff3e292e7acafcdb3566bb0ad253f62fc70f07aeee635711000000")
    tx, n = parse(s)
    assert n == len(s) and serialize(tx) == s
    assert tx["ins"][0]["witness"] == [] and len(tx["ins"][1]["witness"]) == 2
    assert serialize(tx, False) != s and parse(serialize(tx, False))[0]["ins"][1]["witness"] == []
    for v in (0, 1, 0xfc, 0xfd, 0xfe, 0xffff, 0x10000, 0xffffffff, 0x100000000):
        r = Reader(csize(v))
        assert r.csize() == v
    return 3
