"""Independent block header / block wire serialisation (protocol documentation, "Block Headers", "Serialized Blocks").

header = {"version": u32, "prev": 32 bytes wire order, "root": 32 bytes wire order, "time": u32, "bits": u32, "nonce": u32}
block  = 80-byte header, compact-size transaction count, the transactions (refs/txser form).
The block hash is the double SHA-256 of the 80 header bytes; the displayed id is that hash byte-reversed, in hex.
"""
from . import txser
from . import merkle

HEADER_LEN = 80


def ser_header(h):
    out = bytearray()
    out += h["version"].to_bytes(4, "little")
    out += h["prev"]
    out += h["root"]
    out += h["time"].to_bytes(4, "little")
    out += h["bits"].to_bytes(4, "little")
    out += h["nonce"].to_bytes(4, "little")
    if len(out) != HEADER_LEN:
        raise ValueError("header fields have wrong sizes")
    return bytes(out)


def parse_header(b):
    if len(b) < HEADER_LEN:
        raise ValueError("short header")
    le = lambda a, z: int.from_bytes(b[a:z], "little")
    return {"version": le(0, 4), "prev": bytes(b[4:36]), "root": bytes(b[36:68]), "time": le(68, 72), "bits": le(72, 76),
            "nonce": le(76, 80)}


def block_hash(h):
    return txser.dsha(ser_header(h) if isinstance(h, dict) else bytes(h[:HEADER_LEN]))


def block_id(h):
    return block_hash(h)[::-1].hex()


def ser_block(header, txs):
    return ser_header(header) + txser.csize(len(txs)) + b"".join(txser.serialize(t) for t in txs)


def parse_block(b, allow_trailing=False):
    header = parse_header(b)
    r = txser.Reader(b, HEADER_LEN)
    txs = []
    for _ in range(r.csize()):
        tx, used = txser.parse(b[r.pos:], allow_trailing=True)
        r.pos += used
        txs.append(tx)
    if r.pos != len(b) and not allow_trailing:
        raise ValueError("trailing bytes")
    return header, txs, r.pos


def root_of(txs):
    return merkle.root([txser.txid_bytes(t) for t in txs])


def selftest():
    n = 0
    genesis = {"version": 1, "prev": b"\0" * 32,
               "root": bytes.fromhex("4a5e1e4baab89f3a32518a88c31bc87f618f76673e2cc77ab2127b7afdeda33b")[::-1],
               "time": 1231006505, "bits": 0x1d00ffff, "nonce": 2083236893}
    raw = ser_header(genesis)
    assert len(raw) == 80 and parse_header(raw) == genesis
    assert block_id(genesis) == "000000000019d6689c085ae165831e934ff763ae46a2a6c172b3f1b60a8ce26f"
    n += 1
    # a real three-transaction mainnet block (id 0000000000089f79...ecf1), used as data
    blk = bytes.fromhex(
        "010000007480150b299a16bbce5ccdb1d1bbc65cfc5893b01e6619107c552000000000007900a2b203d24c69710ab6a94beb937e1b1add64c2327e268d8c3e5f8b41db"
        "ed8796974ced66471b204c324703010000000100000000000000000000000000000000000000000000000000000000"
        "00000000ffffffff0804ed66471b024001ffffffff0100f2052a010000004341045fee68bab9915c4edca4c680420ed28bbc369ed84d48ac178e1f5f7eeac455bbe270daba"
        "06802145854b5e29f0a7f816e2df906e0fe4f6d5b4c9b92940e4f0edac000000000100000001f7b30415d1a7bf6db91cb2a272767c6799d721a4178aa328e0d77c199cb3b5"
        "7f010000008a4730440220556f61b84f16e637836d2e74b8cb784de40c28fe3ef93ccb7406504ee9c7caa5022043bd4749d4f3f7f831ac696748ad8d8e79aeb4a1c539e742"
        "aa3256910fc88e170141049a414d94345712893a828de57b4c2054e2f596cdca9d0b4451ba1ca5f8847830b9be6e196450e6abb21c540ea31be310271aa00a49ed0ba93074"
        "3d1ed465bad0ffffffff0200e1f505000000001976a914529a63393d63e980ace6fa885c5a89e4f27aa08988acc0ada41a000000001976a9145d17976537f308865ed533cc"
        "cfdd76558ca3c8f088ac00000000010000000165148d894d3922ef5ffda962be26016635c933d470c8b0ab7618e869e3f70e3c000000008b48304502207f5779ebf4834fea"
        "eff4d250898324eb5c0833b16d7af4c1cb0f66f50fcf6e85022100b78a65377fd018281e77285efc31e5b9ba7cb7e20e015cf6b7fa3e4a466dd195014104072ad79e0aa38c"
        "05fa33dd185f84c17f611e58a8658ce996d8b04395b99c7be36529cab7606900a0cd5a7aebc6b233ea8e0fe60943054c63620e05e5b85f0426ffffffff02404b4c00000000"
        "001976a914d4caa8447532ca8ee4c80a1ae1d230a01e22bfdb88ac8013a0de010000001976a9149661a79ae1f6d487af3420c13e649d6df3747fc288ac00000000")
    header, txs, used = parse_block(blk)
    assert used == len(blk) and len(txs) == 3
    assert block_id(header) == "0000000000089f7910f6755c10ea2795ec368a29b435d80770ad78493a6fecf1"
    assert root_of(txs) == header["root"]
    assert ser_block(header, txs) == blk
    n += 1
    return n
