"""Parser for Bitcoin Core's test-script text syntax (core_read.cpp ParseScript) and flag lists, plus the
crediting/spending transaction pair that script_tests.json is defined against. Independent of pycoin."""
from . import script as RS
from . import sighash as SH
from . import txser

_NAMES = {}
for _n, _v in RS.OP.items():
    if _v >= 0x61 or _n == "RESERVED":
        _NAMES[_n] = _v
        _NAMES["OP_" + _n] = _v


def push_int(n):
    if n == -1 or 1 <= n <= 16:
        return bytes([n + 0x50])
    if n == 0:
        return b"\x00"
    return SH.push_data(RS.num_encode(n))


def parse_script(text):
    out = bytearray()
    for w in text.replace("\t", " ").replace("\n", " ").split(" "):
        if not w:
            continue
        if w.isdigit() or (w[0] == "-" and w[1:].isdigit()):
            out += push_int(int(w))
        elif w.startswith("0x") and len(w) > 2:
            out += bytes.fromhex(w[2:])
        elif len(w) >= 2 and w[0] == "'" and w[-1] == "'":
            out += SH.push_data(w[1:-1].encode())
        elif w in _NAMES:
            out.append(_NAMES[w])
        else:
            raise ValueError("script parse error: %r" % w)
    return bytes(out)


def parse_flags(s):
    v = 0
    for f in s.split(","):
        v |= RS.FLAG_NAMES[f.strip()]
    return v


def credit_spend(script_sig, script_pubkey, witness=(), amount=0, version=1, lock_time=0, sequence=0xffffffff):
    """The (crediting, spending) pair of Core's script_tests; returns the spending tx dict."""
    credit = {"version": 1, "lock_time": 0,
              "ins": [{"prev": b"\0" * 32, "index": 0xffffffff, "script": b"\x00\x00", "sequence": 0xffffffff, "witness": []}],
              "outs": [{"value": amount, "script": script_pubkey}]}
    spend = {"version": version, "lock_time": lock_time,
             "ins": [{"prev": txser.txid_bytes(credit), "index": 0, "script": script_sig, "sequence": sequence,
                      "witness": list(witness)}],
             "outs": [{"value": amount, "script": b""}]}
    return spend


MAX_MONEY = 21000000 * 100000000


def check_transaction(tx):
    """Core CheckTransaction (context-free); returns None if fine, else a reason string."""
    if not tx["ins"]:
        return "vin-empty"
    if not tx["outs"]:
        return "vout-empty"
    if len(txser.serialize(tx, with_witness=False)) * 4 > 4000000:
        return "oversize"
    total = 0
    for o in tx["outs"]:
        v = o["value"]
        if v >= 1 << 63:
            return "vout-negative"
        if v > MAX_MONEY:
            return "vout-toolarge"
        total += v
        if total > MAX_MONEY:
            return "txouttotal-toolarge"
    seen = set()
    for i in tx["ins"]:
        k = (i["prev"], i["index"])
        if k in seen:
            return "inputs-duplicate"
        seen.add(k)
    null = (b"\0" * 32, 0xffffffff)
    if len(tx["ins"]) == 1 and (tx["ins"][0]["prev"], tx["ins"][0]["index"]) == null:
        if not (2 <= len(tx["ins"][0]["script"]) <= 100):
            return "cb-length"
    else:
        for i in tx["ins"]:
            if (i["prev"], i["index"]) == null:
                return "prevout-null"
    return None


def run_script_vector(item):
    """One script_tests.json entry -> (expected_code, got_code)."""
    witness, amount = [], 0
    if isinstance(item[0], list):
        witness = [bytes.fromhex(w) for w in item[0][:-1]]
        amount = int(round(item[0][-1] * 1e8))
        item = item[1:]
    sig, pk, fl, expected = item[:4]
    script_sig, script_pubkey, flags = parse_script(sig), parse_script(pk), parse_flags(fl)
    tx = credit_spend(script_sig, script_pubkey, witness, amount)
    got = RS.result_of(RS.verify_script, script_sig, script_pubkey, witness, flags, RS.TxChecker(tx, 0, amount))
    return expected, got


def run_tx_vector(item):
    """One tx_valid/tx_invalid entry -> True if the transaction is fully valid under the listed flags."""
    prevouts = {}
    for vin in item[0]:
        idx = vin[1] & 0xffffffff
        prevouts[(bytes.fromhex(vin[0])[::-1], idx)] = (parse_script(vin[2]), vin[3] if len(vin) >= 4 else 0)
    tx, _ = txser.parse(bytes.fromhex(item[1]))
    flags = parse_flags(item[2])
    if check_transaction(tx) is not None:
        return False
    for n, i in enumerate(tx["ins"]):
        spk, amount = prevouts[(i["prev"], i["index"])]
        if RS.result_of(RS.verify_script, i["script"], spk, i["witness"], flags, RS.TxChecker(tx, n, amount)) != "OK":
            return False
    return True


def selftest(data_dir):
    """Every vendored Core vector, including the expected error code. Raises AssertionError on any miss."""
    import json
    import os
    n_script = n_tx = 0
    misses = []
    for item in json.load(open(os.path.join(data_dir, "script_tests.json"))):
        if len(item) < 4:
            continue
        exp, got = run_script_vector(item)
        n_script += 1
        if exp != got:
            misses.append(("script", item, exp, got))
    for name, want in (("tx_valid.json", True), ("tx_invalid.json", False)):
        for item in json.load(open(os.path.join(data_dir, name))):
            if len(item) != 3 or not isinstance(item[0], list):
                continue
            n_tx += 1
            try:
                got = run_tx_vector(item)
            except ValueError:
                got = False       # undeserialisable
            if got != want:
                misses.append((name, item[1][:60], want, got))
    assert not misses, "reference interpreter misses %d Core vectors, first: %r" % (len(misses), misses[:3])
    return {"script_vectors": n_script, "tx_vectors": n_tx}
