"""Script numbers and push encoding, ported from the Bitcoin Core semantics (script.h CScriptNum::serialize / set_vch /
the fRequireMinimal test of the CScriptNum constructor; script.cpp GetScriptOp; CScript::operator<<(vector);
interpreter.cpp CheckMinimalPush).  Nothing here imports pycoin.

Integers are unbounded here (Core works on int64_t; the algorithms are the same for any width).
"""

OP_0 = 0x00
OP_PUSHDATA1 = 0x4c
OP_PUSHDATA2 = 0x4d
OP_PUSHDATA4 = 0x4e
OP_1NEGATE = 0x4f
OP_RESERVED = 0x50
OP_1 = 0x51
OP_16 = 0x60
OP_NOP = 0x61
OP_NOP10 = 0xb9
OP_INVALIDOPCODE = 0xff

# Opcodes that carry a name in Core's script.h of the segwit-v0 era and are not push forms.  Used by C12 as the
# "known opcode" alphabet: OP_1NEGATE, OP_RESERVED, OP_1..OP_16, OP_NOP..OP_NOP10 (contiguous), OP_INVALIDOPCODE.
KNOWN_NONPUSH_OPCODES = tuple(range(OP_1NEGATE, OP_NOP10 + 1)) + (OP_INVALIDOPCODE,)


class ScriptNumError(Exception):
    pass


# ---------------------------------------------------------------------------------------------
# CScriptNum

def serialize(value):
    """CScriptNum::serialize: little-endian magnitude, sign in the top bit of the last byte, extra byte when that bit
    is already used by the magnitude.  Zero is the empty vector."""
    if value == 0:
        return b""
    out = []
    neg = value < 0
    absvalue = -value if neg else value
    while absvalue:
        out.append(absvalue & 0xff)
        absvalue >>= 8
    if out[-1] & 0x80:
        out.append(0x80 if neg else 0x00)
    elif neg:
        out[-1] |= 0x80
    return bytes(out)


def set_vch(vch):
    """CScriptNum::set_vch."""
    if len(vch) == 0:
        return 0
    result = 0
    for i, b in enumerate(vch):
        result |= b << (8 * i)
    if vch[-1] & 0x80:
        return -(result & ~(0x80 << (8 * (len(vch) - 1))))
    return result


def is_minimal(vch):
    """The fRequireMinimal test: the most significant byte must not be 0x00/0x80 unless it is needed to keep the sign
    bit of the byte below from being read as a sign."""
    if len(vch) > 0:
        if (vch[-1] & 0x7f) == 0:
            if len(vch) <= 1 or (vch[-2] & 0x80) == 0:
                return False
    return True


def scriptnum(vch, require_minimal=False, max_size=None):
    """CScriptNum(vch, fRequireMinimal, nMaxNumSize) -> int, raising ScriptNumError like scriptnum_error."""
    if max_size is not None and len(vch) > max_size:
        raise ScriptNumError("script number overflow")
    if require_minimal and not is_minimal(vch):
        raise ScriptNumError("non-minimally encoded script number")
    return set_vch(vch)


# ---------------------------------------------------------------------------------------------
# pushes

def _le(n, width):
    return bytes((n >> (8 * i)) & 0xff for i in range(width))


def push_raw(data, form):
    """One specific push form, minimal or not: 'direct', 'pushdata1', 'pushdata2', 'pushdata4'. None if impossible."""
    n = len(data)
    if form == "direct":
        return bytes([n]) + data if 1 <= n <= 75 else None
    if form == "pushdata1":
        return bytes([OP_PUSHDATA1]) + _le(n, 1) + data if n <= 0xff else None
    if form == "pushdata2":
        return bytes([OP_PUSHDATA2]) + _le(n, 2) + data if n <= 0xffff else None
    if form == "pushdata4":
        return bytes([OP_PUSHDATA4]) + _le(n, 4) + data if n <= 0xffffffff else None
    raise ValueError(form)


def minimal_form(data):
    """Name of the only push form CheckMinimalPush accepts for `data`."""
    n = len(data)
    if n == 0:
        return "op_0"
    if n == 1 and 1 <= data[0] <= 16:
        return "op_n"
    if n == 1 and data[0] == 0x81:
        return "op_1negate"
    if n <= 75:
        return "direct"
    if n <= 0xff:
        return "pushdata1"
    if n <= 0xffff:
        return "pushdata2"
    return "pushdata4"


def push_encode(data):
    """The minimal (and shortest) push of `data`."""
    form = minimal_form(data)
    if form == "op_0":
        return bytes([OP_0])
    if form == "op_n":
        return bytes([OP_1 + data[0] - 1])
    if form == "op_1negate":
        return bytes([OP_1NEGATE])
    return push_raw(data, form)


def all_push_forms(data):
    """Every byte encoding that pushes exactly `data` (shortest first is not guaranteed)."""
    out = [push_encode(data)]
    for form in ("direct", "pushdata1", "pushdata2", "pushdata4"):
        p = push_raw(data, form)
        if p is not None and p not in out:
            out.append(p)
    return out


def get_op(script, pc):
    """GetScriptOp: (ok, opcode, data_or_None, new_pc).  ok False: the instruction at pc cannot be read (pc at end,
    length field short, or data short).  For OP_0 data is b'' as in Core (pvchRet cleared); for non-push opcodes
    (> OP_PUSHDATA4) data is None."""
    end = len(script)
    if pc >= end:
        return (False, OP_INVALIDOPCODE, None, pc)
    opcode = script[pc]
    pc += 1
    if opcode > OP_PUSHDATA4:
        return (True, opcode, None, pc)
    if opcode < OP_PUSHDATA1:
        size = opcode
    else:
        width = {OP_PUSHDATA1: 1, OP_PUSHDATA2: 2, OP_PUSHDATA4: 4}[opcode]
        if end - pc < width:
            return (False, opcode, None, pc)
        size = 0
        for i in range(width):
            size |= script[pc + i] << (8 * i)
        pc += width
    if end - pc < size:
        return (False, opcode, None, pc)
    return (True, opcode, bytes(script[pc:pc + size]), pc + size)


def stack_value(opcode, data):
    """What an executed instruction pushes: the data of a push, the one-byte number of OP_1NEGATE / OP_1..16, or None."""
    if opcode <= OP_PUSHDATA4:
        return data
    if opcode == OP_1NEGATE:
        return b"\x81"
    if OP_1 <= opcode <= OP_16:
        return bytes([opcode - OP_1 + 1])
    return None


def check_minimal_push(data, opcode):
    """interpreter.cpp CheckMinimalPush(data, opcode) for opcode <= OP_PUSHDATA4."""
    n = len(data)
    if n == 0:
        return opcode == OP_0
    if n == 1 and 1 <= data[0] <= 16:
        return opcode == OP_1 + (data[0] - 1)
    if n == 1 and data[0] == 0x81:
        return opcode == OP_1NEGATE
    if n <= 75:
        return opcode == n
    if n <= 255:
        return opcode == OP_PUSHDATA1
    if n <= 65535:
        return opcode == OP_PUSHDATA2
    return True


def parse(script):
    """List of (opcode, data, pc, new_pc) for a fully parsable script, or None."""
    out = []
    pc = 0
    while pc < len(script):
        ok, op, data, npc = get_op(script, pc)
        if not ok:
            return None
        out.append((op, data, pc, npc))
        pc = npc
    return out


# ---------------------------------------------------------------------------------------------

def selftest():
    n = 0
    # hand-derived encodings at every width boundary (definition of sign-magnitude LE)
    vec = {0: "", 1: "01", -1: "81", 16: "10", 17: "11", 127: "7f", -127: "ff", 128: "8000", -128: "8080",
           129: "8100", 255: "ff00", -255: "ff80", 256: "0001", -256: "0081", 32767: "ff7f", -32767: "ffff",
           32768: "008000", -32768: "008080", 65535: "ffff00", 65536: "000001", 8388607: "ffff7f",
           8388608: "00008000", -8388608: "00008080", 2147483647: "ffffff7f", -2147483647: "ffffffff",
           2147483648: "0000008000", -2147483648: "0000008080", 4294967295: "ffffffff00",
           (1 << 63) - 1: "ffffffffffffff7f", -(1 << 63) + 1: "ffffffffffffffff", 1 << 63: "000000000000008000"}
    for v, h in vec.items():
        assert serialize(v) == bytes.fromhex(h), (v, h, serialize(v).hex())
        assert set_vch(bytes.fromhex(h)) == v and is_minimal(bytes.fromhex(h)), (v, h)
        n += 1
    # Bitcoin Core script_tests.json: operands that MINIMALDATA refuses as numbers, with the value they denote and,
    # where the file names it, the minimal encoding
    core_nonminimal = [("00", 0, ""), ("0000", 0, ""), ("80", 0, ""), ("0080", 0, ""), ("0500", 5, "05"),
                       ("050000", 5, "05"), ("0580", -5, "85"), ("050080", -5, "85"), ("ff7f80", -0x7fff, "ffff"),
                       ("ff7f00", 0x7fff, "ff7f"), ("ffff7f80", -0x7fffff, "ffffff"), ("ffff7f00", 0x7fffff, "ffff7f"),
                       ("0100", 1, "01"), ("0180", -1, "81"), ("1000", 16, "10")]
    for h, v, m in core_nonminimal:
        b = bytes.fromhex(h)
        assert not is_minimal(b) and set_vch(b) == v and serialize(v) == bytes.fromhex(m), h
        try:
            scriptnum(b, True)
            raise AssertionError(h)
        except ScriptNumError:
            pass
        n += 1
    # bijection laws, exhaustively on a range and at powers of two
    vals = list(range(-70000, 70001))
    for k in range(0, 90):
        for d in (-1, 0, 1):
            vals += [(1 << k) + d, -((1 << k) + d)]
    seen = {}
    for v in vals:
        s = serialize(v)
        assert set_vch(s) == v and is_minimal(s), v
        assert seen.setdefault(s, v) == v               # injective
        assert len(s) == (0 if v == 0 else abs(v).bit_length() // 8 + 1), v      # shortest width that leaves a sign bit
        n += 1
    # every byte string of length <= 2: minimal iff it is the serialisation of its own value
    for L in range(3):
        for x in range(256 ** L):
            b = x.to_bytes(L, "little")
            assert is_minimal(b) == (serialize(set_vch(b)) == b), b.hex()
            n += 1
    for x in range(0, 1 << 24, 97):
        b = x.to_bytes(3, "little")
        assert is_minimal(b) == (serialize(set_vch(b)) == b), b.hex()
    # size limit
    assert scriptnum(b"\xff\xff\xff\x7f", True, 4) == 0x7fffffff
    try:
        scriptnum(b"\x00\x00\x00\x80\x00", True, 4)
        raise AssertionError("overflow")
    except ScriptNumError:
        pass

    # pushes.  Core script_tests.json MINIMALDATA cases (scriptSig given as raw bytes):
    d72, d255, d256 = b"\x11" * 72, b"\x11" * 255, b"\x11" * 256
    core_bad_push = [bytes.fromhex("4c00"), bytes.fromhex("0181")] + [bytes([1, i]) for i in range(1, 17)] + \
                    [b"\x4c\x48" + d72, b"\x4d\xff\x00" + d255, b"\x4e\x00\x01\x00\x00" + d256]
    for p in core_bad_push:
        ok, op, data, npc = get_op(p, 0)
        assert ok and npc == len(p) and not check_minimal_push(data, op), p[:6].hex()
        assert len(push_encode(data)) < len(p)
        n += 1
    core_good_push = [bytes.fromhex(h) for h in ("0100", "0180", "020180", "020100", "021000", "00", "4f", "51", "60")]
    for p in core_good_push:
        ok, op, data, npc = get_op(p, 0)
        assert ok and npc == len(p) and check_minimal_push(stack_value(op, data), op), p.hex()
        n += 1
    # boundaries of the encoder, written out by hand
    assert push_encode(b"") == b"\x00" and push_encode(b"\x00") == b"\x01\x00" and push_encode(b"\x11") == b"\x01\x11"
    assert push_encode(b"\x01") == b"\x51" and push_encode(b"\x10") == b"\x60" and push_encode(b"\x81") == b"\x4f"
    assert push_encode(b"\x80") == b"\x01\x80" and push_encode(b"\x01\x00") == b"\x02\x01\x00"
    assert push_encode(b"a" * 75)[:2] == b"\x4ba" and push_encode(b"a" * 76)[:3] == b"\x4c\x4ca"
    assert push_encode(b"a" * 255)[:3] == b"\x4c\xffa" and push_encode(b"a" * 256)[:4] == b"\x4d\x00\x01a"
    assert push_encode(b"a" * 65535)[:4] == b"\x4d\xff\xffa" and push_encode(b"a" * 65536)[:6] == b"\x4e\x00\x00\x01\x00a"
    # closure: the minimal push is the unique shortest form, decodes to its data, and is the only accepted one
    lengths = list(range(0, 300)) + [519, 520, 521, 65534, 65535, 65536, 65537, 70000]
    for L in lengths:
        for fill in (0x00, 0x01, 0x81, 0xa7):
            d = bytes([fill]) * L
            forms = all_push_forms(d)
            m = forms[0]
            for p in forms:
                ok, op, data, npc = get_op(p, 0)
                assert ok and npc == len(p), (L, p[:6].hex())
                assert stack_value(op, data) == d
                assert check_minimal_push(d, op) == (p == m), (L, fill, p[:6].hex())
                assert p == m or len(p) > len(m)
                # every proper prefix is unreadable
                cuts = range(1, len(p)) if len(p) < 90 else [1, 2, 3, 4, 5, 6, len(p) // 2, len(p) - 1]
                for c in cuts:
                    assert get_op(p[:c], 0)[0] is False, (L, c)
            n += 1
    assert get_op(b"", 0)[0] is False
    assert parse(bytes.fromhex("00514f0100024d4e76a9")) == [(0, b"", 0, 1), (0x51, None, 1, 2), (0x4f, None, 2, 3),
                                                            (1, b"\x00", 3, 5), (2, b"\x4d\x4e", 5, 8),
                                                            (0x76, None, 8, 9), (0xa9, None, 9, 10)]
    assert parse(bytes.fromhex("4d51")) is None and parse(bytes.fromhex("4c")) is None and parse(bytes.fromhex("0200")) is None
    return n
