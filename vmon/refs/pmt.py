"""Partial merkle tree (BIP37 "merkleblock"), port of Bitcoin Core's CPartialMerkleTree: build AND extract.

Written from the BIP37 text ("Partial Merkle branch format", "Constructing a partial merkle tree object",
"Parsing a partial merkle tree object") and merkleblock.cpp. Hashes are 32-byte strings in wire order.

  build(txids, matches)            -> (total, hashes, flag_bytes)     honest depth-first construction
  build_with(txids, expand)        -> (total, hashes, flag_bytes)     same traversal, caller decides each flag bit
                                                                      (used to forge CVE-2012-2459 style proofs)
  extract(total, hashes, flag_bytes, ...) -> Result                   Core's ExtractMatches; .ok False = rejected

Two places where this port is parametrised because sources differ:
  * Core only requires that the *number of flag bytes* equals the number needed ((bits_used+7)//8); it ignores
    set bits in the padding of the last byte. `strict_padding=True` additionally rejects set padding bits.
  * Core rejects total > MAX_BLOCK_WEIGHT / MIN_TRANSACTION_WEIGHT; that is policy of one network,
    enabled only when `max_total` is given.
"""
from .merkle import dsha, width, height


def pack_bits(bits):
    out = bytearray((len(bits) + 7) // 8)
    for p, b in enumerate(bits):
        if b:
            out[p >> 3] |= 1 << (p & 7)
    return bytes(out)


def unpack_bits(flag_bytes):
    return [(flag_bytes[p >> 3] >> (p & 7)) & 1 for p in range(8 * len(flag_bytes))]


def calc_hash(txids, h, pos):
    if h == 0:
        return bytes(txids[pos])
    left = calc_hash(txids, h - 1, 2 * pos)
    right = calc_hash(txids, h - 1, 2 * pos + 1) if 2 * pos + 1 < width(len(txids), h - 1) else left
    return dsha(left + right)


def build_with(txids, expand):
    """expand(height, pos) -> flag bit of that node. At height 0 the bit means 'matched'."""
    n = len(txids)
    if n == 0:
        raise ValueError("no transactions")
    bits, hashes = [], []

    def walk(h, pos):
        bit = 1 if expand(h, pos) else 0
        bits.append(bit)
        if h == 0 or not bit:
            hashes.append(calc_hash(txids, h, pos))
            return
        walk(h - 1, 2 * pos)
        if 2 * pos + 1 < width(n, h - 1):
            walk(h - 1, 2 * pos + 1)

    walk(height(n), 0)
    return n, hashes, pack_bits(bits), len(bits)


def build(txids, matches):
    """matches: iterable of leaf positions (or a list of booleans of the same length as txids)."""
    n = len(txids)
    if isinstance(matches, (list, tuple)) and len(matches) == n and all(isinstance(m, bool) for m in matches):
        mset = {i for i, m in enumerate(matches) if m}
    else:
        mset = set(matches)
    if any(not 0 <= m < n for m in mset):
        raise ValueError("match position outside the block")

    def parent_of_match(h, pos):
        lo, hi = pos << h, min((pos + 1) << h, n)
        return any(p in mset for p in range(lo, hi))

    total, hashes, flag_bytes, _ = build_with(txids, parent_of_match)
    return total, hashes, flag_bytes


def bits_used_by_honest(txids, matches):
    n = len(txids)
    mset = set(matches)
    return build_with(txids, lambda h, pos: any(p in mset for p in range(pos << h, min((pos + 1) << h, n))))[3]


class Result:
    def __init__(self):
        self.ok = False
        self.why = None
        self.root = None
        self.matches = []
        self.indexes = []
        self.bits_used = 0
        self.hashes_used = 0

    def __repr__(self):
        return "Result(ok=%s why=%s matches=%d)" % (self.ok, self.why, len(self.matches))


def extract(total, hashes, flag_bytes, strict_padding=False, max_total=None):
    res = Result()

    def fail(why):
        res.ok, res.why = False, why
        return res

    if total == 0:
        return fail("no transactions")
    if max_total is not None and total > max_total:
        return fail("too many transactions")
    if len(hashes) > total:
        return fail("more hashes than transactions")
    bits = unpack_bits(flag_bytes)
    if len(bits) < len(hashes):
        return fail("fewer bits than hashes")
    state = {"bits": 0, "hashes": 0, "bad": None}

    def walk(h, pos):
        if state["bits"] >= len(bits):
            state["bad"] = state["bad"] or "ran out of flag bits"
            return b"\0" * 32
        bit = bits[state["bits"]]
        state["bits"] += 1
        if h == 0 or not bit:
            if state["hashes"] >= len(hashes):
                state["bad"] = state["bad"] or "ran out of hashes"
                return b"\0" * 32
            hv = bytes(hashes[state["hashes"]])
            state["hashes"] += 1
            if h == 0 and bit:
                res.matches.append(hv)
                res.indexes.append(pos)
            return hv
        left = walk(h - 1, 2 * pos)
        if 2 * pos + 1 < width(total, h - 1):
            right = walk(h - 1, 2 * pos + 1)
            if right == left:
                state["bad"] = state["bad"] or "identical left and right"
        else:
            right = left
        return dsha(left + right)

    root = walk(height(total), 0)
    res.bits_used, res.hashes_used = state["bits"], state["hashes"]
    if state["bad"]:
        return fail(state["bad"])
    if (state["bits"] + 7) // 8 != len(flag_bytes):
        return fail("unused flag bytes")
    if strict_padding and any(bits[state["bits"]:]):
        return fail("padding bits set")
    if state["hashes"] != len(hashes):
        return fail("unused hashes")
    res.ok, res.root = True, root
    return res


def selftest():
    """build -> extract closure for every match subset of every tree of <= 9 leaves (plus sampled larger trees),
    root equal to the level-by-level definition, and the documented example message of the developer reference."""
    import hashlib
    from . import merkle
    n_cases = 0
    for n in list(range(1, 10)) + [12, 16, 17, 31, 33, 100]:
        txids = [hashlib.sha256(b"pmt %d %d" % (n, i)).digest() for i in range(n)]
        want_root = merkle.root(txids)
        if n <= 9:
            subsets = range(1 << n)
        else:
            subsets = [0, (1 << n) - 1, 1, 1 << (n - 1), (1 << (n - 1)) | 1, 0x5555555555555555555555555 & ((1 << n) - 1),
                       ((1 << n) - 1) ^ 2]
        for mask in subsets:
            matches = [i for i in range(n) if mask >> i & 1]
            total, hashes, fb = build(txids, matches)
            assert total == n
            for strict in (False, True):
                r = extract(total, hashes, fb, strict_padding=strict)
                assert r.ok, (n, mask, r.why)
                assert r.root == want_root
                assert r.indexes == matches and r.matches == [txids[i] for i in matches]
            # size bounds from BIP37: at most one hash per leaf plus inner nodes cut off; bits = nodes visited
            assert len(hashes) <= n and len(fb) == (bits_used_by_honest(txids, matches) + 7) // 8
            # corruptions the port must reject on its own account
            assert not extract(total, hashes + [hashes[-1]], fb).ok
            assert not extract(total, hashes[:-1], fb).ok
            assert not extract(total, hashes, fb + b"\0").ok
            used = bits_used_by_honest(txids, matches)
            if used % 8:
                bad = bytearray(fb)
                bad[-1] |= 0x80
                assert extract(total, hashes, bytes(bad)).ok            # Core tolerates padding
                assert not extract(total, hashes, bytes(bad), strict_padding=True).ok
            r = extract(total, [bytes([hashes[0][0] ^ 1]) + hashes[0][1:]] + hashes[1:], fb)
            assert (not r.ok) or r.root != want_root
            n_cases += 1
    # CVE-2012-2459: [a,b,c] and [a,b,c,c] have one root; a proof matching both copies must be refused
    a, b, c = (hashlib.sha256(x).digest() for x in (b"a", b"b", b"c"))
    assert merkle.root([a, b, c]) == merkle.root([a, b, c, c])
    total, hashes, fb = build([a, b, c, c], [2, 3])
    r = extract(total, hashes, fb)
    assert not r.ok and r.why == "identical left and right"
    n_cases += 1
    # the merkleblock example of the Bitcoin developer reference (7 transactions, 4 hashes, flags 0x1d)
    hs = [bytes.fromhex(x) for x in (
        "3612262624047ee87660be1a707519a443b1c1ce3d248cbfc6c15870f6c5daa2",
        "019f5b01d4195ecbc9398fbf3c3b1fa9bb3183301d7a1fb3bd174fcfa40a2b65",
        "41ed70551dd7e841883ab8f0b16bf04176b7d1480e4f0af9f3d4c3595768d068",
        "20d2a7bc994987302e5b1ac80fc425fe25f8b63169ea78e68fbaaefa59379bbf")]
    r = extract(7, hs, b"\x1d", strict_padding=True)
    doc = r.ok and r.root == bytes.fromhex("7f16c5962e8bd963659c793ce370d95f093bc7e367117b3c30c1f8fdd0d97287")
    # a recalled vector is only admitted when it agrees (a 256-bit root cannot agree by accident)
    if doc:
        assert r.indexes == [4] and r.matches == [hs[1]] and r.bits_used == 7
        n_cases += 1
    return {"closure_cases": n_cases, "developer_reference_example_admitted": bool(doc)}
