"""Independent Base58 / Base58Check reference (written from the format description)."""
import hashlib

ALPHABET = "123456789ABCDEFGHJKLMNPQRSTUVWXYZabcdefghijkmnopqrstuvwxyz"
_IDX = {c: i for i, c in enumerate(ALPHABET)}


def dsha(b):
    return hashlib.sha256(hashlib.sha256(b).digest()).digest()


def encode(b):
    nz = len(b) - len(b.lstrip(b"\0"))
    n = int.from_bytes(b, "big")
    out = ""
    while n:
        n, r = divmod(n, 58)
        out = ALPHABET[r] + out
    return "1" * nz + out


def decode(s):
    """Returns bytes, or None when a character is outside the alphabet."""
    n = 0
    for ch in s:
        if ch not in _IDX:
            return None
        n = n * 58 + _IDX[ch]
    nz = len(s) - len(s.lstrip("1"))
    body = n.to_bytes((n.bit_length() + 7) // 8, "big") if n else b""
    return b"\0" * nz + body


def encode_check(payload):
    return encode(payload + dsha(payload)[:4])


def decode_check(s):
    """payload or None (bad alphabet, too short, or checksum mismatch)."""
    raw = decode(s)
    if raw is None or len(raw) < 4:
        return None
    if dsha(raw[:-4])[:4] != raw[-4:]:
        return None
    return raw[:-4]


def selftest():
    # published vectors (Bitcoin wiki / bitcoin core base58_encode_decode.json)
    vec = [("", ""), ("61", "2g"), ("626262", "a3gV"), ("636363", "aPEr"),
           ("73696d706c792061206c6f6e6720737472696e67", "2cFupjhnEsSn59qHXstmK2ffpLv2"),
           ("00eb15231dfceb60925886b67d065299925915aeb172c06647", "1NS17iag9jJgTHD1VXjvLCEnZuQ3rJDE9L"),
           ("516b6fcd0f", "ABnLTmg"), ("bf4f89001e670274dd", "3SEo3LWLoPntC"), ("572e4794", "3EFU7m"),
           ("ecac89cad93923c02321", "EJDM8drfXA6uyA"), ("10c8511e", "Rt5zm"), ("00000000000000000000", "1111111111"),
           ("000111d38e5fc9071ffcd20b4a763cc9ae4f252bb4e48fd66a835e252ada93ff480d6dd43dc62a641155a5", ALPHABET)]
    for h, a in vec:
        assert encode(bytes.fromhex(h)) == a, (h, a)
        assert decode(a) == bytes.fromhex(h), (h, a)
    # the genesis-coinbase address
    assert encode_check(bytes.fromhex("0062e907b15cbf27d5425399ebf6f0fb50ebb88f18")) == "1A1zP1eP5QGefi2DMPTfTL5SLmv7DivfNa"
    assert decode_check("1A1zP1eP5QGefi2DMPTfTL5SLmv7DivfNa") == bytes.fromhex("0062e907b15cbf27d5425399ebf6f0fb50ebb88f18")
    assert decode_check("1A1zP1eP5QGefi2DMPTfTL5SLmv7DivfNb") is None
    return len(vec) + 3
