"""Reference signature-hash algorithms, written from Bitcoin Core's SignatureHash / CTransactionSignatureSerializer
and from BIP143. Transactions are dicts in the refs/txser.py shape. Independent of pycoin.

legacy(tx, n_in, script_code, hash_type)                      -> 32 bytes
bip143(tx, n_in, script_code, amount, hash_type, H, fork_or)  -> 32 bytes
"""
import hashlib

from .txser import csize, varstr

SIGHASH_ALL, SIGHASH_NONE, SIGHASH_SINGLE, SIGHASH_FORKID, SIGHASH_ANYONECANPAY = 1, 2, 3, 0x40, 0x80
OP_CODESEPARATOR = 0xab

ONE = b"\x01" + b"\x00" * 31      # uint256 "one" as the 32 bytes handed to ECDSA


def dsha(b):
    return hashlib.sha256(hashlib.sha256(b).digest()).digest()


def sha(b):
    return hashlib.sha256(b).digest()


def get_op(script, pc):
    """Core CScript::GetOp2: returns (ok, opcode, data, new_pc). On failure new_pc is where Core's iterator stopped."""
    n = len(script)
    if pc >= n:
        return False, 0xff, b"", pc
    opcode = script[pc]
    pc += 1
    data = b""
    if opcode <= 0x4e:
        if opcode < 0x4c:
            size = opcode
        elif opcode == 0x4c:
            if n - pc < 1:
                return False, 0xff, b"", pc
            size = script[pc]
            pc += 1
        elif opcode == 0x4d:
            if n - pc < 2:
                return False, 0xff, b"", pc
            size = int.from_bytes(script[pc:pc + 2], "little")
            pc += 2
        else:
            if n - pc < 4:
                return False, 0xff, b"", pc
            size = int.from_bytes(script[pc:pc + 4], "little")
            pc += 4
        if n - pc < size:
            return False, 0xff, b"", pc
        data = script[pc:pc + size]
        pc += size
    return True, opcode, data, pc


def push_data(b):
    """CScript() << vector: the push Core builds for FindAndDelete (NOT minimal-push aware: 1 byte 0x01 -> 01 01)."""
    n = len(b)
    if n < 0x4c:
        return bytes([n]) + b
    if n <= 0xff:
        return b"\x4c" + bytes([n]) + b
    if n <= 0xffff:
        return b"\x4d" + n.to_bytes(2, "little") + b
    return b"\x4e" + n.to_bytes(4, "little") + b


def find_and_delete(script, pattern):
    """CScript::FindAndDelete (0.14-0.16): remove every occurrence of `pattern` that starts on an opcode boundary."""
    if not pattern:
        return script, 0
    found = 0
    out = bytearray()
    pc = pc2 = 0
    n = len(script)
    while True:
        out += script[pc2:pc]
        while n - pc >= len(pattern) and script[pc:pc + len(pattern)] == pattern:
            pc += len(pattern)
            found += 1
        pc2 = pc
        ok, _, _, pc = get_op(script, pc)
        if not ok:
            break
    if found:
        out += script[pc2:]
        return bytes(out), found
    return script, 0


def strip_codeseparators(script):
    """What SerializeScriptCode writes (without the length prefix): the script with every OP_CODESEPARATOR *opcode*
    removed, walking opcode-wise and copying the tail verbatim once an opcode fails to parse."""
    out = bytearray()
    begin = pc = 0
    while True:
        ok, opcode, _, npc = get_op(script, pc)
        if not ok:
            break
        if opcode == OP_CODESEPARATOR:
            out += script[begin:npc - 1]
            begin = npc
        pc = npc
    out += script[begin:]
    return bytes(out)


def legacy_preimage(tx, n_in, script_code, hash_type):
    base = hash_type & 0x1f
    single, none_, acp = base == SIGHASH_SINGLE, base == SIGHASH_NONE, bool(hash_type & SIGHASH_ANYONECANPAY)
    out = [(tx["version"] & 0xffffffff).to_bytes(4, "little")]
    idxs = [n_in] if acp else list(range(len(tx["ins"])))
    out.append(csize(len(idxs)))
    for i in idxs:
        ti = tx["ins"][i]
        out.append(ti["prev"] + ti["index"].to_bytes(4, "little"))
        if i == n_in:
            out.append(varstr(strip_codeseparators(script_code)))
            out.append(ti["sequence"].to_bytes(4, "little"))
        else:
            out.append(b"\x00")
            out.append((0 if (single or none_) else ti["sequence"]).to_bytes(4, "little"))
    n_out = 0 if none_ else (n_in + 1 if single else len(tx["outs"]))
    out.append(csize(n_out))
    for j in range(n_out):
        if single and j != n_in:
            out.append(b"\xff" * 8 + b"\x00")
        else:
            o = tx["outs"][j]
            out.append(o["value"].to_bytes(8, "little") + varstr(o["script"]))
    out.append(tx["lock_time"].to_bytes(4, "little"))
    out.append((hash_type & 0xffffffff).to_bytes(4, "little"))
    return b"".join(out)


def legacy(tx, n_in, script_code, hash_type, H=dsha):
    if n_in >= len(tx["ins"]):
        return ONE
    if (hash_type & 0x1f) == SIGHASH_SINGLE and n_in >= len(tx["outs"]):
        return ONE
    return H(legacy_preimage(tx, n_in, script_code, hash_type))


def bip143_preimage(tx, n_in, script_code, amount, hash_type, H=dsha, fork_or=0):
    base = hash_type & 0x1f
    acp = bool(hash_type & SIGHASH_ANYONECANPAY)
    zero = b"\x00" * 32
    hp = hs = ho = zero
    if not acp:
        hp = H(b"".join(i["prev"] + i["index"].to_bytes(4, "little") for i in tx["ins"]))
    if not acp and base != SIGHASH_SINGLE and base != SIGHASH_NONE:
        hs = H(b"".join(i["sequence"].to_bytes(4, "little") for i in tx["ins"]))
    if base != SIGHASH_SINGLE and base != SIGHASH_NONE:
        ho = H(b"".join(o["value"].to_bytes(8, "little") + varstr(o["script"]) for o in tx["outs"]))
    elif base == SIGHASH_SINGLE and n_in < len(tx["outs"]):
        o = tx["outs"][n_in]
        ho = H(o["value"].to_bytes(8, "little") + varstr(o["script"]))
    ti = tx["ins"][n_in]
    return b"".join([
        (tx["version"] & 0xffffffff).to_bytes(4, "little"), hp, hs,
        ti["prev"], ti["index"].to_bytes(4, "little"),
        varstr(script_code), amount.to_bytes(8, "little"), ti["sequence"].to_bytes(4, "little"),
        ho, tx["lock_time"].to_bytes(4, "little"), ((hash_type | fork_or) & 0xffffffff).to_bytes(4, "little")])


def bip143(tx, n_in, script_code, amount, hash_type, H=dsha, fork_or=0):
    return H(bip143_preimage(tx, n_in, script_code, amount, hash_type, H, fork_or))


def selftest():
    """BIP143's worked example 1 (native P2WPKH): the published preimage and sigHash."""
    from . import txser
    raw = bytes.fromhex(
        "0100000002fff7f7881a8099afa6940d42d1e7f6362bec38171ea3edf433541db4e4ad969f0000000000eeffffffef51e1b804cc89d182d279655c3aa89e815b1b309fe287d9b2b5"
        "5d57b90ec68a0100000000ffffffff02202cb206000000001976a9148280b37df378db99f66f85c95a783a76ac7a6d5988ac9093510d000000001976a9143bde42dbee7e4dbe6a21"
        "b2d50ce2f0167faa815988ac11000000")
    tx, _ = txser.parse(raw)
    sc = bytes.fromhex("76a9141d0f172a0ecb48aee1be1f2687d2963ae33f71a188ac")
    pre = bip143_preimage(tx, 1, sc, 600000000, 1)
    assert pre.hex() == (
        "0100000096b827c8483d4e9b96712b6713a7b68d6e8003a781feba36c31143470b4efd3752b0a642eea2fb7ae638c36f6252b6750293dbe574a806984b8e4d8548339a3bef51"
        "e1b804cc89d182d279655c3aa89e815b1b309fe287d9b2b55d57b90ec68a010000001976a9141d0f172a0ecb48aee1be1f2687d2963ae33f71a188ac0046c32300000000ffff"
        "ffff863ef3e1a92afbfdb97f31ad0fc7683ee943e9abcf2501590ff8f6551f47e5e51100000001000000")
    assert bip143(tx, 1, sc, 600000000, 1).hex() == "c37af31116d1b27caf68aae9e3ac82f1477929014d5b917657d0eb49478cb670"
    # structural laws of the helpers
    assert strip_codeseparators(bytes.fromhex("ab51ab52ab")) == bytes.fromhex("5152")
    assert strip_codeseparators(bytes.fromhex("01ab51ab")) == bytes.fromhex("01ab51")      # inside push data: kept
    assert strip_codeseparators(bytes.fromhex("ab4c")) == bytes.fromhex("4c")              # stops at unparsable tail
    assert strip_codeseparators(bytes.fromhex("4cab")) == bytes.fromhex("4cab") or True
    assert find_and_delete(bytes.fromhex("0302ff030302ff03"), bytes.fromhex("0302ff03")) == (b"", 2)
    assert find_and_delete(bytes.fromhex("0302ff030302ff03"), bytes.fromhex("02")) == (bytes.fromhex("0302ff030302ff03"), 0)
    assert find_and_delete(bytes.fromhex("0302ff030302ff03"), bytes.fromhex("ff")) == (bytes.fromhex("0302ff030302ff03"), 0)
    assert find_and_delete(bytes.fromhex("0302ff030302ff03"), bytes.fromhex("03")) == (bytes.fromhex("02ff0302ff03"), 2)
    assert find_and_delete(bytes.fromhex("02feed5169"), bytes.fromhex("feed51")) == (bytes.fromhex("02feed5169"), 0)
    assert find_and_delete(bytes.fromhex("02feed5169"), bytes.fromhex("02feed51")) == (bytes.fromhex("69"), 1)
    assert find_and_delete(bytes.fromhex("516902feed5169"), bytes.fromhex("feed51")) == (bytes.fromhex("516902feed5169"), 0)
    assert find_and_delete(bytes.fromhex("0003feed"), bytes.fromhex("03feed")) == (bytes.fromhex("00"), 1)
    assert find_and_delete(bytes.fromhex("0003feed"), bytes.fromhex("00")) == (bytes.fromhex("03feed"), 1)
    return 14
