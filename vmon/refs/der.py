"""Independent DER codec for ECDSA signatures  SEQUENCE { INTEGER r, INTEGER s }  (X.690 sections 8.1.3, 8.3, 10.1).

encode(r, s)          the unique DER encoding (r, s any integers, negative allowed: two's complement)
decode_strict(b)      (r, s) iff b is exactly that unique encoding of some pair, else None
decode_notrail(b)     BER-tolerant structural parse that enforces ONLY what property C10 names for the strict decoder:
                      tags 30 / 02 / 02, definite lengths (short or long form, any padding of the length), integers that
                      fit, NO bytes after the sequence and NO bytes after the second integer.  Returns
                      ("ok", (r, s)) or (reason, None) with reason in {"trailing", "malformed"}.

Nothing here imports pycoin.
"""
import itertools


def _int_content(v):
    """minimal two's-complement big-endian content octets of v (X.690 8.3.2: no redundant leading 00 / ff)."""
    if v >= 0:
        n = v.bit_length() // 8 + 1           # room for the sign bit
    else:
        n = (v + 1).bit_length() // 8 + 1
    return v.to_bytes(n, "big", signed=True)


def _int_content_slow(v):
    """same thing by trial: the shortest length whose signed decoding gives v back."""
    n = 1
    while True:
        try:
            return v.to_bytes(n, "big", signed=True)
        except OverflowError:
            n += 1


def _len(n):
    if n < 0x80:
        return bytes([n])
    b = n.to_bytes((n.bit_length() + 7) // 8, "big")
    return bytes([0x80 | len(b)]) + b


def encode_integer(v):
    c = _int_content(v)
    return b"\x02" + _len(len(c)) + c


def encode(r, s):
    body = encode_integer(r) + encode_integer(s)
    return b"\x30" + _len(len(body)) + body


def _read_len(b, i, strict):
    """-> (length, next index) or None."""
    if i >= len(b):
        return None
    f = b[i]
    if f < 0x80:
        return f, i + 1
    k = f & 0x7f
    if k == 0 or i + 1 + k > len(b):          # indefinite form / truncated
        return None
    v = int.from_bytes(b[i + 1:i + 1 + k], "big")
    if strict and (v < 0x80 or b[i + 1] == 0):  # DER: shortest form
        return None
    return v, i + 1 + k


def _read_int(b, i, end, strict):
    if i >= end or b[i] != 2:
        return None
    r = _read_len(b[:end], i + 1, strict)
    if r is None:
        return None
    n, j = r
    if n == 0 or j + n > end:
        return None
    c = b[j:j + n]
    if strict and n > 1 and ((c[0] == 0 and c[1] < 0x80) or (c[0] == 0xff and c[1] >= 0x80)):
        return None
    return int.from_bytes(c, "big", signed=True), j + n


def decode_strict(b):
    b = bytes(b)
    if len(b) < 2 or b[0] != 0x30:
        return None
    r = _read_len(b, 1, True)
    if r is None:
        return None
    n, i = r
    if i + n != len(b):
        return None
    a = _read_int(b, i, len(b), True)
    if a is None:
        return None
    rv, i = a
    a = _read_int(b, i, len(b), True)
    if a is None:
        return None
    sv, i = a
    if i != len(b):
        return None
    return rv, sv


def decode_notrail(b):
    b = bytes(b)
    if len(b) < 2 or b[0] != 0x30:
        return ("malformed", None)
    r = _read_len(b, 1, False)
    if r is None:
        return ("malformed", None)
    n, i = r
    end = i + n
    trailing = len(b) > end
    end = min(end, len(b))                      # an over-long sequence length is not "trailing bytes"
    a = _read_int(b, i, end, False)
    if a is None:
        return ("malformed", None)
    rv, i = a
    a = _read_int(b, i, end, False)
    if a is None:
        return ("malformed", None)
    sv, i = a
    if trailing or i != end:
        return ("trailing", None)
    return ("ok", (rv, sv))


def selftest():
    # hand-derived from X.690
    vec = [((1, 1), "3006020101020101"), ((0, 0), "3006020100020100"), ((127, 128), "300702017f02020080"),
           ((255, 256), "3008020200ff02020100"), ((-1, -128), "30060201ff020180"), ((-129, 32767), "3008 0202ff7f 02027fff"),
           ((2 ** 255, 2 ** 255 - 1), "3045 0221 0080" + "00" * 31 + "0220 7f" + "ff" * 31),
           ((2 ** 256 - 1, 2 ** 256 - 1), "3046 0221 00" + "ff" * 32 + "0221 00" + "ff" * 32)]
    for (r, s), h in vec:
        e = bytes.fromhex(h.replace(" ", ""))
        assert encode(r, s) == e, (r, s)
        assert decode_strict(e) == (r, s) and decode_notrail(e) == ("ok", (r, s))
        assert decode_strict(e + b"\0") is None and decode_notrail(e + b"\0")[0] == "trailing"
        inner = e[:1] + bytes([e[1] + 1]) + e[2:] + b"\0"            # junk inside the sequence after s
        assert decode_strict(inner) is None and decode_notrail(inner)[0] == "trailing"
    # long-form lengths (sizes beyond signatures, the codec is generic)
    big = 2 ** 1100
    e = encode(big, 5)
    assert e[:2] == b"\x30\x81" and decode_strict(e) == (big, 5)
    e = encode(2 ** 2100, -2 ** 2100)
    assert e[:2] == b"\x30\x82" and decode_strict(e) == (2 ** 2100, -2 ** 2100)
    # integer content: closed form == trial form on boundaries
    n = 0
    for k in range(0, 300):
        for d in (-2, -1, 0, 1, 2):
            for sign in (1, -1):
                v = sign * ((1 << k) + d)
                assert _int_content(v) == _int_content_slow(v), v
                assert int.from_bytes(_int_content(v), "big", signed=True) == v
                n += 1
    # non-minimal forms: rejected strictly, tolerated (same value) by the no-trailing parser
    for h, val in [("3007 02020001 020101", (1, 1)), ("3081 06 020101 020101", (1, 1)), ("3007 0202ffff 020101", (-1, 1)),
                   ("3007 028101 01 020101", (1, 1)), ("307f 020101 020101", (1, 1))]:
        b = bytes.fromhex(h.replace(" ", ""))
        assert decode_strict(b) is None and decode_notrail(b) == ("ok", val), h
    for h in ["", "30", "3000", "3006020101", "3006 0200 0202 0101", "3180 020101 020101", "3006 030101 020101", "3080 020101 020101 0000",
              "3006 020101 0201", "3005 020101 020201"]:
        b = bytes.fromhex(h.replace(" ", ""))
        assert decode_strict(b) is None and decode_notrail(b)[0] == "malformed", h
    # exhaustive over a small alphabet: strict acceptance <=> re-encoding reproduces the bytes (uniqueness),
    # and strict acceptance implies no-trailing acceptance with the same value
    alpha = [0x00, 0x01, 0x02, 0x06, 0x80, 0xff]
    acc = 0
    tot = 0
    for L in range(0, 9):
        for t in itertools.product(alpha, repeat=max(L - 1, 0)):
            b = bytes(([0x30] + list(t))[:L])
            tot += 1
            d = decode_strict(b)
            if d is not None:
                acc += 1
                assert encode(*d) == b and decode_notrail(b) == ("ok", d)
    assert acc > 10
    return {"vectors": len(vec), "int_boundaries": n, "small_alphabet_blobs": tot, "strictly_valid_among_them": acc}
