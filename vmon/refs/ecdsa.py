"""ECDSA sign / verify / public-key recovery from SEC 1 v2 section 4.1 on the independent arithmetic of refs/ec.py,
plus the RFC 6979 deterministic signer and a strict DER (r, s) codec (X.690 INTEGER / SEQUENCE, definite short/long
lengths). Nothing here imports pycoin. Points are (x, y) tuples, infinity is None.

Message representative. SEC 1 4.1.3 step 5 / RFC 6979 2.4 derive e from the digest *octet string* by keeping its
leftmost ceil(log2 n) bits. Property C01 states the verification equation on the integer z itself ((z/s)G + (r/s)Q),
i.e. e = z mod n. For curves with a 256-bit order and a 32-byte digest the two coincide (bits2int keeps all 256 bits);
they differ only on small (toy) curves. `e_of(z, n, mode)` offers both; the C01 monitor uses mode="int" (the
property's reading) for the signature equation and the RFC's bits2octets for the nonce input, and says so in its
ASSUMPTIONS.
"""
import hashlib

from vmon.refs import ec, rfc6979

INF = None


def e_of(z, n, mode="int", hbits=256):
    if mode == "int":
        return z % n
    qlen = n.bit_length()
    return (z >> (hbits - qlen) if hbits > qlen else z) % n


def raw_sign(curve, d, e, k):
    """4.1.3 with a given ephemeral k: returns (r, s, R); r or s may be 0 (caller must then pick another k)."""
    n = curve.n
    R = curve.mul(k, curve.G)
    if R is INF:
        return 0, 0, R
    r = R[0] % n
    s = pow(k, -1, n) * (e + r * d) % n
    return r, s, R


def verification_point(curve, Q, e, r, s):
    """(e/s) G + (r/s) Q for r, s in [1, n-1] (None = the point at infinity)."""
    n = curve.n
    w = pow(s, -1, n)
    return curve.lincomb(e * w % n, curve.G, r * w % n, Q)


def verify(curve, Q, e, r, s):
    """4.1.4. Q may be any point of the group (None = infinity is evaluated literally as the identity)."""
    n = curve.n
    if not (1 <= r < n and 1 <= s < n):
        return False
    X = verification_point(curve, Q, e, r, s)
    if X is INF:
        return False
    return X[0] % n == r


def verify_two_ladders(curve, Q, e, r, s):
    """4.1.4 with two separate scalar multiplications and one affine addition (cross-check of the joint ladder)."""
    n = curve.n
    if not (1 <= r < n and 1 <= s < n):
        return False
    w = pow(s, -1, n)
    X = curve.add(curve.mul_affine(e * w % n, curve.G), curve.mul(r * w % n, Q))
    return X is not INF and X[0] % n == r


def verify_by_definition(curve, d, e, r, s):
    """Signer-side definition, brute force (toy curves): (r, s) is a signature of e under d iff some k in [1, n-1]
    has r = x(kG) mod n and s*k = e + r*d (mod n), with r, s in [1, n-1]."""
    n = curve.n
    if not (1 <= r < n and 1 <= s < n):
        return False
    P = INF
    for k in range(1, n):
        P = curve.add(P, curve.G)
        if P[0] % n == r and (s * k - e - r * d) % n == 0:
            return True
    return False


def recover_candidates(curve, r, y_parity=None, all_j=True):
    """4.1.6 step 1: the points R with x(R) = r + j*n < p (cofactor 1: j in {0, 1}); parity filter on y(R)."""
    out = []
    j = 0
    while r + j * curve.n < curve.p and (all_j or j == 0):
        pts = curve.lift_x(r + j * curve.n)
        if pts is not None:
            for R in dict.fromkeys(pts):
                if y_parity is None or (R[1] & 1) == (y_parity & 1):
                    out.append(R)
        j += 1
    return out


def recover(curve, e, r, s, y_parity=None, all_j=True):
    """4.1.6: every Q = r^-1 (s R - e G); empty for out-of-range r, s."""
    n = curve.n
    if not (1 <= r < n and 1 <= s < n):
        return []
    ri = pow(r, -1, n)
    out = []
    for R in recover_candidates(curve, r, y_parity, all_j):
        Q = curve.add(curve.mul(s * ri % n, R), curve.mul(-e * ri % n, curve.G))
        out.append(Q)
    return out


def rfc6979_sign(curve, d, z, hashfunc=hashlib.sha256, mode="int"):
    """Deterministic signature of the digest whose big-endian integer value is z (digest length = hashfunc's).
    Returns dict: k (first RFC 6979 nonce), R, r, s for that nonce, first_ok (r != 0 and s != 0), and `valid`:
    the signature RFC 6979 step h.3 arrives at (next DRBG candidates until r, s != 0), or None if 64 candidates fail."""
    hlen = hashfunc().digest_size
    h1 = z.to_bytes(hlen, "big")
    e = e_of(z, curve.n, mode, 8 * hlen)
    it = rfc6979.candidates(curve.n, d, h1, hashfunc)
    k = next(it)
    r, s, R = raw_sign(curve, d, e, k)
    out = {"k": k, "R": R, "r": r, "s": s, "e": e, "first_ok": r != 0 and s != 0, "valid": None}
    kk, rr, ss = k, r, s
    for _ in range(64):
        if rr and ss:
            out["valid"] = (rr, ss, kk)
            break
        kk = next(it)
        rr, ss, _R = raw_sign(curve, d, e, kk)
    return out


def signable(curve, d, e):
    """toy curves: does any k in [1, n-1] give r, s != 0 ?"""
    for k in range(1, curve.n):
        r, s, _ = raw_sign(curve, d, e, k)
        if r and s:
            return True
    return False


# -- DER ------------------------------------------------------------------------------------------

def _der_len(n):
    if n < 0x80:
        return bytes([n])
    b = n.to_bytes((n.bit_length() + 7) // 8, "big")
    return bytes([0x80 | len(b)]) + b


def der_int(v):
    """minimal two's-complement INTEGER (negative values allowed)."""
    ln = 1
    while not (-(1 << (8 * ln - 1)) <= v < (1 << (8 * ln - 1))):
        ln += 1
    body = v.to_bytes(ln, "big", signed=True)
    return b"\x02" + _der_len(len(body)) + body


def der_sig(r, s):
    body = der_int(r) + der_int(s)
    return b"\x30" + _der_len(len(body)) + body


def _read_tlv(b, pos, tag):
    if pos >= len(b) or b[pos] != tag:
        raise ValueError("tag")
    pos += 1
    if pos >= len(b):
        raise ValueError("length")
    l0 = b[pos]
    pos += 1
    if l0 < 0x80:
        ln = l0
    else:
        k = l0 & 0x7f
        if k == 0 or pos + k > len(b):
            raise ValueError("length")
        ln = int.from_bytes(b[pos:pos + k], "big")
        if ln < 0x80 or b[pos] == 0:
            raise ValueError("non-minimal length")
        pos += k
    if pos + ln > len(b):
        raise ValueError("truncated")
    return b[pos:pos + ln], pos + ln


def der_sig_decode(b):
    """strict DER: returns (r, s) or raises ValueError."""
    body, end = _read_tlv(b, 0, 0x30)
    if end != len(b):
        raise ValueError("trailing")
    out = []
    pos = 0
    for _ in range(2):
        v, pos = _read_tlv(body, pos, 0x02)
        if len(v) == 0:
            raise ValueError("empty integer")
        if len(v) > 1 and ((v[0] == 0 and v[1] < 0x80) or (v[0] == 0xff and v[1] >= 0x80)):
            raise ValueError("non-minimal integer")
        out.append(int.from_bytes(v, "big", signed=True))
    if pos != len(body):
        raise ValueError("trailing in sequence")
    return tuple(out)


# -- self-test -------------------------------------------------------------------------------------

def selftest(full=False):
    toys = ec.toy_curves(48)
    stats = {"curves": 0, "sign_verify_recover": 0, "verify_table": 0, "der": 0}
    small = [c for c in toys if c.n <= 13]          # 38 curves, all of them when full
    mid = [c for c in toys if 13 < c.n <= 37]
    pick = (small + mid[::7]) if full else (small[::6] + mid[3:4])
    for c in pick:
        n = c.n
        stats["curves"] += 1
        pub = {}
        P = INF
        for d in range(1, n):
            P = c.add(P, c.G)
            pub[d] = P
        for d in range(1, n):
            Q = pub[d]
            for e in range(n):
                for k in range(1, n):
                    r, s, R = raw_sign(c, d, e, k)
                    if not (r and s):
                        continue
                    stats["sign_verify_recover"] += 1
                    assert verify(c, Q, e, r, s), (c.name, d, e, k)
                    assert verify(c, Q, e + n, r, s) and verify(c, Q, e, r, n - s)
                    rec_all = recover(c, e, r, s)
                    assert Q in rec_all
                    assert all(verify(c, X, e, r, s) for X in rec_all)
                    if R[0] < n:
                        assert Q in recover(c, e, r, s, all_j=False)
                        assert Q in recover(c, e, r, s, y_parity=R[1] & 1, all_j=False)
                        assert Q not in recover(c, e, r, s, y_parity=1 - (R[1] & 1), all_j=False)
        # verification formula == signer-side definition for every (d, e, r, s), out-of-range values included
        for d in (list(range(1, n)) if n <= 13 else [1, n // 2, n - 1]):
            for e in (range(n) if n <= 13 else (0, 1, n - 1)):
                for r in range(0, n + 2):
                    for s in range(0, n + 2):
                        assert verify(c, pub[d], e, r, s) == verify_by_definition(c, d, e, r, s) == verify_two_ladders(c, pub[d], e, r, s), (c.name, d, e, r, s)
                        stats["verify_table"] += 1
        # deterministic signer: closure in both message-representative modes, z spread over top bits
        for d in range(1, n):
            for z in (1, n, n + 1, (d << 250) | 5, (1 << 256) - 1, (n - 1) << 249, 3 << 254):
                for mode in ("int", "sec1"):
                    sg = rfc6979_sign(c, d, z, mode=mode)
                    if sg["valid"]:
                        r, s, k = sg["valid"]
                        assert verify(c, pub[d], e_of(z, n, mode), r, s)
                        assert 1 <= k < n
    # big curves: closure + RFC 6979 A.2.5 signature through rfc6979_sign
    c = ec.SECP256R1
    for msg, (k, r, s) in rfc6979.P256_SHA256.items():
        z = int.from_bytes(hashlib.sha256(msg).digest(), "big")
        for mode in ("int", "sec1"):
            sg = rfc6979_sign(c, rfc6979.P256_X, z, mode=mode)
            assert (sg["k"], sg["r"], sg["s"]) == (k, r, s) and sg["first_ok"]
        assert verify(c, rfc6979.P256_U, z, r, s)
        assert not verify(c, rfc6979.P256_U, z + 1, r, s)
        assert rfc6979.P256_U in recover(c, z, r, s)
    import random
    rng = random.Random(5)
    for c in (ec.SECP256K1, ec.SECP256R1):
        for _ in range(3):
            d = rng.randrange(1, c.n)
            z = rng.randrange(1, 1 << 256)
            sg = rfc6979_sign(c, d, z)
            Q = c.mul(d, c.G)
            assert sg["first_ok"] and verify(c, Q, z, sg["r"], sg["s"]) and Q in recover(c, z, sg["r"], sg["s"])
            assert not verify(c, c.neg(Q), z, sg["r"], sg["s"]) and not verify_two_ladders(c, c.neg(Q), z, sg["r"], sg["s"])
            assert verify_two_ladders(c, Q, z, sg["r"], sg["s"]) and verify(c, Q, z + c.n, sg["r"], c.n - sg["s"])
            # degenerate: r = -z/d makes (z/s)G + (r/s)Q the identity
            rdeg = -z * pow(d, -1, c.n) % c.n
            assert verify(c, Q, z, rdeg, 1) is False
    # DER codec round trip incl. boundary and negative integers
    for r in (0, 1, 127, 128, 255, 256, -1, -128, -129, 2**255, 2**256 - 1, 2**255 - 1, 2**1023, 2**1024 + 5):
        for s in (1, 0x80, 2**256 - 1, -5, 2**520):
            b = der_sig(r, s)
            assert der_sig_decode(b) == (r, s)
            stats["der"] += 1
            for bad in (b + b"\0", b[:-1], b"\x31" + b[1:]):
                try:
                    der_sig_decode(bad)
                    raise AssertionError("accepted malformed DER")
                except ValueError:
                    pass
    assert der_sig(1, 1) == bytes.fromhex("3006020101020101")
    assert der_sig(128, 1) == bytes.fromhex("300702020080020101")
    return stats
