"""Independent SEC 1 (section 2.3.3 / 2.3.4) public-key encoding, strict form only.

A blob is accepted iff it is THE encoding of an affine curve point:
  compressed    02|03 || X            len = 1 + L   X < p, x^3+ax+b is a square, prefix parity = parity of y
  uncompressed  04    || X || Y       len = 1 + 2L  X, Y < p, (X, Y) on the curve
(L = byte length of p.)  Everything else - hybrid 06/07, the infinity byte 00, other prefixes, other lengths,
coordinates >= p - is rejected, with a reason string naming the first rule broken.

Nothing here imports pycoin.  Curves come from vmon.refs.ec.
"""
import hashlib

from .ec import SECP256K1, toy_curves


def flen(curve):
    return (curve.p.bit_length() + 7) // 8


def encode(P, compressed=True, curve=SECP256K1):
    L = flen(curve)
    x, y = P
    if compressed:
        return bytes([2 + (y & 1)]) + x.to_bytes(L, "big")
    return b"\x04" + x.to_bytes(L, "big") + y.to_bytes(L, "big")


def classify(blob, curve=SECP256K1):
    """-> (reason, point, compressed).  reason == "ok" iff the blob is the unique strict encoding of `point`.
    reasons: length, prefix, x_ge_p, y_ge_p, no_point (compressed x without a point), off_curve."""
    L = flen(curve)
    n = len(blob)
    if n not in (1 + L, 1 + 2 * L):
        return ("length", None, None)
    pre = blob[0]
    if n == 1 + L:
        if pre not in (2, 3):
            return ("prefix", None, None)
        x = int.from_bytes(blob[1:], "big")
        if x >= curve.p:
            return ("x_ge_p", None, None)
        pts = curve.lift_x(x)
        if pts is None:
            return ("no_point", None, None)
        P = pts[pre & 1]
        if P[1] & 1 != pre & 1:          # only possible when y == 0 (no such point on odd-order curves)
            return ("no_point", None, None)
        return ("ok", P, True)
    if pre != 4:
        return ("prefix", None, None)
    x = int.from_bytes(blob[1:1 + L], "big")
    y = int.from_bytes(blob[1 + L:], "big")
    if x >= curve.p:
        return ("x_ge_p", None, None)
    if y >= curve.p:
        return ("y_ge_p", None, None)
    if not curve.on_curve((x, y)):
        return ("off_curve", None, None)
    return ("ok", (x, y), False)


def strict_parse(blob, curve=SECP256K1):
    """(point, compressed) or None."""
    why, P, c = classify(blob, curve)
    return (P, c) if why == "ok" else None


def syntax_ok(blob, curve=SECP256K1):
    """The rules that do not need curve membership: length, prefix, coordinates below p."""
    return classify(blob, curve)[0] in ("ok", "no_point", "off_curve")


def hash160(b):
    return hashlib.new("ripemd160", hashlib.sha256(b).digest()).digest()


def cube_root(v, curve=SECP256K1):
    """a cube root of v mod p (p = 7 mod 9 or 4 mod 9), or None."""
    p = curve.p
    v %= p
    if p % 9 == 7:
        r = pow(v, (p + 2) // 9, p)
    elif p % 9 == 4:
        r = pow(v, (2 * p + 1) // 9, p)
    else:
        return None
    return r if pow(r, 3, p) == v else None


def point_with_y(y, curve=SECP256K1):
    """a point (x, y) with the given y on a curve with a == 0, or None (used to find points with tiny y)."""
    if curve.a != 0:
        return None
    x = cube_root(y * y - curve.b, curve)
    if x is None:
        return None
    return (x, y % curve.p) if curve.on_curve((x, y % curve.p)) else None


def selftest():
    C = SECP256K1
    # published encodings of G, 2G, 3G (SEC 2 / every secp256k1 test-vector list)
    G_c = bytes.fromhex("0279BE667EF9DCBBAC55A06295CE870B07029BFCDB2DCE28D959F2815B16F81798")
    G_u = bytes.fromhex("0479BE667EF9DCBBAC55A06295CE870B07029BFCDB2DCE28D959F2815B16F81798"
                        "483ADA7726A3C4655DA4FBFC0E1108A8FD17B448A68554199C47D08FFB10D4B8")
    assert encode(C.G, True) == G_c and encode(C.G, False) == G_u
    assert strict_parse(G_c) == (C.G, True) and strict_parse(G_u) == (C.G, False)
    G2 = C.mul(2, C.G)
    assert encode(G2, True) == bytes.fromhex("02C6047F9441ED7D6D3045406E95C07CD85C778E4B8CEF3CA7ABAC09B95C709EE5")
    G3 = C.mul(3, C.G)
    assert encode(G3, False) == bytes.fromhex(
        "04F9308A019258C31049344F85F89D5229B531C845836F99B08601F113BCE036F9"
        "388F7B0F632DE8140FE337E62A37F3566500A99934C2231B6CB9FD7584B8E672")
    # well-known: hash160 of the compressed / uncompressed encoding of G (addresses of private key 1)
    assert hash160(G_c).hex() == "751e76e8199196d454941c45d1b3a323f1433bd6"
    assert hash160(G_u).hex() == "91b24bf9f5288532960ac687abb035127b1d28a5"
    # negatives on secp256k1
    assert classify(b"\x03" + G_c[1:])[0] == "ok" and strict_parse(b"\x03" + G_c[1:])[0] == C.neg(C.G)
    for pre in (0, 1, 5, 6, 7, 255):
        assert classify(bytes([pre]) + G_c[1:])[0] == "prefix"
        assert classify(bytes([pre]) + G_u[1:])[0] == "prefix"
    assert classify(b"\x02" + G_u[1:])[0] == "prefix" and classify(b"\x04" + G_c[1:])[0] == "prefix"
    assert classify(G_c[:-1])[0] == "length" and classify(G_u + b"\0")[0] == "length" and classify(b"")[0] == "length"
    assert classify(b"\x02" + (C.p + 1).to_bytes(32, "big"))[0] == "x_ge_p"
    assert classify(b"\x04" + (C.p + 1).to_bytes(32, "big") + G_u[33:])[0] == "x_ge_p"
    bad_y = bytearray(G_u)
    bad_y[-1] ^= 1
    assert classify(bytes(bad_y))[0] == "off_curve"
    assert classify(b"\x02" + (5).to_bytes(32, "big"))[0] == "no_point"     # x = 5: 132 is a non-residue
    P = point_with_y(1)
    if P is not None:
        assert C.on_curve(P) and classify(b"\x04" + P[0].to_bytes(32, "big") + (C.p + 1).to_bytes(32, "big"))[0] == "y_ge_p"
    # exhaustive on toy curves with a one-byte field: the accepted set is exactly {encode(P, c)}, each point twice
    toys = toy_curves(40)[::60]
    blobs = 0
    for c in toys:
        pts = c.all_points()
        want = {}
        for Pt in pts:
            want[encode(Pt, True, c)] = (Pt, True)
            want[encode(Pt, False, c)] = (Pt, False)
        assert len(want) == 2 * len(pts)
        got = {}
        for pre in range(256):
            for x in range(256):
                b = bytes([pre, x])
                r = strict_parse(b, c)
                blobs += 1
                if r:
                    got[b] = r
            if pre in (2, 4, 6, 0):
                for x in range(0, 256):
                    for y in range(0, 256):
                        b = bytes([pre, x, y])
                        r = strict_parse(b, c)
                        blobs += 1
                        if r:
                            got[b] = r
        for L in (0, 1, 4):
            assert strict_parse(bytes([4] * L), c) is None
        assert got == want, c.name
        for b, (Pt, comp) in got.items():
            assert encode(Pt, comp, c) == b
    return {"vectors": 7, "toy_curves": len(toys), "toy_blobs_enumerated": blobs}
