"""MurmurHash3_x86_32 (Austin Appleby, public domain algorithm description) and the BIP37 Bloom-filter bit set.
Written from the algorithm description with explicit 32-bit arithmetic; nothing here imports pycoin."""

M32 = 0xffffffff
C1 = 0xcc9e2d51
C2 = 0x1b873593
BIP37_SEED_MUL = 0xfba4c795
MAX_BLOOM_FILTER_SIZE = 36000
MAX_HASH_FUNCS = 50


def _rotl(x, r):
    return ((x << r) | (x >> (32 - r))) & M32


def _mix_k(k):
    k = (k * C1) & M32
    k = _rotl(k, 15)
    return (k * C2) & M32


def murmur3_32(data, seed):
    """seed is a uint32_t in the C prototype: wider values are reduced mod 2^32."""
    data = bytes(data)
    h = seed & M32
    n = len(data)
    full = n - (n % 4)
    for off in range(0, full, 4):
        k = int.from_bytes(data[off:off + 4], "little")
        h ^= _mix_k(k)
        h = _rotl(h, 13)
        h = (h * 5 + 0xe6546b64) & M32
    tail = data[full:]
    if tail:
        h ^= _mix_k(int.from_bytes(tail, "little"))
    h ^= n & M32
    # fmix32
    h ^= h >> 16
    h = (h * 0x85ebca6b) & M32
    h ^= h >> 13
    h = (h * 0xc2b2ae35) & M32
    h ^= h >> 16
    return h


def bip37_positions(item, size_bytes, n_hash_funcs, tweak):
    """Bit positions BIP37 prescribes for one element: murmur3(item, i*0xFBA4C795 + nTweak) mod (size*8)."""
    nbits = size_bytes * 8
    return [murmur3_32(item, (i * BIP37_SEED_MUL + tweak) & M32) % nbits for i in range(n_hash_funcs)]


def bip37_filter(items, size_bytes, n_hash_funcs, tweak):
    """The filter bytes after inserting `items` into an empty filter: bit (pos & 7) of byte (pos >> 3)."""
    out = bytearray(size_bytes)
    for it in items:
        for pos in bip37_positions(it, size_bytes, n_hash_funcs, tweak):
            out[pos >> 3] |= 1 << (pos & 7)
    return bytes(out)


def bip37_contains(filter_bytes, item, n_hash_funcs, tweak):
    size = len(filter_bytes)
    return all(filter_bytes[p >> 3] & (1 << (p & 7)) for p in bip37_positions(item, size, n_hash_funcs, tweak))


def selftest():
    n = 0
    h = bytes.fromhex
    # SMHasher-derived vectors (published list, stackoverflow.com/questions/14747343)
    smh = [(b"", 0, 0), (b"", 1, 0x514e28b7), (b"", 0xffffffff, 0x81f16f39), (h("ffffffff"), 0, 0x76293b50),
           (h("21436587"), 0, 0xf55b516b), (h("21436587"), 0x5082edee, 0x2362f9de), (h("214365"), 0, 0x7e4a8634),
           (h("2143"), 0, 0xa0f7b07a), (h("21"), 0, 0x72661cf4), (h("00000000"), 0, 0x2362f9de),
           (h("000000"), 0, 0x85f0b427), (h("0000"), 0, 0x30f4c306), (h("00"), 0, 0x514e28b7)]
    # Bitcoin Core src/test/hash_tests.cpp (murmurhash3)
    core = [(b"", 0x00000000, 0x00000000), (b"", 0xfba4c795, 0x6a396f08), (b"", 0xffffffff, 0x81f16f39),
            (h("00"), 0x00000000, 0x514e28b7), (h("00"), 0xfba4c795, 0xea3f0b17), (h("ff"), 0x00000000, 0xfd6cf10d),
            (h("0011"), 0, 0x16c6b7ab), (h("001122"), 0, 0x8eb51c3d), (h("00112233"), 0, 0xb4471bf8),
            (h("0011223344"), 0, 0xe2301fa8), (h("001122334455"), 0, 0xfc2e4a15), (h("00112233445566"), 0, 0xb074502c),
            (h("0011223344556677"), 0, 0x8034d2a0), (h("001122334455667788"), 0, 0xb4698def)]
    # well-known text vectors of MurmurHash3_x86_32
    text = [(b"Hello, world!", 1234, 0xfaf6cdb3), (b"Hello, world!", 4321, 0xbf505788),
            (b"The quick brown fox jumps over the lazy dog", 0x9747b28c, 0x2fa826cd), (b"test", 0, 0xba6bd213), (b"aaaa", 0x9747b28c, 0x5a97808a)]
    for data, seed, want in smh + core + text:
        got = murmur3_32(data, seed)
        assert got == want, (data, hex(seed), hex(got), hex(want))
        assert murmur3_32(data, seed + (1 << 32)) == want and murmur3_32(data, seed + (5 << 64)) == want
        n += 1
    # Bitcoin Core src/test/bloom_tests.cpp, bloom_create_insert_key: CBloomFilter(2, 0.001, 0, BLOOM_UPDATE_ALL)
    # (3 bytes, 8 hash functions) after inserting the uncompressed public key of
    # 5Kg1gnAjaLfKiwhhPpGS3QfRg2m6awQvaj98JCZBZQ5SuS2F15C and its key id serialises as 03 8fc16b 08000000 00000000 01.
    # The public key is derived here from the (checksum-protected) WIF with the reference curve arithmetic.
    import hashlib
    from vmon.refs import b58, ec
    raw = b58.decode_check("5Kg1gnAjaLfKiwhhPpGS3QfRg2m6awQvaj98JCZBZQ5SuS2F15C")
    assert raw is not None and raw[0] == 0x80 and len(raw) == 33
    x, y = ec.SECP256K1.mul(int.from_bytes(raw[1:], "big"), ec.SECP256K1.G)
    pub = b"\x04" + x.to_bytes(32, "big") + y.to_bytes(32, "big")
    kid = h("477abbacd4113f2e6b100526222eedd953c26a64")
    try:
        assert hashlib.new("ripemd160", hashlib.sha256(pub).digest()).digest() == kid
    except ValueError:
        pass
    f = bip37_filter([pub, kid], 3, 8, 0)
    assert f == h("8fc16b"), f.hex()
    assert bip37_contains(f, pub, 8, 0) and bip37_contains(f, kid, 8, 0)
    assert not bip37_contains(f, h("19108ad8ed9bb6274d3980bab5a85c048f0950c8"), 8, 0)
    n += 1
    # algebraic: the filter of a union is the OR of the filters; order does not matter; k = 0 sets nothing
    a, b = [b"a", b"bb", b""], [b"ccc" * 11, b"\x00" * 33]
    for size, k, tw in ((1, 1, 0), (7, 11, 0xffffffff), (36000, 50, 1 << 31)):
        fa, fb, fab = bip37_filter(a, size, k, tw), bip37_filter(b, size, k, tw), bip37_filter(b + a, size, k, tw)
        assert bytes(p | q for p, q in zip(fa, fb)) == fab
        assert bip37_filter(a, size, 0, tw) == bytes(size)
        assert all(bip37_contains(fab, it, k, tw) for it in a + b)
        assert bip37_filter(a, size, k, tw + (1 << 32)) == fa
        n += 1
    return n
