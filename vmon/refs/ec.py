"""Independent short-Weierstrass arithmetic: y^2 = x^3 + a x + b over GF(p).

Affine chord-and-tangent (ground truth, textbook formulas) and a Jacobian double-and-add
ladder (fast path), cross-checked against each other in selftest(). Points are (x, y) tuples,
infinity is None.
"""
INF = None


class Curve:
    def __init__(self, p, a, b, G=None, n=None, name=""):
        self.p, self.a, self.b, self.G, self.n, self.name = p, a % p, b % p, G, n, name

    # -- predicates --------------------------------------------------------------------
    def on_curve(self, P):
        if P is INF:
            return True
        x, y = P
        return 0 <= x < self.p and 0 <= y < self.p and (y * y - (x * x * x + self.a * x + self.b)) % self.p == 0

    def neg(self, P):
        return INF if P is INF else (P[0], (-P[1]) % self.p)

    # -- affine ------------------------------------------------------------------------
    def add(self, P, Q):
        p = self.p
        if P is INF:
            return Q
        if Q is INF:
            return P
        x1, y1 = P
        x2, y2 = Q
        if x1 == x2:
            if (y1 + y2) % p == 0:
                return INF
            lam = (3 * x1 * x1 + self.a) * pow(2 * y1, -1, p) % p
        else:
            lam = (y2 - y1) * pow(x2 - x1, -1, p) % p
        x3 = (lam * lam - x1 - x2) % p
        return (x3, (lam * (x1 - x3) - y1) % p)

    def mul_affine(self, k, P):
        if self.n:
            k %= self.n
        elif k < 0:
            k, P = -k, self.neg(P)
        R = INF
        while k:
            if k & 1:
                R = self.add(R, P)
            P = self.add(P, P)
            k >>= 1
        return R

    # -- Jacobian ----------------------------------------------------------------------
    def _jdbl(self, X, Y, Z):
        p = self.p
        if Y == 0 or Z == 0:
            return (1, 1, 0)
        S = 4 * X * Y * Y % p
        M = (3 * X * X + self.a * pow(Z, 4, p)) % p
        X3 = (M * M - 2 * S) % p
        Y3 = (M * (S - X3) - 8 * pow(Y, 4, p)) % p
        return (X3, Y3, 2 * Y * Z % p)

    def _jadd_affine(self, X1, Y1, Z1, x2, y2):
        p = self.p
        if Z1 == 0:
            return (x2, y2, 1)
        Z1Z1 = Z1 * Z1 % p
        U2 = x2 * Z1Z1 % p
        S2 = y2 * Z1 * Z1Z1 % p
        H = (U2 - X1) % p
        r = (S2 - Y1) % p
        if H == 0:
            if r == 0:
                return self._jdbl(X1, Y1, Z1)
            return (1, 1, 0)
        HH = H * H % p
        HHH = H * HH % p
        V = X1 * HH % p
        X3 = (r * r - HHH - 2 * V) % p
        Y3 = (r * (V - X3) - Y1 * HHH) % p
        return (X3, Y3, Z1 * H % p)

    def mul(self, k, P):
        """k*P by a left-to-right Jacobian ladder; k reduced mod n when n is known."""
        if P is INF:
            return INF
        if self.n:
            k %= self.n
        elif k < 0:
            k, P = -k, self.neg(P)
        if k == 0:
            return INF
        x, y = P
        R = (1, 1, 0)
        for bit in bin(k)[2:]:
            R = self._jdbl(*R)
            if bit == "1":
                R = self._jadd_affine(*R, x, y)
        X, Y, Z = R
        if Z == 0:
            return INF
        zi = pow(Z, -1, self.p)
        return (X * zi * zi % self.p, Y * zi * zi * zi % self.p)

    def lincomb(self, u, P, v, Q):
        """u*P + v*Q by one joint ladder (Shamir's trick) - same result as add(mul(u, P), mul(v, Q)), fewer doublings.
        Additive helper for the ECDSA reference; cross-checked against mul/add in selftest()."""
        if self.n:
            u %= self.n
            v %= self.n
        else:
            if u < 0:
                u, P = -u, self.neg(P)
            if v < 0:
                v, Q = -v, self.neg(Q)
        if P is INF or u == 0:
            return self.mul(v, Q)
        if Q is INF or v == 0:
            return self.mul(u, P)
        PQ = self.add(P, Q)
        R = (1, 1, 0)
        for i in range(max(u.bit_length(), v.bit_length()) - 1, -1, -1):
            R = self._jdbl(*R)
            a, b = (u >> i) & 1, (v >> i) & 1
            if a and b:
                if PQ is not INF:
                    R = self._jadd_affine(*R, *PQ)
            elif a:
                R = self._jadd_affine(*R, *P)
            elif b:
                R = self._jadd_affine(*R, *Q)
        X, Y, Z = R
        if Z == 0:
            return INF
        zi = pow(Z, -1, self.p)
        return (X * zi * zi % self.p, Y * zi * zi * zi % self.p)

    def mul2(self, a, P, b, Q):
        """a*P + b*Q by one simultaneous (Shamir) ladder; a, b >= 0."""
        if P is INF or a == 0:
            return self.mul(b, Q)
        if Q is INF or b == 0:
            return self.mul(a, P)
        PQ = self.add(P, Q)
        R = (1, 1, 0)
        for i in range(max(a.bit_length(), b.bit_length()) - 1, -1, -1):
            R = self._jdbl(*R)
            sel = ((a >> i) & 1) | (((b >> i) & 1) << 1)
            if sel:
                T = P if sel == 1 else Q if sel == 2 else PQ
                if T is not INF:
                    R = self._jadd_affine(*R, T[0], T[1])
        X, Y, Z = R
        if Z == 0:
            return INF
        zi = pow(Z, -1, self.p)
        return (X * zi * zi % self.p, Y * zi * zi * zi % self.p)

    # -- helpers -----------------------------------------------------------------------
    def sqrt(self, v):
        """square root mod p for p = 3 mod 4, or None."""
        v %= self.p
        r = pow(v, (self.p + 1) // 4, self.p)
        return r if r * r % self.p == v else None

    def lift_x(self, x):
        """the (even-y, odd-y) points with this x, or None."""
        y = self.sqrt(x * x * x + self.a * x + self.b)
        if y is None:
            return None
        if y & 1:
            y = self.p - y
        if y == 0:
            return ((x, 0), (x, 0))
        return ((x, y), (x, self.p - y))

    def all_points(self):
        """brute force (toy curves only): every affine point."""
        pts = []
        sq = {}
        for y in range(self.p):
            sq.setdefault(y * y % self.p, []).append(y)
        for x in range(self.p):
            for y in sq.get((x * x * x + self.a * x + self.b) % self.p, []):
                pts.append((x, y))
        return pts


SECP256K1 = Curve(
    2**256 - 2**32 - 977, 0, 7,
    (0x79BE667EF9DCBBAC55A06295CE870B07029BFCDB2DCE28D959F2815B16F81798,
     0x483ADA7726A3C4655DA4FBFC0E1108A8FD17B448A68554199C47D08FFB10D4B8),
    0xFFFFFFFFFFFFFFFFFFFFFFFFFFFFFFFEBAAEDCE6AF48A03BBFD25E8CD0364141, "secp256k1")
SECP256R1 = Curve(
    0xFFFFFFFF00000001000000000000000000000000FFFFFFFFFFFFFFFFFFFFFFFF, -3,
    0x5AC635D8AA3A93E7B3EBBD55769886BC651D06B0CC53B0F63BCE3C3E27D2604B,
    (0x6B17D1F2E12C4247F8BCE6E563A440F277037D812DEB33A0F4A13945D898C296,
     0x4FE342E2FE1A7F9B8EE7EB4A7C0F9E162BCE33576B315ECECBB6406837BF51F5),
    0xFFFFFFFF00000000FFFFFFFFFFFFFFFFBCE6FAADA7179E84F3B9CAC2FC632551, "secp256r1")
BLS12_381_G1 = Curve(
    0x1a0111ea397fe69a4b1ba7b6434bacd764774b84f38512bf6730d2a0f6b0f6241eabfffeb153ffffb9feffffffffaaab, 0, 4,
    (0x17F1D3A73197D7942695638C4FA9AC0FC3688C4F9774B905A14E3A3F171BAC586C55E83FF97A1AEFFB3AF00ADB22C6BB,
     0x08B3F481E3AAA0F1A09E30ED741D8AE4FCF5E095D5D00AF600DB18CB2C04B3EDD03CC744A2888AE40CAA232946C5E7E1),
    0x73EDA753299D7D483339D80809A1D80553BDA402FFFE5BFEFFFFFFFF00000001, "bls12_381_g1")


def is_prime(n):
    if n < 2:
        return False
    i = 2
    while i * i <= n:
        if n % i == 0:
            return False
        i += 1
    return True


def toy_curves(max_p=80, min_order=5):
    """All y^2 = x^3 + ax + b over primes p = 3 mod 4, p < max_p, non-singular, whose group (incl. infinity)
    has prime order >= min_order. Generator: the first affine point (any non-identity element generates)."""
    out = []
    for p in range(7, max_p):
        if not is_prime(p) or p % 4 != 3:
            continue
        for a in range(p):
            for b in range(p):
                if (4 * a ** 3 + 27 * b * b) % p == 0:
                    continue
                c = Curve(p, a, b)
                pts = c.all_points()
                n = len(pts) + 1
                if n < min_order or not is_prime(n):
                    continue
                c.G, c.n, c.name = pts[0], n, "toy(p=%d,a=%d,b=%d,n=%d)" % (p, a, b, n)
                out.append(c)
    return out


def selftest(rng=None, full=False):
    import random
    rng = rng or random.Random(1)
    checked = 0
    toys = toy_curves(40 if not full else 80)
    assert len(toys) > 20
    for c in toys[:: (1 if full else 7)]:
        pts = [INF] + c.all_points()
        S = set(pts)
        assert len(pts) == c.n
        for P in pts:
            assert c.on_curve(P)
            assert c.add(P, INF) == P and c.add(INF, P) == P
            assert c.add(P, c.neg(P)) is INF
            assert c.mul_affine(c.n, P) is INF
            for Q in pts:
                R = c.add(P, Q)
                assert R in S and R == c.add(Q, P)
                checked += 1
        for P in pts[:6]:
            for Q in pts[:6]:
                for R in pts:
                    assert c.add(c.add(P, Q), R) == c.add(P, c.add(Q, R))
        for P in pts:
            acc = INF
            for k in range(0, 2 * c.n + 2):
                assert c.mul_affine(k, P) == acc == c.mul(k, P), (c.name, k, P)
                acc = c.add(acc, P)
            assert c.mul(-1, P) == c.neg(P)
        for P in pts[1:2]:
            for Q in pts[::9] + [P, c.neg(P)]:
                for u in range(-1, c.n + 1):
                    for v in (0, 1, c.n - 1, u, c.n - u):
                        assert c.lincomb(u, P, v, Q) == c.add(c.mul_affine(u, P), c.mul_affine(v, Q)), (c.name, u, P, v, Q)
    for c in (SECP256K1, SECP256R1, BLS12_381_G1):
        assert c.on_curve(c.G)
        assert c.mul(c.n, c.G) is INF and c.mul_affine(c.n, c.G) is INF
        assert c.mul(c.n - 1, c.G) == c.neg(c.G)
        for _ in range(6):
            k = rng.randrange(1, c.n)
            j = rng.randrange(1, c.n)
            P = c.mul(k, c.G)
            assert P == c.mul_affine(k, c.G) and c.on_curve(P)
            assert c.add(P, c.mul(j, c.G)) == c.mul((k + j) % c.n, c.G)
            assert c.mul(j, P) == c.mul(j * k % c.n, c.G)
            assert c.mul2(k, c.G, j, P) == c.add(c.mul(k, c.G), c.mul(j, P))
            assert c.mul2(k, P, c.n - k, P) is INF
            assert c.lincomb(j, c.G, k, P) == c.mul((j + k * k) % c.n, c.G)
            assert c.lincomb(k, P, c.n - k, P) is INF and c.lincomb(j, P, 0, c.G) == c.mul(j, P)
            checked += 1
    # 2G on secp256k1 (published)
    assert SECP256K1.mul(2, SECP256K1.G)[0] == 0xC6047F9441ED7D6D3045406E95C07CD85C778E4B8CEF3CA7ABAC09B95C709EE5
    return {"toy_curves": len(toys), "ops_checked": checked}
