"""Independent Bech32 / Bech32m reference, written from BIP173 / BIP350 text.

Structured differently from pycoin.contrib.bech32m (which is sipa's reference): polynomial
arithmetic is done on a 30-bit integer with a table-free loop, segwit-address rules are one
predicate, bit regrouping goes through a big integer.
"""
CHARSET = "qpzry9x8gf2tvdw0s3jn54khce6mua7l"
_POS = {c: i for i, c in enumerate(CHARSET)}
GEN = (0x3b6a57b2, 0x26508e6d, 0x1ea119fa, 0x3d4233dd, 0x2a1462b3)
CONST = {"bech32": 1, "bech32m": 0x2bc830a3}


def polymod(vals):
    c = 1
    for v in vals:
        b = c >> 25
        c = ((c & 0x1ffffff) << 5) ^ v
        for i, g in enumerate(GEN):
            if (b >> i) & 1:
                c ^= g
    return c


def _expand(hrp):
    return [ord(ch) >> 5 for ch in hrp] + [0] + [ord(ch) & 31 for ch in hrp]


def checksum(hrp, data5, variant):
    pm = polymod(_expand(hrp) + list(data5) + [0] * 6) ^ CONST[variant]
    return [(pm >> (5 * (5 - i))) & 31 for i in range(6)]


def raw_encode(hrp, data5, variant):
    return hrp + "1" + "".join(CHARSET[d] for d in list(data5) + checksum(hrp, data5, variant))


def raw_decode(s, max_len=90):
    """-> (hrp, data5 without checksum, variant) or None."""
    if not s or any(ord(ch) < 33 or ord(ch) > 126 for ch in s):
        return None
    if s != s.lower() and s != s.upper():
        return None
    s = s.lower()
    if len(s) > max_len:
        return None
    k = s.rfind("1")
    if k < 1 or len(s) - k - 1 < 6:
        return None
    hrp, tail = s[:k], s[k + 1:]
    if any(ch not in _POS for ch in tail):
        return None
    vals = [_POS[ch] for ch in tail]
    pm = polymod(_expand(hrp) + vals)
    for name, c in CONST.items():
        if pm == c:
            return hrp, vals[:-6], name
    return None


def to5(data):
    """8-bit -> 5-bit groups with zero padding (encoder direction)."""
    nbits = 8 * len(data)
    n = int.from_bytes(bytes(data), "big") if data else 0
    pad = (-nbits) % 5
    n <<= pad
    total = (nbits + pad) // 5
    return [(n >> (5 * (total - 1 - i))) & 31 for i in range(total)]


def from5(vals):
    """5-bit -> bytes, strict: at most 4 padding bits, all zero. None if violated."""
    nbits = 5 * len(vals)
    n = 0
    for v in vals:
        n = (n << 5) | v
    pad = nbits % 8
    if pad > 4:
        return None
    if n & ((1 << pad) - 1):
        return None
    n >>= pad
    return n.to_bytes(nbits // 8, "big")


def segwit_ok(ver, prog):
    if not (0 <= ver <= 16):
        return False
    if not (2 <= len(prog) <= 40):
        return False
    if ver == 0 and len(prog) not in (20, 32):
        return False
    return True


def segwit_encode(hrp, ver, prog):
    if not segwit_ok(ver, prog):
        return None
    return raw_encode(hrp, [ver] + to5(prog), "bech32" if ver == 0 else "bech32m")


def segwit_decode(hrp, addr):
    """-> (ver, prog bytes) or None."""
    t = raw_decode(addr)
    if t is None:
        return None
    h, vals, variant = t
    if h != hrp.lower() or not vals:
        return None
    prog = from5(vals[1:])
    if prog is None or not segwit_ok(vals[0], prog):
        return None
    if (vals[0] == 0) != (variant == "bech32"):
        return None
    return vals[0], prog


# --- self test against the BIPs' published lists -------------------------------------------
VALID_BECH32 = ["A12UEL5L", "a12uel5l", "an83characterlonghumanreadablepartthatcontainsthenumber1andtheexcludedcharactersbio1tt5tgs",
                "abcdef1qpzry9x8gf2tvdw0s3jn54khce6mua7lmqqqxw",
                "11qqqqqqqqqqqqqqqqqqqqqqqqqqqqqqqqqqqqqqqqqqqqqqqqqqqqqqqqqqqqqqqqqqqqqqqqqqqqqqqqqqc8247j",
                "split1checkupstagehandshakeupstreamerranterredcaperred2y9e3w", "?1ezyfcl"]
VALID_BECH32M = ["A1LQFN3A", "a1lqfn3a", "an83characterlonghumanreadablepartthatcontainsthetheexcludedcharactersbioandnumber11sg7hg6",
                 "abcdef1l7aum6echk45nj3s0wdvt2fg8x9yrzpqzd3ryx",
                 "11llllllllllllllllllllllllllllllllllllllllllllllllllllllllllllllllllllllllllllllllllludsr8",
                 "split1checkupstagehandshakeupstreamerranterredcaperredlc445v", "?1v759aa"]
INVALID_RAW = ["\x201nwldj5", "\x7f1axkwrx", "\x801eym55h", "pzry9x0s0muk", "1pzry9x0s0muk", "x1b4n0q5v", "li1dgmt3", "de1lg7wt\xff",
               "A1G7SGD8", "10a06t8", "1qzzfhee", "qyrz8wqd2c9m", "1qyrz8wqd2c9m", "y1b0jsk6g", "lt1igcx5c", "in1muywd", "mm1crxm3i",
               "au1s5cgom", "M1VUXWEZ", "16plkw9", "1p2gdwpf",
               "an84characterslonghumanreadablepartthatcontainsthenumber1andtheexcludedcharactersbio1569pvx",
               "an84characterslonghumanreadablepartthatcontainsthetheexcludedcharactersbioandnumber11d6pts4"]
VALID_ADDR = [
    ("BC1QW508D6QEJXTDG4Y5R3ZARVARY0C5XW7KV8F3T4", "0014751e76e8199196d454941c45d1b3a323f1433bd6"),
    ("tb1qrp33g0q5c5txsp9arysrx4k6zdkfs4nce4xj0gdcccefvpysxf3q0sl5k7", "00201863143c14c5166804bd19203356da136c985678cd4d27a1b8c6329604903262"),
    ("bc1pw508d6qejxtdg4y5r3zarvary0c5xw7kw508d6qejxtdg4y5r3zarvary0c5xw7kt5nd6y", "5128751e76e8199196d454941c45d1b3a323f1433bd6751e76e8199196d454941c45d1b3a323f1433bd6"),
    ("BC1SW50QGDZ25J", "6002751e"),
    ("bc1zw508d6qejxtdg4y5r3zarvaryvaxxpcs", "5210751e76e8199196d454941c45d1b3a323"),
    ("tb1qqqqqp399et2xygdj5xreqhjjvcmzhxw4aywxecjdzew6hylgvsesrxh6hy", "0020000000c4a5cad46221b2a187905e5266362b99d5e91c6ce24d165dab93e86433"),
    ("tb1pqqqqp399et2xygdj5xreqhjjvcmzhxw4aywxecjdzew6hylgvsesf3hn0c", "5120000000c4a5cad46221b2a187905e5266362b99d5e91c6ce24d165dab93e86433"),
    ("bc1p0xlxvlhemja6c4dqv22uapctqupfhlxm9h8z3k2e72q4k9hcz7vqzk5jj0", "512079be667ef9dcbbac55a06295ce870b07029bfcdb2dce28d959f2815b16f81798"),
]
INVALID_ADDR = [
    "tc1qw508d6qejxtdg4y5r3zarvary0c5xw7kg3g4ty", "bc1qw508d6qejxtdg4y5r3zarvary0c5xw7kv8f3t5",
    "BC13W508D6QEJXTDG4Y5R3ZARVARY0C5XW7KN40WF2", "bc1rw5uspcuh", "bc10w508d6qejxtdg4y5r3zarvary0c5xw7kw508d6qejxtdg4y5r3zarvary0c5xw7kw5rljs90",
    "BC1QR508D6QEJXTDG4Y5R3ZARVARYV98GJ9P", "tb1qrp33g0q5c5txsp9arysrx4k6zdkfs4nce4xj0gdcccefvpysxf3q0sL5k7",
    "bc1zw508d6qejxtdg4y5r3zarvaryvqyzf3du", "tb1qrp33g0q5c5txsp9arysrx4k6zdkfs4nce4xj0gdcccefvpysxf3pjxtptv", "bc1gmk9yu",
    "tc1p0xlxvlhemja6c4dqv22uapctqupfhlxm9h8z3k2e72q4k9hcz7vq5zuyut", "bc1p0xlxvlhemja6c4dqv22uapctqupfhlxm9h8z3k2e72q4k9hcz7vqh2y7hd",
    "tb1z0xlxvlhemja6c4dqv22uapctqupfhlxm9h8z3k2e72q4k9hcz7vqglt7rf", "BC1S0XLXVLHEMJA6C4DQV22UAPCTQUPFHLXM9H8Z3K2E72Q4K9HCZ7VQ54WELL",
    "bc1qw508d6qejxtdg4y5r3zarvary0c5xw7kemeawh", "tb1q0xlxvlhemja6c4dqv22uapctqupfhlxm9h8z3k2e72q4k9hcz7vq24jc47",
    "bc1p38j9r5y49hruaue7wxjce0updqjuyyx0kh56v8s25huc6995vvpql3jow4", "BC130XLXVLHEMJA6C4DQV22UAPCTQUPFHLXM9H8Z3K2E72Q4K9HCZ7VQ7ZWS8R",
    "bc1pw5dgrnzv", "bc1p0xlxvlhemja6c4dqv22uapctqupfhlxm9h8z3k2e72q4k9hcz7v8n0nx0muaewav253zgeav",
    "BC1QR508D6QEJXTDG4Y5R3ZARVARYV98GJ9P", "tb1p0xlxvlhemja6c4dqv22uapctqupfhlxm9h8z3k2e72q4k9hcz7vq47Zagq",
    "bc1p0xlxvlhemja6c4dqv22uapctqupfhlxm9h8z3k2e72q4k9hcz7v07qwwzcrf", "tb1p0xlxvlhemja6c4dqv22uapctqupfhlxm9h8z3k2e72q4k9hcz7vpggkg4j", "bc1gmk9yu",
]


def selftest():
    n = 0
    for s in VALID_BECH32:
        t = raw_decode(s)
        assert t is not None and t[2] == "bech32", s
        assert raw_encode(t[0], t[1], "bech32") == s.lower(), s
        n += 1
    for s in VALID_BECH32M:
        t = raw_decode(s)
        assert t is not None and t[2] == "bech32m", s
        assert raw_encode(t[0], t[1], "bech32m") == s.lower(), s
        n += 1
    for s in INVALID_RAW:
        assert raw_decode(s) is None, repr(s)
        n += 1
    for a, spk in VALID_ADDR:
        hrp = a[:2].lower()
        r = segwit_decode(hrp, a)
        assert r is not None, a
        ver, prog = r
        spk = bytes.fromhex(spk)
        assert spk == bytes([ver + 0x50 if ver else 0, len(prog)]) + prog, a
        assert segwit_encode(hrp, ver, prog) == a.lower(), a
        n += 1
    for a in INVALID_ADDR:
        assert segwit_decode("bc", a) is None and segwit_decode("tb", a) is None, a
        n += 1
    for L in range(0, 45):
        d = bytes((7 * i + L) & 255 for i in range(L))
        assert from5(to5(d)) == d
        n += 1
    return n
