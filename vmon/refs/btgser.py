"""Independent Bitcoin Gold (BTG) block header / block wire serialisation and the three P2P messages that carry it.

Written from the BTCGPU "Technical Spec" (block header after the fork) - NOT from pycoin:

    offset  size  field
      0      4    version            (u32 little-endian)
      4     32    previous block hash (wire order)
     36     32    merkle root         (wire order)
     68      4    height             (u32 little-endian)
     72     28    reserved            (7 x u32, all zero)
    100      4    time               (u32 little-endian)
    104      4    bits               (u32 little-endian)
    108     32    nonce              (32 bytes, wire order)
    140      v    Equihash solution  (compact-size length, then the bytes; 1344 bytes for Equihash<200,9>, giving the
                                      well-known 1487-byte header; 100 bytes for <144,5>, 36 bytes for regtest <48,5>)

header = {"version", "prev", "root", "height", "time", "bits", "nonce": 32 bytes, "solution": bytes}
block  = header, compact-size transaction count, the transactions (refs/txser form - BTG transactions are Bitcoin's).
Messages (Bitcoin protocol documentation, with the BTG header in place of the 80-byte one):
    headers      compact-size count, then per entry header + compact-size transaction count
    merkleblock  header, u32 total transactions, compact-size count + 32-byte hashes, compact-size count + flag bytes
    block        the block
FORK_HEIGHT is the public chain parameter (first BTG block): only used to bias generated heights towards it.
"""
from . import txser

FORK_HEIGHT = 491407
FIXED_LEN = 140
HEADER_KEYS = {"version", "prev", "root", "height", "time", "bits", "nonce", "solution"}


def ser_header(h):
    if set(h) != HEADER_KEYS or len(h["prev"]) != 32 or len(h["root"]) != 32 or len(h["nonce"]) != 32:
        raise ValueError("not a BTG header value")
    out = bytearray()
    out += h["version"].to_bytes(4, "little")
    out += h["prev"]
    out += h["root"]
    out += h["height"].to_bytes(4, "little")
    out += bytes(28)
    out += h["time"].to_bytes(4, "little")
    out += h["bits"].to_bytes(4, "little")
    out += h["nonce"]
    if len(out) != FIXED_LEN:
        raise ValueError("header fields have wrong sizes")
    return bytes(out) + txser.varstr(h["solution"])


def rd_header(r):
    """header at the reader's position; the reserved words are skipped (their value is not a field)"""
    h = {"version": r.u(4), "prev": bytes(r.take(32)), "root": bytes(r.take(32)), "height": r.u(4)}
    r.take(28)
    h.update({"time": r.u(4), "bits": r.u(4), "nonce": bytes(r.take(32))})
    h["solution"] = bytes(r.varstr())
    return h


def rd_vector(r, dec):
    return [dec(r) for _ in range(r.csize())]


def rd_tx(r):
    tx, used = txser.parse(r.b[r.pos:], allow_trailing=True)
    r.pos += used
    return tx


def vector(items, enc):
    return txser.csize(len(items)) + b"".join(enc(i) for i in items)


def encode(name, f):
    if name == "headers":
        return vector(f["headers"], lambda e: ser_header(e["header"]) + txser.csize(e["txn_count"]))
    if name == "merkleblock":
        return (ser_header(f["header"]) + f["total_transactions"].to_bytes(4, "little") + vector(f["hashes"], bytes)
                + txser.varstr(bytes(f["flags"])))
    if name == "block":
        return ser_header(f["block"]["header"]) + vector(f["block"]["txs"], txser.serialize)
    raise KeyError(name)


def decode(name, data):
    r = txser.Reader(bytes(data))
    if name == "headers":
        d = {"headers": rd_vector(r, lambda r: {"header": rd_header(r), "txn_count": r.csize()})}
    elif name == "merkleblock":
        d = {"header": rd_header(r), "total_transactions": r.u(4), "hashes": rd_vector(r, lambda r: bytes(r.take(32))),
             "flags": list(r.varstr())}
    elif name == "block":
        h = rd_header(r)
        d = {"block": {"header": h, "txs": rd_vector(r, rd_tx)}}
    else:
        raise KeyError(name)
    if r.pos != len(r.b):
        raise ValueError("trailing bytes")
    return d


MESSAGES = ("headers", "merkleblock", "block")


def selftest():
    prev, root, nonce = bytes(range(32)), bytes(range(32, 64)), bytes(range(100, 132))
    sol = bytes((i * 7) & 0xff for i in range(1344))
    h = {"version": 0x20000000, "prev": prev, "root": root, "height": FORK_HEIGHT, "time": 0x5a0b5c4e, "bits": 0x1d00ffff,
         "nonce": nonce, "solution": sol}
    b = ser_header(h)
    # hand-assembled, field by field at the documented offsets
    hand = (bytes.fromhex("00000020") + prev + root + bytes.fromhex("8f7f0700") + bytes.fromhex("00" * 28)
            + bytes.fromhex("4e5c0b5a") + bytes.fromhex("ffff001d") + nonce + bytes.fromhex("fd4005") + sol)
    assert b == hand and len(b) == 1487, "BTG header: 140 fixed bytes + fd4005 + 1344 = 1487"
    assert b[68:72] == (491407).to_bytes(4, "little") and b[72:100] == bytes(28) and b[140:143] == b"\xfd\x40\x05"
    for n, pre in ((0, "00"), (1, "01"), (36, "24"), (100, "64"), (252, "fc"), (253, "fdfd00"), (400, "fd9001")):
        hh = dict(h, solution=bytes(n), height=n)
        bb = ser_header(hh)
        assert len(bb) == 140 + len(pre) // 2 + n and bb[140:140 + len(pre) // 2].hex() == pre
        assert rd_header(txser.Reader(bb)) == hh
    cb = {"version": 1, "ins": [{"prev": bytes(32), "index": 0xffffffff, "script": b"\x04\xff\xff\x00\x1d", "sequence": 0xffffffff,
                                 "witness": []}], "outs": [{"value": 50 * 10 ** 8, "script": b"\x51"}], "lock_time": 0}
    cases = [("headers", {"headers": []}), ("headers", {"headers": [{"header": h, "txn_count": 0}, {"header": dict(h, solution=b""), "txn_count": 300}]}),
             ("merkleblock", {"header": h, "total_transactions": 1, "hashes": [root], "flags": [1]}),
             ("block", {"block": {"header": dict(h, height=0, solution=b"\x01\x02"), "txs": [cb, cb]}})]
    for name, f in cases:
        assert decode(name, encode(name, f)) == f, name
    assert encode("headers", cases[0][1]) == b"\x00"
    assert encode("headers", cases[1][1]) == b"\x02" + b + b"\x00" + ser_header(dict(h, solution=b"")) + b"\xfd\x2c\x01"
    assert encode("merkleblock", cases[2][1]) == b + b"\x01\x00\x00\x00" + b"\x01" + root + b"\x01\x01"
    blk = encode("block", cases[3][1])
    assert blk[:143] == ser_header(dict(h, height=0, solution=b"\x01\x02")) and blk[143] == 2 and blk[144:] == txser.serialize(cb) * 2
    return {"btg_header_len_equihash_200_9": len(b), "cases": len(cases) + 7}
