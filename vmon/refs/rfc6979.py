"""RFC 6979 section 3.2 deterministic nonce (HMAC_DRBG), generic in the hash function and in qlen.

Written from the RFC text (sections 2.3.2-2.3.4 for the conversions, 3.2 steps a-h for the generator).
Inputs are the *octet string* h1 = H(m), the group order q and the private key x. Nothing here imports pycoin.

    candidates(q, x, h1, hashfunc)   iterator over the successive values the RFC's step h produces that lie in [1, q-1]
                                     (a caller whose r or s came out zero asks for the next one, as step h.3 says)
    nonce(q, x, h1, hashfunc)        the first of them
"""
import hashlib
import hmac


def bits2int(octets, qlen):
    """2.3.2: the leftmost qlen bits of the bit string, as a big-endian integer (whole string when shorter)."""
    blen = 8 * len(octets)
    v = int.from_bytes(octets, "big")
    return v >> (blen - qlen) if blen > qlen else v


def int2octets(v, q):
    """2.3.3: big-endian, rlen = 8*ceil(qlen/8) bits; v < q."""
    assert 0 <= v < q
    return v.to_bytes((q.bit_length() + 7) // 8, "big")


def bits2octets(octets, q):
    """2.3.4: int2octets(bits2int(b) mod q)."""
    return int2octets(bits2int(octets, q.bit_length()) % q, q)


class HmacDrbg:
    """The K/V state machine of section 3.2 (steps b-g on construction, step h per call of next_bits)."""

    def __init__(self, hashfunc, seed_material):
        self.h = hashfunc
        hlen = hashfunc().digest_size
        self.V = b"\x01" * hlen                                           # b
        self.K = b"\x00" * hlen                                           # c
        self._mac_k(b"\x00" + seed_material)                              # d, e
        self._mac_k(b"\x01" + seed_material)                              # f, g

    def _mac(self, data):
        return hmac.new(self.K, data, self.h).digest()

    def _mac_k(self, tail):
        self.K = self._mac(self.V + tail)
        self.V = self._mac(self.V)

    def next_bits(self, nbits):
        """h.1 + h.2: T grown by V = HMAC_K(V) until it has nbits; returns T."""
        T = b""
        while 8 * len(T) < nbits:
            self.V = self._mac(self.V)
            T += self.V
        return T

    def reject(self):
        """h.3, candidate unsuitable: K = HMAC_K(V || 0x00); V = HMAC_K(V)."""
        self._mac_k(b"\x00")


def candidates(q, x, h1, hashfunc=hashlib.sha256):
    qlen = q.bit_length()
    drbg = HmacDrbg(hashfunc, int2octets(x, q) + bits2octets(h1, q))
    while True:
        k = bits2int(drbg.next_bits(qlen), qlen)
        if 1 <= k < q:
            yield k
        drbg.reject()


def nonce(q, x, h1, hashfunc=hashlib.sha256):
    return next(candidates(q, x, h1, hashfunc))


# ---------------------------------------------------------------------------------------------
# Published vectors. A.2.5 (P-256, SHA-256) recalled from the RFC and admitted because they agree with this
# implementation and with refs/ec arithmetic (k -> r, s); A.1 / A.2.3 / the P-224 one are the values carried by
# /repo/tests/ecdsa/rfc6979_test.py, copied here as data.

P256_X = 0xC9AFA9D845BA75166B5C215767B1D6934E50C3DB36E89B127B8A622B120F6721
P256_U = (0x60FED4BA255A9D31C961EB74C6356D68C049B8923B61FA6CE669622E60F29FB6,
          0x7903FE1008B8BC99A41AE9E95628BC64F2F1B20C2D7E9F5177A3C294D4462299)
P256_SHA256 = {
    b"sample": (0xA6E3C57DD01ABE90086538398355DD4C3B17AA873382B0F24D6129493D8AAD60,
                0xEFD48B2AACB6A8FD1140DD9CD45E81D69D2C877B56AAF991C34D0EA84EAF3716,
                0xF7CB1C942D657C41D436C7A1B6E29F65F3E900DBB9AFF4064DC4AB2F843ACDA8),
    b"test": (0xD16B6AE827F17175E040871A1C7EC3500192C4C92677336EC2537ACAEE0008E0,
              0xF1ABB023518351CD71D881567B1EA663ED3EFCF6C5132B354F28D3B0B7D38367,
              0x019F4113742A2B14BD25926B49C649155F267E60D3814B4C0CC84250E46F0083),
}

A1_Q = 0x4000000000000000000020108A2E0CC0D99F8A5EF
A1_X = 0x09A4D6792295A7F730FC3F2B49CBC0F62E862272F
A1_K_SHA256_SAMPLE = 0x23AF4074C90A02B3FE61D286D5C87F425E6BDD81B

P192_Q = 0xFFFFFFFFFFFFFFFFFFFFFFFF99DEF836146BC9B1B4D22831
P192_X = 0x6FAB034934E4C0FC9AE67F5B5659A9D7D1FEFD187EE09FD4
P192_K = {
    b"sample": (("sha1", 0x37D7CA00D2C7B0E5E412AC03BD44BA837FDD5B28CD3B0021),
                ("sha224", 0x4381526B3FC1E7128F202E194505592F01D5FF4C5AF015D8),
                ("sha256", 0x32B1B6D7D42A05CB449065727A84804FB1A3E34D8F261496),
                ("sha384", 0x4730005C4FCB01834C063A7B6760096DBE284B8252EF4311),
                ("sha512", 0xA2AC7AB055E4F20692D49209544C203A7D1F2C0BFBC75DB1)),
    b"test": (("sha1", 0xD9CF9C3D3297D3260773A1DA7418DB5537AB8DD93DE7FA25),
              ("sha224", 0xF5DC805F76EF851800700CCE82E7B98D8911B7D510059FBE),
              ("sha256", 0x5C4CE89CF56D9E7C77C8585339B006B97B5F0680B4306C6C),
              ("sha384", 0x5AFEFB5D3393261B828DB6C91FBC68C230727B030C975693),
              ("sha512", 0x0758753A5254759C7CFBAD2E2D9B0792EEE44136C9480527)),
}

P224_Q = 0xFFFFFFFFFFFFFFFFFFFFFFFFFFFF16A2E0B8F03E13DD29455C5C2A3D
P224_X = 0xF220266E1105BFE3083E03EC7A3A654651F45E37167E88600BF257C1
P224_K_SHA256_SAMPLE = 0xAD3029E0278F80643DE33917CE6908C70A8FF50A411F06E41DEDFCDC


def selftest():
    from vmon.refs import ec
    n = 0
    # A.1: qlen = 163, hlen = 256 (bits2int truncates, rlen = 168)
    assert nonce(A1_Q, A1_X, hashlib.sha256(b"sample").digest()) == A1_K_SHA256_SAMPLE
    n += 1
    # A.2.3: qlen = 192 against hlen 160, 224, 256, 384, 512 (shorter, longer and much longer than qlen)
    for msg, rows in P192_K.items():
        for hname, k in rows:
            hf = getattr(hashlib, hname)
            assert nonce(P192_Q, P192_X, hf(msg).digest(), hf) == k, (msg, hname)
            n += 1
    assert nonce(P224_Q, P224_X, hashlib.sha256(b"sample").digest()) == P224_K_SHA256_SAMPLE
    n += 1
    # A.2.5: k, then r and s through the independent curve arithmetic
    c = ec.SECP256R1
    assert c.mul(P256_X, c.G) == P256_U
    for msg, (k, r, s) in P256_SHA256.items():
        h1 = hashlib.sha256(msg).digest()
        assert nonce(c.n, P256_X, h1) == k
        R = c.mul(k, c.G)
        e = bits2int(h1, 256) % c.n
        assert R[0] % c.n == r
        assert pow(k, -1, c.n) * (e + P256_X * r) % c.n == s
        n += 1
    # the retry path: candidates() keeps producing in-range, non-repeating values and its first equals nonce()
    it = candidates(c.n, P256_X, hashlib.sha256(b"sample").digest())
    seq = [next(it) for _ in range(4)]
    assert seq[0] == P256_SHA256[b"sample"][0] and len(set(seq)) == 4 and all(1 <= v < c.n for v in seq)
    # out-of-range candidates are skipped (tiny q: half of the 3-bit candidates are >= q or 0)
    for q in (5, 7, 11, 13):
        for x in range(1, q):
            it = candidates(q, x, b"\x01" * 32)
            assert all(1 <= next(it) < q for _ in range(6))
            n += 1
    return {"vectors": n}
