"""Independent model of the Wallet Import Format (C10).

WIF text = Base58Check(prefix || 32-byte big-endian secret exponent [|| 0x01 when the public key is to be used in
compressed form]), 1 <= exponent < n (order of secp256k1).  Nothing else is the WIF of a key: a 33-byte body whose last
byte is not 0x01, bodies of any other length, a foreign prefix, an exponent outside the range.  Imports nothing from pycoin.
"""
from . import b58 as RB, ec

N = ec.SECP256K1.n

REASONS = ("checksum", "prefix", "length", "marker", "range")


def encode(prefix, se, compressed):
    return RB.encode_check(prefix + se.to_bytes(32, "big") + (b"\x01" if compressed else b""))


def classify_payload(prefix, payload):
    """-> ("ok", se, compressed) | (reason, None, None); payload = checksummed content (prefix included)."""
    if payload is None:
        return ("checksum", None, None)
    if not payload.startswith(prefix):
        return ("prefix", None, None)
    body = payload[len(prefix):]
    if len(body) == 32:
        comp = False
    elif len(body) == 33:
        if body[32] != 1:
            return ("marker", None, None)
        comp = True
    else:
        return ("length", None, None)
    se = int.from_bytes(body[:32], "big")
    if not 1 <= se < N:
        return ("range", None, None)
    return ("ok", se, comp)


def classify(prefix, text):
    return classify_payload(prefix, RB.decode_check(text) if isinstance(text, str) else None)


# published examples: Bitcoin wiki "Wallet import format" (the 0C28... key, both forms) and the well-known WIFs of the
# secret exponent 1 on mainnet (prefix 80) / testnet (prefix ef)
VECTORS = [
    (b"\x80", 0x0C28FCA386C7A227600B2FE50B7CAE11EC86D3BF1FBE471BE89827E19D72AA1D, False, "5HueCGU8rMjxEXxiPuD5BDku4MkFqeZyd4dZ1jvhTVqvbTLvyTJ"),
    (b"\x80", 0x0C28FCA386C7A227600B2FE50B7CAE11EC86D3BF1FBE471BE89827E19D72AA1D, True, "KwdMAjGmerYanjeui5SHS7JkmpZvVipYvB2LJGU1ZxJwYvP98617"),
    (b"\x80", 1, False, "5HpHagT65TZzG1PH3CSu63k8DbpvD8s5ip4nEB3kEsreAnchuDf"),
    (b"\x80", 1, True, "KwDiBf89QgGbjEhKnhXJuH7LrciVrZi3qYjgd9M7rFU73sVHnoWn"),
    (b"\xef", 1, True, "cMahea7zqjxrtgAbB7LSGbcQUr1uX1ojuat9jZodMN87JcbXMTcA"),
]


def selftest():
    for prefix, se, comp, text in VECTORS:
        assert encode(prefix, se, comp) == text, (text, encode(prefix, se, comp))
        assert classify(prefix, text) == ("ok", se, comp), text
    p = b"\x80"
    b1 = (1).to_bytes(32, "big")
    assert classify_payload(p, p + b1 + b"\x00")[0] == "marker"
    assert classify_payload(p, p + b1 + b"\x02")[0] == "marker"
    assert classify_payload(p, p + b1 + b"\x01\x01")[0] == "length"
    assert classify_payload(p, p + b1[1:])[0] == "length"
    assert classify_payload(p, b"\xef" + b1)[0] == "prefix"
    assert classify_payload(p, p + bytes(32))[0] == "range"
    assert classify_payload(p, p + N.to_bytes(32, "big") + b"\x01")[0] == "range"
    assert classify_payload(p, p + (N - 1).to_bytes(32, "big") + b"\x01") == ("ok", N - 1, True)
    assert classify(p, "5HueCGU8rMjxEXxiPuD5BDku4MkFqeZyd4dZ1jvhTVqvbTLvyTK")[0] == "checksum"
    # every single-byte marker: exactly one of the 256 is the WIF of a key
    assert sum(classify_payload(p, p + b1 + bytes([m]))[0] == "ok" for m in range(256)) == 1
    return {"vectors": len(VECTORS)}
