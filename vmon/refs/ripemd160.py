"""RIPEMD-160 reference.

`digest(data)` is hashlib's (OpenSSL) RIPEMD-160 when the interpreter has it, else the from-specification
implementation below.  `pure(data)` is always the from-specification one.  It is written from the description in
Dobbertin/Bosselaers/Preneel, "RIPEMD-160: a strengthened version of RIPEMD" (the tables of ISO/IEC 10118-3): the word
selections are *generated* from the permutations rho and pi of the paper, the rotation amounts are the paper's
5 x 16 table indexed by (round, message word), and the two lines are run one after the other, not interleaved.
Nothing here imports pycoin.
"""
import hashlib

_hashlib_new = hashlib.new      # captured at import: C19 simulates an OpenSSL without ripemd160 by patching hashlib.new

M32 = 0xffffffff

RHO = (7, 4, 13, 1, 10, 6, 15, 3, 12, 0, 9, 5, 2, 14, 11, 8)
PI = tuple((9 * i + 5) % 16 for i in range(16))

# rotation amount for message word w in round r (same table for both lines)
SHIFT = ((11, 14, 15, 12, 5, 8, 7, 9, 11, 13, 14, 15, 6, 7, 9, 8),
         (12, 13, 11, 15, 6, 9, 9, 7, 12, 15, 11, 13, 7, 8, 7, 7),
         (13, 15, 14, 11, 7, 7, 6, 8, 13, 14, 13, 12, 5, 5, 6, 9),
         (14, 11, 12, 14, 8, 6, 5, 5, 15, 12, 15, 14, 9, 9, 8, 6),
         (15, 12, 13, 13, 9, 5, 8, 6, 14, 11, 12, 11, 8, 6, 5, 5))

# added constants: integer parts of 2^30 * (sqrt, cbrt) of 2, 3, 5, 7
K_LEFT = (0x00000000, 0x5a827999, 0x6ed9eba1, 0x8f1bbcdc, 0xa953fd4e)
K_RIGHT = (0x50a28be6, 0x5c4dd124, 0x6d703ef3, 0x7a6d76e9, 0x00000000)

IV = (0x67452301, 0xefcdab89, 0x98badcfe, 0x10325476, 0xc3d2e1f0)


def _word_order():
    """Left line: id, rho, rho^2, rho^3, rho^4.  Right line: pi, rho.pi, rho^2.pi, ..."""
    left, right = [], []
    l = tuple(range(16))
    r = PI
    for _ in range(5):
        left.append(l)
        right.append(r)
        l = tuple(RHO[i] for i in l)
        r = tuple(RHO[i] for i in r)
    return left, right


WORDS_LEFT, WORDS_RIGHT = _word_order()

_F = (lambda x, y, z: x ^ y ^ z,
      lambda x, y, z: (x & y) | ((x ^ M32) & z),
      lambda x, y, z: (x | (y ^ M32)) ^ z,
      lambda x, y, z: (x & z) | (y & (z ^ M32)),
      lambda x, y, z: x ^ (y | (z ^ M32)))


def _rol(x, s):
    return ((x << s) | (x >> (32 - s))) & M32


def _line(state, X, words, consts, funcs):
    a, b, c, d, e = state
    for rnd in range(5):
        f = _F[funcs[rnd]]
        k = consts[rnd]
        sh = SHIFT[rnd]
        for w in words[rnd]:
            t = (_rol((a + f(b, c, d) + X[w] + k) & M32, sh[w]) + e) & M32
            a, e, d, c, b = e, d, _rol(c, 10), b, t
    return a, b, c, d, e


def _compress(h, block):
    X = [int.from_bytes(block[4 * i:4 * i + 4], "little") for i in range(16)]
    al, bl, cl, dl, el = _line(h, X, WORDS_LEFT, K_LEFT, (0, 1, 2, 3, 4))
    ar, br, cr, dr, er = _line(h, X, WORDS_RIGHT, K_RIGHT, (4, 3, 2, 1, 0))
    return ((h[1] + cl + dr) & M32, (h[2] + dl + er) & M32, (h[3] + el + ar) & M32,
            (h[4] + al + br) & M32, (h[0] + bl + cr) & M32)


def pure(data):
    data = bytes(data)
    bitlen = (8 * len(data)) & 0xffffffffffffffff
    # MD4-style padding: 0x80, zeros to 56 mod 64, 64-bit little-endian bit length
    msg = data + b"\x80"
    msg += b"\x00" * ((56 - len(msg)) % 64)
    msg += bitlen.to_bytes(8, "little")
    assert len(msg) % 64 == 0
    h = IV
    for off in range(0, len(msg), 64):
        h = _compress(h, msg[off:off + 64])
    return b"".join(x.to_bytes(4, "little") for x in h)


def native_available():
    try:
        _hashlib_new("ripemd160", b"")
        return True
    except Exception:
        return False


_NATIVE = native_available()


def digest(data):
    if _NATIVE:
        return _hashlib_new("ripemd160", bytes(data)).digest()
    return pure(data)


def hash160(data):
    return digest(hashlib.sha256(bytes(data)).digest())


def double_sha256(data):
    return hashlib.sha256(hashlib.sha256(bytes(data)).digest()).digest()


# Bosselaers' published test vectors (https://homes.esat.kuleuven.be/~bosselae/ripemd160.html)
VECTORS = [(b"", "9c1185a5c5e9fc54612808977ee8f548b2258d31"),
           (b"a", "0bdc9d2d256b3ee9daae347be6f4dc835a467ffe"),
           (b"abc", "8eb208f7e05d987a9b044a8e98c6b087f15a0bfc"),
           (b"message digest", "5d0689ef49d2fae572b881b123a85ffa21595f36"),
           (b"abcdefghijklmnopqrstuvwxyz", "f71c27109c692c1b56bbdceb5b9d2865b3708dbc"),
           (b"abcdbcdecdefdefgefghfghighijhijkijkljklmklmnlmnomnopnopq", "12a053384a9c0c88e405a06c27dcf49ada62eb2b"),
           (b"ABCDEFGHIJKLMNOPQRSTUVWXYZabcdefghijklmnopqrstuvwxyz0123456789", "b0e20b6e3116640286ed3a87a5713079b21f5189"),
           (b"1234567890" * 8, "9b752e45573d4b39f4dbd3323cab82bf63326bfb"),
           (b"a" * 1000000, "52783243c1697bdbe16d37f97f68f08325dc1528")]


def selftest(million=True):
    n = 0
    for msg, hx in VECTORS:
        if len(msg) > 100000 and not million:
            continue
        assert pure(msg).hex() == hx, (msg[:20], pure(msg).hex())
        assert digest(msg).hex() == hx
        n += 1
    # well-known compound digests: HASH160 of the generator's compressed public key (address 1BgGZ9tc...),
    # double SHA-256 of the empty string, and the genesis block header
    g = bytes.fromhex("0279be667ef9dcbbac55a06295ce870b07029bfcdb2dce28d959f2815b16f81798")
    assert hash160(g).hex() == "751e76e8199196d454941c45d1b3a323f1433bd6"
    assert pure(hashlib.sha256(g).digest()).hex() == "751e76e8199196d454941c45d1b3a323f1433bd6"
    assert double_sha256(b"").hex() == "5df6e0e2761359d30a8275058e299fcc0381534545f55cf43e41983f5d4c9456"
    hdr = bytes.fromhex("0100000000000000000000000000000000000000000000000000000000000000000000003ba3edfd7a7b12b27ac72c3e"
                        "67768f617fc81bc3888a51323a9fb8aa4b1e5e4a29ab5f49ffff001d1dac2b7c")
    assert double_sha256(hdr)[::-1].hex() == "000000000019d6689c085ae165831e934ff763ae46a2a6c172b3f1b60a8ce26f"
    n += 4
    # the from-spec implementation against the native one on every length across three blocks
    native = 0
    if _NATIVE:
        for L in range(0, 200):
            for fill in (b"\x00", b"\xff", bytes([L & 0xff, (L * 7 + 1) & 0xff, 0x80])):
                m = (fill * (L // len(fill) + 1))[:L]
                assert pure(m) == _hashlib_new("ripemd160", m).digest(), L
                native += 1
    return {"vectors": n, "pure_vs_native_lengths": native, "native_available": _NATIVE}
