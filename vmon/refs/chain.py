"""Heaviest-chain oracle over a set of delivered headers, written from the definition.

A header is (hash, parent, weight) with weight > 0.  `delivered` maps hash -> (parent, weight) for the first
delivery of each hash.  A *chain* is a list [h0, h1, ...] with parent(h0) = anchor and parent(h[i]) = h[i-1];
its weight is the sum of its members' weights (the empty chain has weight 0).  With a locked prefix L the
admissible chains are those that start with L.

Also here: enumeration of the small finite history spaces (acyclic parent functions, batchings) and the
replay of add/remove operations.  Nothing here imports pycoin.
"""
import itertools

ANCHOR = -1      # parent code in a parent function: the anchor
UNKNOWN = -2     # parent code: a hash that is never delivered


# -- the definition, brute force -------------------------------------------------------------------

def all_chains(delivered, anchor):
    """Every chain descending from the anchor (including the empty one), by growing chains child by child."""
    children = {}
    for h, (p, _w) in delivered.items():
        children.setdefault(p, []).append(h)
    out = [[]]
    stack = [[h] for h in children.get(anchor, []) if h != anchor]
    while stack:
        c = stack.pop()
        out.append(c)
        for k in children.get(c[-1], []):
            if k in c or k == anchor:      # only reachable on inputs outside the quantifier (cycles)
                continue
            stack.append(c + [k])
    return out


def chain_weight(chain, delivered):
    return sum(delivered[h][1] for h in chain)


def brute_best_weight(delivered, anchor, locked=()):
    locked = list(locked)
    best = None
    for c in all_chains(delivered, anchor):
        if c[:len(locked)] != locked:
            continue
        w = chain_weight(c, delivered)
        if best is None or w > best:
            best = w
    return best


def count_best(delivered, anchor, locked=()):
    """How many distinct admissible chains have the maximum weight (>1 = a tie)."""
    locked = list(locked)
    ws = [chain_weight(c, delivered) for c in all_chains(delivered, anchor) if c[:len(locked)] == locked]
    return ws.count(max(ws)) if ws else 0


# -- the fast form used per step ---------------------------------------------------------------------

def best_weight(delivered, anchor, locked=()):
    """Maximum weight of a chain from the anchor that starts with `locked` (None when `locked` itself is not a
    chain of delivered headers).  Walks every header up to the anchor once (memoised)."""
    return best_weight_ties(delivered, anchor, locked)[0]


def best_weight_ties(delivered, anchor, locked=()):
    """-> (best_weight(...), number of distinct admissible chains that have that weight). A chain is identified by
    its tip, so the count is the number of admissible tips whose total equals the maximum (the empty chain counts
    when nothing is locked and nothing reaches the anchor)."""
    locked = list(locked)
    tip = locked[-1] if locked else anchor
    # total[h] = (weight of the chain anchor..h, passes_through_tip) or None when h does not reach the anchor
    total = {}

    def resolve(h):
        path = []
        cur = h
        while True:
            if cur in total:
                base = total[cur]
                break
            if cur == anchor:
                base = (0, not locked)
                break
            if cur not in delivered or cur in path:
                base = None
                break
            path.append(cur)
            cur = delivered[cur][0]
        for x in reversed(path):
            if base is not None:
                base = (base[0] + delivered[x][1], base[1] or x == tip)
            total[x] = base
        return total[h] if path else base

    if locked:
        exp = anchor
        for h in locked:
            if h not in delivered or delivered[h][0] != exp:
                return None, 0
            exp = h
    best = None
    ties = 0
    for h in delivered:
        t = resolve(h)
        if t is not None and t[1]:
            if best is None or t[0] > best:
                best = t[0]
                ties = 1
            elif t[0] == best:
                ties += 1
    if not locked and best is None:
        best = 0            # the empty chain
        ties = 1
    return best, ties


def linked_defect(chain, delivered, anchor):
    """None when `chain` is parent-linked from the anchor through delivered headers, else a short reason."""
    exp = anchor
    seen = set()
    for i, h in enumerate(chain):
        if h not in delivered:
            return "index %d holds a hash that was never delivered" % i
        if h in seen:
            return "index %d repeats a hash" % i
        seen.add(h)
        if delivered[h][0] != exp:
            return "index %d: parent of the header is not the previous entry%s" % (i, " (anchor)" if i == 0 else "")
        exp = h
    return None


def replay_op(lst, kind, h, index):
    """Apply one ('add'|'remove', hash, index) to lst. Returns None or a reason why the op is not applicable."""
    if kind == "add":
        if index != len(lst):
            return "add at index %r but the list has %d entries" % (index, len(lst))
        lst.append(h)
        return None
    if kind == "remove":
        if not lst or index != len(lst) - 1:
            return "remove at index %r but the tip is at %d" % (index, len(lst) - 1)
        if lst[-1] != h:
            return "remove at index %r names a hash that is not the tip" % (index,)
        lst.pop()
        return None
    return "unknown op kind %r" % (kind,)


# -- finite history spaces ----------------------------------------------------------------------------

def parent_functions(n):
    """Every function i -> ANCHOR | UNKNOWN | j (j != i) on n labelled headers without cycles."""
    choices = [[ANCHOR, UNKNOWN] + [j for j in range(n) if j != i] for i in range(n)]
    for pf in itertools.product(*choices):
        ok = True
        for i in range(n):
            cur, steps = i, 0
            while cur >= 0:
                cur = pf[cur]
                steps += 1
                if steps > n:
                    ok = False
                    break
            if not ok:
                break
        if ok:
            yield pf


def batchings(n):
    """Every composition of n: tuples of positive batch sizes summing to n (2^(n-1) of them)."""
    if n == 0:
        yield ()
        return
    for first in range(1, n + 1):
        for rest in batchings(n - first):
            yield (first,) + rest


def canonical_history(pf, order, sizes, locks=()):
    """Label-independent key: headers renamed by first-delivery position; parents in those names."""
    pos = {}
    for h in order:
        if h not in pos:
            pos[h] = len(pos)
    ren = lambda p: p if p < 0 else pos.get(p, -3)
    return (tuple(ren(pf[h]) for h in sorted(pos, key=pos.get)), tuple(pos[h] for h in order), tuple(sizes), tuple(locks))


def shape_flags(pf, order):
    """(has_fork, has_orphan): two headers share a parent / a header is delivered before its parent or never
    gets one."""
    seen_parent = set()
    fork = False
    for i, p in enumerate(pf):
        if p == UNKNOWN:
            continue
        if p in seen_parent:
            fork = True
        seen_parent.add(p)
    first = {}
    for k, h in enumerate(order):
        first.setdefault(h, k)
    orphan = any(p == UNKNOWN or (p >= 0 and first.get(p, 1 << 30) > first.get(i, -1)) for i, p in enumerate(pf) if i in first)
    return fork, orphan


# -- self-test ------------------------------------------------------------------------------------------

def selftest(rng=None):
    import random
    rng = rng or random.Random(5)
    # counting laws: acyclic parent functions with two kinds of root = 2 (n+2)^(n-1); compositions = 2^(n-1)
    counts = {}
    for n in range(1, 6):
        c = sum(1 for _ in parent_functions(n))
        assert c == 2 * (n + 2) ** (n - 1), (n, c)
        counts[n] = c
        assert sum(1 for _ in batchings(n)) == 2 ** (n - 1)
        assert all(sum(b) == n and min(b) > 0 for b in batchings(n))
    # hand cases
    A = "A"
    d = {0: (A, 1), 1: (0, 1), 2: (0, 1), 3: (1, 1)}
    assert best_weight(d, A) == 3 == brute_best_weight(d, A)
    assert best_weight(d, A, [0, 2]) == 2 == brute_best_weight(d, A, [0, 2])
    assert best_weight({1: (0, 1), 3: (1, 1)}, A) == 0 == brute_best_weight({1: (0, 1), 3: (1, 1)}, A)
    assert best_weight(d, A, [2]) is None and brute_best_weight(d, A, [2]) is None
    d2 = {0: (A, 1), 1: (0, 1), 2: (1, 1), 9: (0, 5)}
    assert best_weight(d2, A) == 6 and best_weight(d2, A, [0, 1]) == 3
    assert count_best(d, A) == 1 and count_best(d, A, [0, 2]) == 1 and count_best({0: (A, 1), 1: (0, 1), 2: (0, 1)}, A) == 2
    assert count_best({0: (A, 1), 1: (0, 1), 2: (0, 1)}, A, [0, 1]) == 1 and count_best({}, A) == 1
    assert linked_defect([0, 1, 3], d, A) is None
    assert linked_defect([0, 3], d, A) and linked_defect([1], d, A) and linked_defect([0, 7], d, A)
    assert linked_defect([], d, A) is None
    # DP == brute force on every parent function of up to 4 headers (all delivered), two weightings, every lock
    compared = 0
    for n in range(1, 5):
        for pf in parent_functions(n):
            for weights in ([1] * n, [rng.randrange(1, 6) for _ in range(n)]):
                d = {h: ({ANCHOR: A, UNKNOWN: "U"}.get(pf[h], pf[h]), weights[h]) for h in range(n)}
                chains = all_chains(d, A)
                for c in chains:
                    assert linked_defect(c, d, A) is None
                for c in chains:
                    for k in range(len(c) + 1):
                        assert best_weight(d, A, c[:k]) == brute_best_weight(d, A, c[:k]), (pf, weights, c[:k])
                        assert best_weight_ties(d, A, c[:k])[1] == count_best(d, A, c[:k]), (pf, weights, c[:k])
                        compared += 1
    # and on random larger forests with partial delivery
    for _ in range(300):
        n = rng.randrange(5, 15)
        par = [rng.choice([A, "U"] + list(range(i))) if rng.random() < 0.9 else A for i in range(n)]
        names = list(range(100, 100 + n))
        rng.shuffle(names)
        full = {names[i]: (par[i] if isinstance(par[i], str) else names[par[i]], rng.randrange(1, 9)) for i in range(n)}
        keep = [h for h in full if rng.random() < 0.8]
        d = {h: full[h] for h in keep}
        chains = all_chains(d, A)
        c = rng.choice(chains)
        k = rng.randrange(len(c) + 1)
        assert best_weight(d, A, c[:k]) == brute_best_weight(d, A, c[:k])
        assert best_weight(d, A) == brute_best_weight(d, A) == max(chain_weight(x, d) for x in chains)
        assert best_weight_ties(d, A, c[:k])[1] == count_best(d, A, c[:k]) and best_weight_ties(d, A)[1] == count_best(d, A)
        compared += 2
    # op replay
    lst = []
    assert replay_op(lst, "add", 5, 0) is None and replay_op(lst, "add", 6, 1) is None and lst == [5, 6]
    assert replay_op(lst, "add", 7, 1) and replay_op(lst, "remove", 5, 0) and replay_op(lst, "remove", 5, 1)
    assert replay_op(lst, "remove", 6, 1) is None and lst == [5]
    assert canonical_history((ANCHOR, 0), [1, 0], (2,)) == canonical_history((1, ANCHOR), [0, 1], (2,))
    assert shape_flags((ANCHOR, 0, 0), [0, 1, 2]) == (True, False)
    assert shape_flags((ANCHOR, 0, 1), [0, 2, 1]) == (False, True)
    assert shape_flags((ANCHOR, 0, 1), [0, 1, 2]) == (False, False)
    return {"parent_functions": counts, "dp_vs_bruteforce": compared}
