"""Independent model of the checksummed text forms of a bitcoin-like network (C08, C18).

Written from the format descriptions (Base58Check version-prefixed payloads, WIF, BIP32 serialisation,
BIP173/BIP350 segwit addresses, BIP13 P2SH, SEC1 point encoding). Imports nothing from pycoin; a network
is described by a plain `Params` record (prefix bytes / HRP as *declared* by the network).

analyse(params, text) -> Analysis: for every checksummed kind whose prefix the text's payload carries,
either ("ok", value) or ("bad", reason).  Kinds whose prefix does not match are simply absent.

values:
    ("script", script_bytes)
    ("key", secret_exponent, is_compressed)
    ("node", family, is_private, depth, parent_fp, child_index, chain_code, secret_exponent | (x, y))
reasons: "length", "range", "marker", "keybyte", "keytype" (valid key of the other type than the prefix says), "point", "free" (= x coordinate not reduced mod p: judged by C10, not here)
"""
import hashlib

from . import b58 as RB, bech32 as R32, ec

C = ec.SECP256K1
N = C.n
P = C.p

B58_ADDR_KINDS = ("p2pkh", "p2sh")
BIP_FAMILIES = ("bip32", "bip49", "bip84")
BIP_KINDS = tuple("%s_%s" % (f, pp) for f in BIP_FAMILIES for pp in ("prv", "pub"))
SEGWIT_KINDS = ("p2pkh_segwit", "p2sh_segwit", "p2tr")
ALL_KINDS = B58_ADDR_KINDS + ("wif",) + BIP_KINDS + SEGWIT_KINDS


class Params(object):
    FIELDS = ("symbol", "p2pkh", "p2sh", "wif", "hrp", "sec_prefix") + BIP_KINDS

    def __init__(self, **kw):
        for f in self.FIELDS:
            setattr(self, f, kw.get(f))

    def prefix(self, kind):
        return getattr(self, kind, None)

    def b58_prefixes(self):
        return [(k, getattr(self, k)) for k in B58_ADDR_KINDS + ("wif",) + BIP_KINDS if getattr(self, k) is not None]


# ---- primitives ------------------------------------------------------------------------------

def hash160(b):
    return hashlib.new("ripemd160", hashlib.sha256(b).digest()).digest()


def sec_of(point, compressed=True):
    x, y = point
    if compressed:
        return bytes([2 + (y & 1)]) + x.to_bytes(32, "big")
    return b"\x04" + x.to_bytes(32, "big") + y.to_bytes(32, "big")


def point_of_sec(sec):
    """-> (x, y), or None (no such encoding / no such point), or "free" when a coordinate is >= p."""
    if len(sec) == 33 and sec[0] in (2, 3):
        x = int.from_bytes(sec[1:], "big")
        if x >= P:
            return "free"
        pts = C.lift_x(x)
        if pts is None:
            return None
        return pts[sec[0] & 1]
    if len(sec) == 65 and sec[0] == 4:
        x = int.from_bytes(sec[1:33], "big")
        y = int.from_bytes(sec[33:], "big")
        if x >= P or y >= P:
            return "free"
        return (x, y) if C.on_curve((x, y)) else None
    return None


def pubpoint(se):
    return C.mul(se, C.G)


def push(data):
    """canonical (minimal) script push of `data`."""
    n = len(data)
    if n == 0:
        return b"\x00"
    if n == 1 and 1 <= data[0] <= 16:
        return bytes([0x50 + data[0]])
    if n == 1 and data[0] == 0x81:
        return b"\x4f"
    if n <= 75:
        return bytes([n]) + data
    if n <= 255:
        return b"\x4c" + bytes([n]) + data
    if n <= 65535:
        return b"\x4d" + n.to_bytes(2, "little") + data
    return b"\x4e" + n.to_bytes(4, "little") + data


def script_p2pkh(h):
    return b"\x76\xa9" + push(h) + b"\x88\xac"


def script_p2sh(h):
    return b"\xa9" + push(h) + b"\x87"


def script_witness(ver, prog):
    return bytes([0x50 + ver if ver else 0]) + bytes([len(prog)]) + prog


def script_p2pk(sec):
    return push(sec) + b"\xac"


def script_multisig(m, secs):
    return bytes([0x50 + m]) + b"".join(push(s) for s in secs) + bytes([0x50 + len(secs)]) + b"\xae"


def parse_script(script):
    """-> list of (opcode, data-or-None, raw_bytes) or None when a push is truncated."""
    out = []
    i = 0
    n = len(script)
    while i < n:
        op = script[i]
        j = i + 1
        if op <= 75:
            size = op
        elif op == 76:
            if j + 1 > n:
                return None
            size = script[j]
            j += 1
        elif op == 77:
            if j + 2 > n:
                return None
            size = int.from_bytes(script[j:j + 2], "little")
            j += 2
        elif op == 78:
            if j + 4 > n:
                return None
            size = int.from_bytes(script[j:j + 4], "little")
            j += 4
        else:
            out.append((op, None, script[i:j]))
            i = j
            continue
        if j + size > n:
            return None
        out.append((op, script[j:j + size], script[i:j + size]))
        i = j + size
    return out


def same_elements(a, b):
    """True when two scripts decode to the same sequence of non-push opcodes and pushed data (push opcodes ignored)."""
    pa, pb = parse_script(a), parse_script(b)
    if pa is None or pb is None or len(pa) != len(pb):
        return False
    for (o1, d1, _), (o2, d2, _) in zip(pa, pb):
        if (d1 is None) != (d2 is None):
            # a constant-push opcode (OP_0, OP_1..16, 1NEGATE) vs explicit data push of the same value
            v1 = d1 if d1 is not None else _const_value(o1)
            v2 = d2 if d2 is not None else _const_value(o2)
            if v1 is None or v1 != v2:
                return False
        elif d1 is None:
            if o1 != o2:
                return False
        elif d1 != d2:
            return False
    return True


def _const_value(op):
    if 0x51 <= op <= 0x60:
        return bytes([op - 0x50])
    if op == 0x4f:
        return b"\x81"
    return None


# ---- text forms ------------------------------------------------------------------------------

def wif_text(params, se, compressed=True):
    return RB.encode_check(params.wif + se.to_bytes(32, "big") + (b"\x01" if compressed else b""))


def node_blob(depth, fp, idx, chain, se=None, point=None):
    key = (b"\x00" + se.to_bytes(32, "big")) if se is not None else sec_of(point, True)
    return bytes([depth]) + fp + idx.to_bytes(4, "big") + chain + key


def address_text(params, kind, h):
    """expected address text of the standard kind for this network, or None when the prefix is not declared."""
    if kind == "p2pkh":
        return None if params.p2pkh is None else RB.encode_check(params.p2pkh + h)
    if kind == "p2sh":
        return None if params.p2sh is None else RB.encode_check(params.p2sh + h)
    if params.hrp is None:
        return None
    if kind in ("p2pkh_segwit", "p2sh_segwit"):
        return R32.segwit_encode(params.hrp, 0, h)
    if kind == "p2tr":
        return R32.segwit_encode(params.hrp, 1, h)
    raise ValueError(kind)


def script_for(kind, h):
    if kind == "p2pkh":
        return script_p2pkh(h)
    if kind == "p2sh":
        return script_p2sh(h)
    if kind in ("p2pkh_segwit", "p2sh_segwit"):
        return script_witness(0, h)
    if kind == "p2tr":
        return script_witness(1, h)
    raise ValueError(kind)


class Analysis(object):
    __slots__ = ("payload", "kinds", "segwit", "checksummed")

    def __init__(self):
        self.payload = None      # Base58Check payload (bytes) when the text is a valid Base58Check string
        self.kinds = {}          # kind -> ("ok", value) | ("bad", reason)
        self.segwit = None       # (ver, prog) when the text is a valid segwit address for params.hrp
        self.checksummed = False  # valid Base58Check string, or valid bech32/bech32m string of any hrp

    def ok(self, kinds):
        return {k: v[1] for k, v in self.kinds.items() if k in kinds and v[0] == "ok"}

    def bad(self, kinds):
        return {k: v[1] for k, v in self.kinds.items() if k in kinds and v[0] == "bad"}


def _wif_body(body):
    if len(body) == 32:
        comp = False
    elif len(body) == 33:
        if body[32] != 1:
            return ("bad", "marker")
        comp = True
    else:
        return ("bad", "length")
    se = int.from_bytes(body[:32], "big")
    if not 1 <= se < N:
        return ("bad", "range")
    return ("ok", ("key", se, comp))


def _bip_body(kind, body):
    family, pp = kind.split("_")
    if len(body) != 74:
        return ("bad", "length")
    depth, fp, idx, chain, key = body[0], body[1:5], int.from_bytes(body[5:9], "big"), body[9:41], body[41:]
    if pp == "prv":
        if key[0] != 0:
            # a well-formed *public* key under a private-key prefix is its own class ("keytype")
            pt = point_of_sec(key) if key[0] in (2, 3) else None
            return ("bad", "keytype" if pt is not None else "keybyte")
        se = int.from_bytes(key[1:], "big")
        if not 1 <= se < N:
            return ("bad", "range")
        return ("ok", ("node", family, True, depth, fp, idx, chain, se))
    if key[0] not in (2, 3):
        return ("bad", "keytype" if key[0] == 0 and 1 <= int.from_bytes(key[1:], "big") < N else "keybyte")
    pt = point_of_sec(key)
    if pt is None:
        return ("bad", "point")
    if pt == "free":
        return ("bad", "free")
    return ("ok", ("node", family, False, depth, fp, idx, chain, pt))


def analyse(params, text):
    a = Analysis()
    payload = RB.decode_check(text) if text.isascii() else None
    if payload is not None:
        a.payload = payload
        a.checksummed = True
        for kind, prefix in params.b58_prefixes():
            if not payload.startswith(prefix):
                continue
            body = payload[len(prefix):]
            if kind in B58_ADDR_KINDS:
                a.kinds[kind] = ("ok", ("script", script_for(kind, body))) if len(body) == 20 else ("bad", "length")
            elif kind == "wif":
                a.kinds[kind] = _wif_body(body)
            else:
                a.kinds[kind] = _bip_body(kind, body)
        return a
    raw = R32.raw_decode(text)
    if raw is not None:
        a.checksummed = True
        if params.hrp is not None and raw[0] == params.hrp.lower():
            d = R32.segwit_decode(params.hrp, text)
            if d is None:
                for k in SEGWIT_KINDS:
                    a.kinds[k] = ("bad", "segwit")
            else:
                ver, prog = d
                a.segwit = d
                kind = {(0, 20): "p2pkh_segwit", (0, 32): "p2sh_segwit", (1, 32): "p2tr"}.get((ver, len(prog)))
                for k in SEGWIT_KINDS:
                    a.kinds[k] = ("ok", ("script", script_witness(ver, prog))) if k == kind else ("bad", "segwit")
    return a


def address_script(params, text):
    """The script an address text denotes on this network, as a set of acceptable scripts (two when the network
    declares the same prefix for P2PKH and P2SH), or an empty set."""
    a = analyse(params, text)
    out = set()
    for k in B58_ADDR_KINDS + SEGWIT_KINDS:
        v = a.kinds.get(k)
        if v and v[0] == "ok":
            out.add(v[1][1])
    return out, a


# ---- self test ---------------------------------------------------------------------------------
BTC = Params(symbol="BTC", p2pkh=b"\x00", p2sh=b"\x05", wif=b"\x80", hrp="bc", sec_prefix="BTCSEC:",
             bip32_prv=bytes.fromhex("0488ade4"), bip32_pub=bytes.fromhex("0488b21e"),
             bip49_prv=bytes.fromhex("049d7878"), bip49_pub=bytes.fromhex("049d7cb2"),
             bip84_prv=bytes.fromhex("04b2430c"), bip84_pub=bytes.fromhex("04b24746"))
XTN = Params(symbol="XTN", p2pkh=b"\x6f", p2sh=b"\xc4", wif=b"\xef", hrp="tb", sec_prefix="XTNSEC:",
             bip32_prv=bytes.fromhex("04358394"), bip32_pub=bytes.fromhex("043587cf"),
             bip49_prv=bytes.fromhex("044a4e28"), bip49_pub=bytes.fromhex("044a5262"),
             bip84_prv=bytes.fromhex("045f18bc"), bip84_pub=bytes.fromhex("045f1cf6"))

H160_G = bytes.fromhex("751e76e8199196d454941c45d1b3a323f1433bd6")     # hash160 of the compressed generator point
# published texts (Bitcoin wiki "Wallet import format", BIP32 test vector 1, BIP84/BIP49 documents, BIP173)
PUBLISHED = {
    "wif_u": ("5HueCGU8rMjxEXxiPuD5BDku4MkFqeZyd4dZ1jvhTVqvbTLvyTJ",
              0x0C28FCA386C7A227600B2FE50B7CAE11EC86D3BF1FBE471BE89827E19D72AA1D, False),
    "wif_c": ("KwdMAjGmerYanjeui5SHS7JkmpZvVipYvB2LJGU1ZxJwYvP98617",
              0x0C28FCA386C7A227600B2FE50B7CAE11EC86D3BF1FBE471BE89827E19D72AA1D, True),
    "xprv_m": "xprv9s21ZrQH143K3QTDL4LXw2F7HEK3wJUD2nW2nRk4stbPy6cq3jPPqjiChkVvvNKmPGJxWUtg6LnF5kejMRNNU3TGtRBeJgk33yuGBxrMPHi",
    "xpub_m": "xpub661MyMwAqRbcFtXgS5sYJABqqG9YLmC4Q1Rdap9gSE8NqtwybGhePY2gZ29ESFjqJoCu1Rupje8YtGqsefD265TMg7usUDFdp6W1EGMcet8",
    "xpub_m_chain": bytes.fromhex("873dff81c02f525623fd1fe5167eac3a55a049de3d314bb42ee227ffed37d508"),
    "xprv_m_key": 0xe8f32e723decf4051aefac8e2c93c9c5b214313817cdb01a1494b917c8436b35,
    "xpub_0H": "xpub68Gmy5EdvgibQVfPdqkBBCHxA5htiqg55crXYuXoQRKfDBFA1WEjWgP6LHhwBZeNK1VTsfTFUHCdrfp1bgwQ9xv5ski8PX9rL2dZXvgGDnw",
}
# address of the key with secret exponent 1 (compressed), widely published
ADDR_G = {"BTC": {"p2pkh": "1BgGZ9tcN4rm9KBzDn7KprQz87SZ26SAMH", "p2pkh_segwit": "bc1qw508d6qejxtdg4y5r3zarvary0c5xw7kv8f3t4",
                  "p2sh_p2wpkh": "3JvL6Ymt8MVWiCNHC7oWU6nLeHNJKLZGLN"},
          "XTN": {"p2pkh": "mrCDrCybB6J1vRfbwM5hemdJz73FwDBC8r", "p2pkh_segwit": "tb1qw508d6qejxtdg4y5r3zarvary0c5xw7kxpjzsx"}}
GENESIS = ("1A1zP1eP5QGefi2DMPTfTL5SLmv7DivfNa", bytes.fromhex("62e907b15cbf27d5425399ebf6f0fb50ebb88f18"))
# BIP173 P2WSH testnet example and BIP350 P2TR mainnet example (also in refs/bech32.VALID_ADDR)
SEGWIT_EXAMPLES = [("XTN", "tb1qrp33g0q5c5txsp9arysrx4k6zdkfs4nce4xj0gdcccefvpysxf3q0sl5k7",
                    "00201863143c14c5166804bd19203356da136c985678cd4d27a1b8c6329604903262"),
                   ("BTC", "bc1p0xlxvlhemja6c4dqv22uapctqupfhlxm9h8z3k2e72q4k9hcz7vqzk5jj0",
                    "512079be667ef9dcbbac55a06295ce870b07029bfcdb2dce28d959f2815b16f81798")]


def selftest():
    n = 0
    assert hash160(sec_of(C.G, True)) == H160_G
    assert hash160(b"") == bytes.fromhex("b472a266d0bd89c13706a4132ccfb16f7c3b9fcb")
    # published WIFs
    for key in ("wif_u", "wif_c"):
        text, se, comp = PUBLISHED[key]
        assert wif_text(BTC, se, comp) == text
        a = analyse(BTC, text)
        assert a.kinds == {"wif": ("ok", ("key", se, comp))}, a.kinds
        n += 1
    # BIP32 vector 1 master
    a = analyse(BTC, PUBLISHED["xprv_m"])
    v = a.kinds["bip32_prv"]
    assert v[0] == "ok" and v[1][1:7] == ("bip32", True, 0, b"\0\0\0\0", 0, PUBLISHED["xpub_m_chain"]) and v[1][7] == PUBLISHED["xprv_m_key"]
    assert set(a.kinds) == {"bip32_prv"}
    b = analyse(BTC, PUBLISHED["xpub_m"])
    w = b.kinds["bip32_pub"]
    assert w[0] == "ok" and w[1][7] == pubpoint(PUBLISHED["xprv_m_key"]) and w[1][6] == PUBLISHED["xpub_m_chain"]
    assert RB.encode_check(BTC.bip32_pub + node_blob(0, b"\0" * 4, 0, w[1][6], point=w[1][7])) == PUBLISHED["xpub_m"]
    assert RB.encode_check(BTC.bip32_prv + node_blob(0, b"\0" * 4, 0, v[1][6], se=v[1][7])) == PUBLISHED["xprv_m"]
    c = analyse(BTC, PUBLISHED["xpub_0H"]).kinds["bip32_pub"]
    assert c[0] == "ok" and c[1][3] == 1 and c[1][5] == 0x80000000 and c[1][4] == hash160(sec_of(w[1][7]))[:4]
    assert analyse(XTN, PUBLISHED["xpub_m"]).kinds == {}
    n += 4
    # published addresses
    assert address_text(BTC, "p2pkh", GENESIS[1]) == GENESIS[0]
    assert address_text(BTC, "p2pkh", H160_G) == ADDR_G["BTC"]["p2pkh"]
    assert address_text(XTN, "p2pkh", H160_G) == ADDR_G["XTN"]["p2pkh"]
    assert address_text(BTC, "p2pkh_segwit", H160_G) == ADDR_G["BTC"]["p2pkh_segwit"]
    assert address_text(XTN, "p2pkh_segwit", H160_G) == ADDR_G["XTN"]["p2pkh_segwit"]
    assert address_text(BTC, "p2sh", hash160(script_witness(0, H160_G))) == ADDR_G["BTC"]["p2sh_p2wpkh"]
    for sym, text, spk in SEGWIT_EXAMPLES:
        prm = BTC if sym == "BTC" else XTN
        s, _ = address_script(prm, text)
        assert s == {bytes.fromhex(spk)}, text
        n += 1
    s, a = address_script(BTC, GENESIS[0])
    assert s == {script_p2pkh(GENESIS[1])} and script_p2pkh(GENESIS[1]).hex() == "76a914" + GENESIS[1].hex() + "88ac"
    n += 7
    # refusal classes
    assert analyse(BTC, RB.encode_check(b"\x80" + bytes(32))).kinds["wif"] == ("bad", "range")
    assert analyse(BTC, RB.encode_check(b"\x80" + N.to_bytes(32, "big"))).kinds["wif"] == ("bad", "range")
    assert analyse(BTC, RB.encode_check(b"\x80" + (N - 1).to_bytes(32, "big"))).kinds["wif"][0] == "ok"
    assert analyse(BTC, RB.encode_check(b"\x80" + b"\x01" * 31)).kinds["wif"] == ("bad", "length")
    assert analyse(BTC, RB.encode_check(b"\x80" + b"\x01" * 32 + b"\x02")).kinds["wif"] == ("bad", "marker")
    assert analyse(BTC, RB.encode_check(b"\x00" + b"\x01" * 19)).kinds["p2pkh"] == ("bad", "length")
    assert analyse(BTC, RB.encode_check(b"\x05" + b"\x01" * 21)).kinds["p2sh"] == ("bad", "length")
    assert analyse(BTC, RB.encode_check(BTC.bip32_prv + bytes(74))).kinds["bip32_prv"] == ("bad", "range")
    assert analyse(BTC, RB.encode_check(BTC.bip32_prv + bytes(73))).kinds["bip32_prv"] == ("bad", "length")
    assert analyse(BTC, RB.encode_check(BTC.bip32_pub + bytes(41) + b"\x02" + (5).to_bytes(32, "big"))).kinds["bip32_pub"] == ("bad", "point")
    assert analyse(BTC, RB.encode_check(BTC.bip32_pub + bytes(41) + b"\x04" + (1).to_bytes(32, "big"))).kinds["bip32_pub"] == ("bad", "keybyte")
    assert analyse(BTC, RB.encode_check(BTC.bip32_prv + bytes(41) + b"\x02" + (1).to_bytes(32, "big"))).kinds["bip32_prv"] == ("bad", "keytype")
    assert analyse(BTC, RB.encode_check(BTC.bip32_prv + bytes(41) + b"\x02" + (5).to_bytes(32, "big"))).kinds["bip32_prv"] == ("bad", "keybyte")
    assert analyse(BTC, RB.encode_check(BTC.bip32_pub + bytes(41) + b"\x00" + (5).to_bytes(32, "big"))).kinds["bip32_pub"] == ("bad", "keytype")
    assert analyse(BTC, RB.encode_check(BTC.bip32_pub + bytes(41) + b"\x00" + bytes(32))).kinds["bip32_pub"] == ("bad", "keybyte")
    n += 12
    # a network where WIF and P2SH share a prefix byte: the payload length keeps the kinds apart
    polis = Params(symbol="POLIS", p2pkh=b"\x37", p2sh=b"\x3c", wif=b"\x3c")
    a = analyse(polis, wif_text(polis, 7, True))
    assert a.kinds == {"wif": ("ok", ("key", 7, True)), "p2sh": ("bad", "length")}
    a = analyse(polis, address_text(polis, "p2sh", H160_G))
    assert a.kinds == {"p2sh": ("ok", ("script", script_p2sh(H160_G))), "wif": ("bad", "length")}
    n += 2
    # points
    assert point_of_sec(sec_of(C.G, True)) == C.G and point_of_sec(sec_of(C.G, False)) == C.G
    assert point_of_sec(b"\x02" + (5).to_bytes(32, "big")) is None and C.lift_x(5) is None and C.lift_x(1) is not None
    assert point_of_sec(b"\x02" + (P + 1).to_bytes(32, "big")) == "free"
    assert point_of_sec(b"\x04" + C.G[0].to_bytes(32, "big") + (C.G[1] ^ 1).to_bytes(32, "big")) is None
    # script parser / pushes
    for L in (0, 1, 20, 75, 76, 255, 256, 520):
        d = bytes([0x22]) * L
        ps = parse_script(push(d) + b"\xac")
        assert ps is not None and len(ps) == 2 and (ps[0][1] == d) and ps[1][0] == 0xac, L
    assert push(b"\x05") == b"\x55" and push(b"\x81") == b"\x4f" and push(b"\x11") == b"\x01\x11"
    assert same_elements(b"\x76\xa9\x4c\x14" + H160_G + b"\x88\xac", script_p2pkh(H160_G))
    assert not same_elements(b"\x76\xa9\x14" + H160_G + b"\x88\xad", script_p2pkh(H160_G))
    assert parse_script(b"\x4c") is None and parse_script(b"\x05\x01") is None
    n += 6
    return n
