"""Independent reference for Bitcoin-style signed text messages.

digest      = SHA256(SHA256( varstr(magic) || varstr(utf8(message)) )),  magic = "<Network name> Signed Message:\n"
              (varstr = CompactSize length prefix followed by the bytes)
signature   = base64( header || r(32, big endian) || s(32) ),  header = 27 + recid + 4*compressed,
              recid bit 0 = parity of R.y, bit 1 = (R.x >= n)
recovery    = SEC 1 v2 section 4.1.6:  R = lift(r + (recid>>1)*n, parity recid&1),  Q = r^-1 (s R - z G)
signing     = ECDSA (SEC 1 4.1.3) with the RFC 6979 section 3.2 HMAC-DRBG nonce (used to produce reference signatures)

Built on vmon.refs.ec (independent curve arithmetic). Nothing here imports pycoin.
"""
import base64
import hashlib
import hmac

from .ec import SECP256K1, SECP256R1, INF
from . import sec as RS

B64 = "ABCDEFGHIJKLMNOPQRSTUVWXYZabcdefghijklmnopqrstuvwxyz0123456789+/"
_B64SET = set(B64)


def dsha256(b):
    return hashlib.sha256(hashlib.sha256(b).digest()).digest()


def compact_size(n):
    if n < 0xfd:
        return bytes([n])
    if n <= 0xffff:
        return b"\xfd" + n.to_bytes(2, "little")
    if n <= 0xffffffff:
        return b"\xfe" + n.to_bytes(4, "little")
    return b"\xff" + n.to_bytes(8, "little")


def varstr(b):
    return compact_size(len(b)) + b


def magic_for(network_name):
    return "%s Signed Message:\n" % network_name


def digest(network_name, message):
    """the integer handed to ECDSA."""
    data = varstr(magic_for(network_name).encode("utf8")) + varstr(message.encode("utf8"))
    return int.from_bytes(dsha256(data), "big")


# -- RFC 6979 ------------------------------------------------------------------------------------

def _bits2int(b, qlen):
    v = int.from_bytes(b, "big")
    blen = len(b) * 8
    return v >> (blen - qlen) if blen > qlen else v


def rfc6979_k(q, x, h1, hashfn=hashlib.sha256, extra_tries=0):
    """nonce for private key x, message hash octets h1, group order q (RFC 6979 section 3.2)."""
    qlen = q.bit_length()
    rlen = (qlen + 7) // 8
    hlen = hashfn().digest_size
    int2octets = lambda v: v.to_bytes(rlen, "big")
    bits2octets = lambda b: int2octets(_bits2int(b, qlen) % q)
    mac = lambda key, msg: hmac.new(key, msg, hashfn).digest()
    V = b"\x01" * hlen
    K = b"\x00" * hlen
    K = mac(K, V + b"\x00" + int2octets(x) + bits2octets(h1))
    V = mac(K, V)
    K = mac(K, V + b"\x01" + int2octets(x) + bits2octets(h1))
    V = mac(K, V)
    while True:
        T = b""
        while len(T) * 8 < qlen:
            V = mac(K, V)
            T += V
        k = _bits2int(T, qlen)
        if 1 <= k < q:
            if extra_tries == 0:
                return k
            extra_tries -= 1
        K = mac(K, V + b"\x00")
        V = mac(K, V)


# -- ECDSA ---------------------------------------------------------------------------------------

def sign(d, z, curve=SECP256K1, k=None):
    """(r, s, recid) for private key d over the integer z (already reduced to the curve's bit length)."""
    n = curve.n
    tries = 0
    while True:
        kk = k if k is not None else rfc6979_k(n, d, z.to_bytes((n.bit_length() + 7) // 8, "big"), extra_tries=tries)
        R = curve.mul(kk, curve.G)
        r = R[0] % n
        s = pow(kk, -1, n) * (z + r * d) % n
        if r and s:
            return r, s, (R[1] & 1) | (2 if R[0] >= n else 0)
        if k is not None:
            raise ValueError("bad nonce")
        tries += 1


def verify(Q, z, r, s, curve=SECP256K1):
    n = curve.n
    if Q is INF or not curve.on_curve(Q) or not (1 <= r < n and 1 <= s < n):
        return False
    w = pow(s, -1, n)
    X = curve.add(curve.mul(z * w % n, curve.G), curve.mul(r * w % n, Q))
    return X is not INF and X[0] % n == r


def recover(z, r, s, recid, curve=SECP256K1):
    """the public key Q with verify(Q, z, r, s) selected by recid, or None when there is none."""
    n, p = curve.n, curve.p
    if not (1 <= r < n and 1 <= s < n) or not 0 <= recid <= 3:
        return None
    x = r + (recid >> 1) * n
    if x >= p:
        return None
    pts = curve.lift_x(x)
    if pts is None:
        return None
    R = pts[recid & 1]
    if R[1] & 1 != recid & 1:
        return None
    ri = pow(r, -1, n)
    Q = curve.add(curve.mul(s * ri % n, R), curve.mul(-z * ri % n, curve.G))
    return None if Q is INF else Q


# -- compact signature text ----------------------------------------------------------------------

def compact(header, r, s):
    return base64.b64encode(bytes([header & 0xff]) + (r % (1 << 256)).to_bytes(32, "big") + (s % (1 << 256)).to_bytes(32, "big")).decode("ascii")


def strict_b64(text):
    """bytes iff text is canonical RFC 4648 base64 (alphabet only, correct padding), else None."""
    if not isinstance(text, str) or len(text) % 4:
        return None
    body = text.rstrip("=")
    if len(text) - len(body) > 2 or any(ch not in _B64SET for ch in body):
        return None
    try:
        raw = base64.b64decode(text, validate=True)
    except Exception:
        return None
    return raw if base64.b64encode(raw).decode("ascii") == text else None


def lenient_b64(text):
    """what a tolerant (RFC 2045 style) decoder can make of the text: characters outside the alphabet and padding are
    dropped; None when the remaining characters cannot be a base64 stream or the text is not ASCII."""
    if not isinstance(text, str) or any(ord(ch) > 127 for ch in text):
        return None
    body = "".join(ch for ch in text if ch in _B64SET)
    if len(body) % 4 == 1:
        return None
    try:
        return base64.b64decode(body + "=" * (-len(body) % 4))
    except Exception:
        return None


def decodings(text):
    """every byte string a base64 decoder, canonical or tolerant, may make of the text: the canonical decoding, the tolerant
    one, and the tolerant one of the part before the first padding character (decoders commonly stop at the padding)."""
    out = [strict_b64(text), lenient_b64(text)]
    if isinstance(text, str) and "=" in text:
        out.append(lenient_b64(text[:text.index("=")]))
    return out


def split_compact(raw):
    """(header, r, s) for a 65-byte blob, else None."""
    if raw is None or len(raw) != 65:
        return None
    return raw[0], int.from_bytes(raw[1:33], "big"), int.from_bytes(raw[33:], "big")


def signer_of(raw, z, curve=SECP256K1):
    """(Q, compressed) recovered from a 65-byte compact signature over z, or None."""
    t = split_compact(raw)
    if t is None:
        return None
    h, r, s = t
    if not 27 <= h <= 34:
        return None
    Q = recover(z, r, s, (h - 27) & 3, curve)
    if Q is None:
        return None
    return Q, bool((h - 27) & 4)


def justified(text, z, pair=None, h160=None):
    """True iff some decoding of the text (canonical, or tolerant) is a signature over z whose recovered key is `pair`
    (or whose recovered key, encoded with the signature's compression flag, hashes to `h160`)."""
    seen = []
    for raw in decodings(text):
        if raw is None or raw in seen:
            continue
        seen.append(raw)
        so = signer_of(raw, z)
        if so is None:
            continue
        Q, comp = so
        if pair is not None and Q == tuple(pair):
            return True
        if h160 is not None and RS.hash160(RS.encode(Q, comp)) == h160:
            return True
    return False


def armour(network_name, message, address, sig):
    up = network_name.upper()
    return ("-----BEGIN %s SIGNED MESSAGE-----\n%s\n-----BEGIN SIGNATURE-----\n%s\n%s\n-----END %s SIGNED MESSAGE-----"
            % (up, message, address, sig, up))


# -- self-test -----------------------------------------------------------------------------------

def selftest(toys=None):
    from . import b58 as RB
    from .ec import toy_curves
    out = {}
    # CompactSize boundaries (protocol documentation)
    assert compact_size(0) == b"\x00" and compact_size(252) == b"\xfc" and compact_size(253) == b"\xfd\xfd\x00"
    assert compact_size(65535) == b"\xfd\xff\xff" and compact_size(65536) == b"\xfe\x00\x00\x01\x00"
    assert compact_size(2 ** 32) == b"\xff" + (2 ** 32).to_bytes(8, "little")
    assert varstr(b"Bitcoin Signed Message:\n")[:1] == b"\x18"
    # RFC 6979 A.2.5 (P-256, SHA-256): nonces and signatures for "sample" and "test"
    q = SECP256R1.n
    x = 0xC9AFA9D845BA75166B5C215767B1D6934E50C3DB36E89B127B8A622B120F6721
    for msg, k, r, s in [
        (b"sample", 0xA6E3C57DD01ABE90086538398355DD4C3B17AA873382B0F24D6129493D8AAD60,
         0xEFD48B2AACB6A8FD1140DD9CD45E81D69D2C877B56AAF991C34D0EA84EAF3716, 0xF7CB1C942D657C41D436C7A1B6E29F65F3E900DBB9AFF4064DC4AB2F843ACDA8),
        (b"test", 0xD16B6AE827F17175E040871A1C7EC3500192C4C92677336EC2537ACAEE0008E0,
         0xF1ABB023518351CD71D881567B1EA663ED3EFCF6C5132B354F28D3B0B7D38367, 0x019F4113742A2B14BD25926B49C649155F267E60D3814B4C0CC84250E46F0083)]:
        h1 = hashlib.sha256(msg).digest()
        assert rfc6979_k(q, x, h1) == k
        z = int.from_bytes(h1, "big")
        rr, ss, recid = sign(x, z, SECP256R1)
        assert (rr, ss) == (r, s)
        Q = SECP256R1.mul(x, SECP256R1.G)
        assert verify(Q, z, r, s, SECP256R1) and recover(z, r, s, recid, SECP256R1) == Q
        assert not verify(Q, z + 1, r, s, SECP256R1)
    out["rfc6979_p256_vectors"] = 2
    # sign -> verify -> recover closure, exhaustively on toy curves (every key, every digest, every nonce)
    closure = 0
    if toys is None:
        # one curve with n > p (R.x never reaches n) and curves with p > n (recid bit 1 exercised)
        allc, toys = toy_curves(24), []
        for want in ((7, 13), (11, 11), (19, 13), (23, 17)):
            toys.append(next(c for c in allc if (c.p, c.n) == want))
    hi = 0
    for c in toys:
        pts = {}
        for d in range(1, c.n):
            pts[d] = c.mul(d, c.G)
        for d in range(1, c.n):
            for z in range(0, c.n):
                for k in range(1, c.n):
                    R = c.mul(k, c.G)
                    r = R[0] % c.n
                    s = pow(k, -1, c.n) * (z + r * d) % c.n
                    if not r or not s:
                        continue
                    recid = (R[1] & 1) | (2 if R[0] >= c.n else 0)
                    hi += recid >> 1
                    assert verify(pts[d], z, r, s, c)
                    assert recover(z, r, s, recid, c) == pts[d], (c.name, d, z, k)
                    closure += 1
                    # every other recid gives another key or nothing; whatever it gives verifies
                    for rid in range(4):
                        Q = recover(z, r, s, rid, c)
                        if Q is not None:
                            assert verify(Q, z, r, s, c)
    assert hi > 0
    out["toy_sign_recover_closure"] = closure
    out["toy_cases_with_recid_ge_2"] = hi
    # community secp256k1 RFC 6979 vector (key 1, "Satoshi Nakamoto"); admitted because it agrees with this implementation,
    # which the RFC's own P-256 vectors above validate
    assert rfc6979_k(SECP256K1.n, 1, hashlib.sha256(b"Satoshi Nakamoto").digest()) == \
        0x8F8A276C19F4149656B280621E358CCE24F5F52542772691EE69063B74F15D15
    # real-world signed messages (brainwallet "multibit" sample and a bitrated.com profile, carried as data in
    # tests/msg_signing_test.py; produced by other software)
    vec = [("Bitcoin", "This is an example of a signed message.", "1HZwkjkeaoZfTSaJxDw6aKkxp45agDiEzN",
            "HCT1esk/TWlF/o9UNzLDANqsPXntkMErf7erIrjH5IBOZP98cNcmWmnW0GpSAi3wbr6CwpUAN4ctNn1T71UBwSc=", None),
           ("Bitcoin", "We will try to contact both parties to gather information and evidence, and do my best to make rightful "
            "judgement. Evidence may be submitted to us on https://www.bit2c.co.il/home/contact or in a private message to "
            "info@bit2c.co.il or in any agreed way.\n\nhttps://www.bit2c.co.il", "15etuU8kwLFCBbCNRsgQTvWgrGWY9829ej",
            "H2utKkquLbyEJamGwUfS9J0kKT4uuMTEr2WX2dPU9YImg4LeRpyjBelrqEqfM4QC8pJ+hVlQgZI5IPpLyRNxvK8=",
            "0396267072e597ad5d043db7c73e13af84a77a7212871f1aade607fb0f2f96e1a8")]
    for name, msg, addr, sig, pub in vec:
        z = digest(name, msg)
        raw = strict_b64(sig)
        so = signer_of(raw, z)
        assert so is not None, "unrecoverable"
        Q, comp = so
        payload = RB.decode_check(addr)
        assert payload[0] == 0 and RS.hash160(RS.encode(Q, comp)) == payload[1:], "recovered key does not hash to the address"
        if pub:
            assert RS.encode(Q, True).hex() == pub
        assert verify(Q, z, *split_compact(raw)[1:])
        assert justified(sig, z, h160=payload[1:]) and justified(sig, z, pair=Q)
        assert not justified(sig, digest(name, msg + " "), h160=payload[1:])
        assert not justified(sig, digest("Litecoin", msg), h160=payload[1:])
    out["real_world_signed_messages"] = len(vec)
    # secp256k1: reference signatures verify and recover; low-level negatives
    d = 0x1E99423A4ED27608A15A2616A2B0E9E52CED330AC530EDCC32C8FFC6A526AEDD
    Q = SECP256K1.mul(d, SECP256K1.G)
    z = digest("Bitcoin", "hello")
    r, s, recid = sign(d, z)
    assert verify(Q, z, r, s) and recover(z, r, s, recid) == Q and recover(z, r, s, recid ^ 1) != Q
    assert recover(z, 0, s, 0) is None and recover(z, SECP256K1.n, s, 0) is None and recover(z, r, 0, 0) is None
    assert recover(z, r, s, recid | 2) is None        # r + n >= p for any ordinary r
    t = compact(27 + recid + 4, r, s)
    assert strict_b64(t) is not None and lenient_b64(" " + t[:9] + "\n" + t[9:]) == strict_b64(t)
    assert strict_b64(t[:-1]) is None and strict_b64(t + "=") is None and strict_b64("é") is None and lenient_b64("é") is None
    assert justified(t + t, z, pair=Q) and justified(t + "A", z, pair=Q) and not justified(t[:-4] + t, z, pair=Q)
    assert justified(t, z, pair=Q) and justified(t, z, h160=RS.hash160(RS.encode(Q, True))) and not justified(t, z, h160=RS.hash160(RS.encode(Q, False)))
    return out
