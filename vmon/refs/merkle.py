"""Bitcoin merkle root, from the definition (protocol documentation, "Merkle Trees").

The leaves are transaction hashes as produced by double-SHA256 (wire byte order). A level with an odd
number of entries pairs its last entry with itself. The root of a single leaf is the leaf.

Two formulations are kept and cross-checked in selftest():
  root(hashes)        level by level, pairing by index arithmetic
  node(hashes, h, i)  the value of node i at height h by recursion on the tree (the shape BIP37 uses)
"""
import hashlib


def dsha(b):
    return hashlib.sha256(hashlib.sha256(b).digest()).digest()


def root(hashes):
    if len(hashes) == 0:
        raise ValueError("merkle root of an empty list is not defined")
    level = [bytes(h) for h in hashes]
    while len(level) != 1:
        n = len(level)
        level = [dsha(level[2 * k] + level[min(2 * k + 1, n - 1)]) for k in range((n + 1) // 2)]
    return level[0]


def root_with(hashes, f):
    """the same tree with an arbitrary combining function f(left || right) -> node (pycoin's public ``hash_f`` argument)"""
    if len(hashes) == 0:
        raise ValueError("merkle root of an empty list is not defined")
    level = [bytes(h) for h in hashes]
    while len(level) != 1:
        if len(level) % 2:
            level = level + [level[-1]]
        level = [f(level[k] + level[k + 1]) for k in range(0, len(level), 2)]
    return level[0]


def width(n, h):
    """number of nodes at height h (0 = leaves) of the tree over n leaves"""
    return (n + (1 << h) - 1) >> h


def height(n):
    h = 0
    while width(n, h) > 1:
        h += 1
    return h


def node(hashes, h, i):
    if h == 0:
        return bytes(hashes[i])
    left = node(hashes, h - 1, 2 * i)
    if 2 * i + 1 < width(len(hashes), h - 1):
        right = node(hashes, h - 1, 2 * i + 1)
    else:
        right = left
    return dsha(left + right)


def root_recursive(hashes):
    return node(hashes, height(len(hashes)), 0)


def selftest():
    rev = lambda s: bytes.fromhex(s)[::-1]
    n = 0
    # block 170 (first block with a payment): two transactions
    a = rev("b1fea52486ce0c62bb442b530a3f0132b826c74e473d1f2c220bfa78111c5082")
    b = rev("f4184fc596403b9d638783cf57adfe4c75c605f6356fbc91338530e9831e9e16")
    assert root([a, b]) == rev("7dac2c5666815c17a3b36427de37bb9d2e2c5ccec3f8633eb91a4205cb4c10ff")
    n += 1
    # genesis block: one transaction, root = its hash
    g = rev("4a5e1e4baab89f3a32518a88c31bc87f618f76673e2cc77ab2127b7afdeda33b")
    assert root([g]) == g
    n += 1
    # mainnet block 71038: three transactions (odd level)
    t3 = [rev("f484b014c55a43b409a59de3177d49a88149b4473f9a7b81ea9e3535d4b7a301"),
          rev("7b5636e9bc6ec910157e88702699bc7892675e8b489632c9166764341a4d4cfe"),
          rev("f8b02b8bf25cb6008e38eb5453a22c502f37e76375a86a0f0cfaa3c301aa1209")]
    assert root(t3) == rev("4f4c8c201e85a64a410cc7272c77f443d8b8df3289c67af9dab1e87d9e61985e")
    n += 1
    # laws: both formulations agree on every size; duplicating the last leaf of an odd list keeps the root
    # (the CVE-2012-2459 ambiguity); a full tree is the hash of its two halves' roots
    for size in list(range(1, 70)) + [127, 128, 129, 255, 256, 257, 1000]:
        hs = [hashlib.sha256(b"leaf %d %d" % (size, i)).digest() for i in range(size)]
        r = root(hs)
        assert r == root_recursive(hs)
        if size % 2 == 1 and size > 1:
            assert root(hs + [hs[-1]]) == r
        if size > 1 and size & (size - 1) == 0:
            assert r == dsha(root(hs[:size // 2]) + root(hs[size // 2:]))
        if size > 1:
            assert root(hs[:-1] + [hs[0]]) != r and root(hs[::-1]) != r
        assert root_with(hs, dsha) == r
        n += 1
    # generic combining function: hand-expanded trees of 1, 2, 3 and 5 leaves
    sha = lambda b: hashlib.sha256(b).digest()
    cat = lambda b: b"(" + b + b")"
    a, b, c, d, e = [bytes([65 + i]) for i in range(5)]
    assert root_with([a], sha) == a and root_with([a, b], sha) == sha(a + b)
    assert root_with([a, b, c], sha) == sha(sha(a + b) + sha(c + c)) != root([a, b, c])
    assert root_with([a, b, c], cat) == b"((AB)(CC))"
    assert root_with([a, b, c, d, e], cat) == b"(((AB)(CD))((EE)(EE)))"
    n += 1
    assert [width(5, h) for h in range(4)] == [5, 3, 2, 1] and height(5) == 3 and height(1) == 0 and height(2) == 1
    return n
