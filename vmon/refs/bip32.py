"""BIP32 hierarchical deterministic keys, written from the BIP text (sections "Child key derivation functions",
"Serialization format", "Master key generation", "Key identifiers"), over vmon/refs/ec.py's secp256k1.

    point(p)  = p*G                      ser32(i)  = 4 bytes big-endian
    ser256(p) = 32 bytes big-endian      serP(P)   = (0x02 | 0x03 by parity of y) || ser256(x)
    CKDpriv((k,c), i):  I = HMAC-SHA512(c, 0x00||ser256(k)||ser32(i))  if i >= 2^31
                        I = HMAC-SHA512(c, serP(point(k))||ser32(i))   otherwise
                        k_i = parse256(I_L) + k (mod n), c_i = I_R; invalid if parse256(I_L) >= n or k_i = 0
    CKDpub((K,c), i):   refused if i >= 2^31; I = HMAC-SHA512(c, serP(K)||ser32(i))
                        K_i = point(parse256(I_L)) + K, c_i = I_R; invalid if parse256(I_L) >= n or K_i = infinity
    serialisation:      version(4) depth(1) parent-fingerprint(4) child-number(4) chain-code(32) key(33)
                        key = 0x00||ser256(k) or serP(K);  text = Base58Check of the 78 bytes
    fingerprint:        first 4 bytes of RIPEMD160(SHA256(serP(K)))

Also the Electrum (v1) deterministic wallet rule and the path-range notation pycoin documents.
Nothing here imports pycoin.
"""
import hashlib
import hmac

from vmon.refs.ec import SECP256K1 as C
from vmon.refs import b58

N = C.n
HARD = 1 << 31


class Invalid(Exception):
    """The BIP declares the derived key invalid (probability < 2^-127)."""


class Refused(Exception):
    """Hardened child asked of a public parent."""


# -- fixed-base multiplication (4-bit windows of G), checked against the generic ladder in selftest() --------
_TABLE = None


def _table():
    global _TABLE
    if _TABLE is None:
        t = []
        base = C.G
        for _w in range(64):
            row = [None, base]
            for _d in range(2, 16):
                row.append(C.add(row[-1], base))
            t.append(row)
            base = C.add(row[15], base)
        _TABLE = t
    return _TABLE


def point(k):
    """k*G as an affine pair (None for k = 0 mod n)."""
    k %= N
    if k == 0:
        return None
    t = _table()
    R = (1, 1, 0)
    w = 0
    while k:
        d = k & 15
        if d:
            x, y = t[w][d]
            R = C._jadd_affine(R[0], R[1], R[2], x, y)
        k >>= 4
        w += 1
    X, Y, Z = R
    if Z == 0:
        return None
    zi = pow(Z, -1, C.p)
    return (X * zi * zi % C.p, Y * zi * zi * zi % C.p)


def ser32(i):
    return i.to_bytes(4, "big")


def ser256(p):
    return p.to_bytes(32, "big")


def serP(P):
    return bytes([2 + (P[1] & 1)]) + ser256(P[0])


def parseP(b):
    """33-byte compressed point -> affine pair (ValueError if not on the curve)."""
    if len(b) != 33 or b[0] not in (2, 3):
        raise ValueError("not a compressed point")
    pts = C.lift_x(int.from_bytes(b[1:], "big"))
    if pts is None or int.from_bytes(b[1:], "big") >= C.p:
        raise ValueError("x not on curve")
    return pts[b[0] & 1]


def hash160(b):
    return hashlib.new("ripemd160", hashlib.sha256(b).digest()).digest()


def _hmac512(key, msg):
    return hmac.new(key, msg, hashlib.sha512).digest()


class Node(object):
    """An extended key: k (int or None), K (affine pair), c (32 bytes), depth, parent fingerprint, child number."""
    __slots__ = ("k", "K", "c", "depth", "pfp", "child")

    def __init__(self, k, K, c, depth=0, pfp=b"\0\0\0\0", child=0):
        self.k, self.K, self.c, self.depth, self.pfp, self.child = k, K, c, depth, pfp, child

    def neuter(self):
        return Node(None, self.K, self.c, self.depth, self.pfp, self.child)

    def fingerprint(self):
        return hash160(serP(self.K))[:4]

    def fields(self):
        return {"secret": self.k, "public_pair": self.K, "chain_code": self.c, "depth": self.depth,
                "parent_fingerprint": self.pfp, "child_number": self.child}


def master(seed):
    I = _hmac512(b"Bitcoin seed", seed)
    k = int.from_bytes(I[:32], "big")
    if k == 0 or k >= N:
        raise Invalid("master key")
    return Node(k, point(k), I[32:])


def ckd_priv(node, i):
    if node.k is None:
        raise ValueError("CKDpriv needs a private parent")
    if not 0 <= i < (1 << 32):
        raise ValueError("child number out of range")
    if i >= HARD:
        data = b"\0" + ser256(node.k) + ser32(i)
    else:
        data = serP(node.K) + ser32(i)
    I = _hmac512(node.c, data)
    il = int.from_bytes(I[:32], "big")
    ki = (il + node.k) % N
    if il >= N or ki == 0:
        raise Invalid("CKDpriv")
    return Node(ki, point(ki), I[32:], node.depth + 1, node.fingerprint(), i)


def ckd_pub(node, i):
    if i >= HARD:
        raise Refused("hardened child of a public parent")
    if i < 0:
        raise ValueError("child number out of range")
    I = _hmac512(node.c, serP(node.K) + ser32(i))
    il = int.from_bytes(I[:32], "big")
    Ki = C.add(point(il), node.K)
    if il >= N or Ki is None:
        raise Invalid("CKDpub")
    return Node(None, Ki, I[32:], node.depth + 1, node.fingerprint(), i)


def ckd_tweak(c, serK, k, i):
    """The hash step of CKDpriv / CKDpub alone (no curve arithmetic): parent chain code c, serP of the parent's public key,
    the parent's private key k (needed for hardened i only) and child number i  ->  (parse256(I_L), I_R).
    CKDpriv: k_i = I_L + k (mod n);  CKDpub: K_i = point(I_L) + K;  c_i = I_R."""
    if not 0 <= i < (1 << 32):
        raise ValueError("child number out of range")
    if i >= HARD:
        if k is None:
            raise Refused("hardened child of a public parent")
        data = b"\0" + ser256(k) + ser32(i)
    else:
        data = serK + ser32(i)
    I = _hmac512(c, data)
    il = int.from_bytes(I[:32], "big")
    if il >= N:
        raise Invalid("I_L >= n")
    return il, I[32:]


class PointSum(object):
    """Running sum of affine points (Jacobian accumulator): add(P) for each point, value() -> the affine sum (None = infinity).
    Lets a long run of derived public keys be judged by ONE fixed-base multiplication per block:
    sum(point(k_j)) = point(sum(k_j))."""

    def __init__(self):
        self.R = (1, 1, 0)

    def add(self, P):
        if P is None:
            return
        X, Y, Z = self.R
        self.R = C._jadd_affine(X, Y, Z, P[0], P[1])

    def value(self):
        X, Y, Z = self.R
        if Z == 0:
            return None
        zi = pow(Z, -1, C.p)
        return (X * zi * zi % C.p, Y * zi * zi * zi % C.p)


def derive(node, path):
    """path: iterable of child numbers (hardened ones already carry bit 31). Private parents use CKDpriv."""
    for i in path:
        node = ckd_priv(node, i) if node.k is not None else ckd_pub(node, i)
    return node


def payload(node, private):
    """the 74 bytes after the version"""
    if private and node.k is None:
        raise ValueError("no private key")
    key = (b"\0" + ser256(node.k)) if private else serP(node.K)
    return bytes([node.depth]) + node.pfp + ser32(node.child) + node.c + key


def to_text(node, version, private):
    return b58.encode_check(version + payload(node, private))


def from_text(text):
    """-> (version bytes, Node). ValueError when the text is not a well-formed extended key."""
    raw = b58.decode_check(text)
    if raw is None or len(raw) != 78:
        raise ValueError("not 78 checked bytes")
    ver, depth, pfp, child, c, key = raw[:4], raw[4], raw[5:9], int.from_bytes(raw[9:13], "big"), raw[13:45], raw[45:]
    if key[0] == 0:
        k = int.from_bytes(key[1:], "big")
        if not 0 < k < N:
            raise ValueError("private key out of range")
        return ver, Node(k, point(k), c, depth, pfp, child)
    return ver, Node(None, parseP(key), c, depth, pfp, child)


# -- path notation -------------------------------------------------------------------------------------------

def parse_path(text):
    """'0H/1/2p' -> [0x80000000, 1, 0x80000002]; hardened markers: H, p, ' ; '' -> []"""
    out = []
    if text == "":
        return out
    for comp in text.split("/"):
        hard = comp[-1:] in ("H", "p", "'")
        num = comp[:-1] if hard else comp
        if not num.isdigit():
            raise ValueError("bad path component %r" % comp)
        v = int(num)
        if v >= HARD:
            raise ValueError("index too large")
        out.append(v + (HARD if hard else 0))
    return out


def path_text(path, marks="H"):
    """child numbers -> text; marks: one marker used for all hardened steps, or a sequence cycled through."""
    out = []
    h = 0
    for i in path:
        if i >= HARD:
            out.append("%d%s" % (i - HARD, marks[h % len(marks)]))
            h += 1
        else:
            out.append("%d" % i)
    return "/".join(out)


def expand_ranges(text):
    """'0/1H/0-2,7' -> list of child-number paths in the documented order (leftmost component varies slowest).
    Each component is a comma list of N or A-B (inclusive), optionally followed by a hardened marker that applies
    to every index of that item."""
    if text == "":
        return [[]]
    per_comp = []
    for comp in text.split("/"):
        items = []
        for item in comp.split(","):
            hard = item[-1:] in ("H", "p", "'")
            body = item[:-1] if hard else item
            if "-" in body:
                lo, hi = body.split("-", 1)
                rng = range(int(lo), int(hi) + 1)
            else:
                rng = [int(body)]
            for v in rng:
                items.append(v + (HARD if hard else 0))
        per_comp.append(items)
    out = [[]]
    for items in per_comp:
        out = [p + [v] for p in out for v in items]
    return out


# -- Electrum v1 ----------------------------------------------------------------------------------------------

def electrum_offset(mpk64, n, for_change):
    """sequence offset: int(SHA256d("n:for_change:" + master public key x||y))"""
    b = ("%d:%d:" % (n, for_change)).encode("ascii") + mpk64
    return int.from_bytes(hashlib.sha256(hashlib.sha256(b).digest()).digest(), "big")


def electrum_child(master_secret, master_pair, n, for_change):
    """-> (child secret or None, child public pair)"""
    mpk64 = ser256(master_pair[0]) + ser256(master_pair[1])
    off = electrum_offset(mpk64, n, for_change)
    pub = C.add(point(off), master_pair)
    sec = None if master_secret is None else (master_secret + off) % N
    return sec, pub


# -- published vectors (BIP32 "Test vector 1" and "Test vector 2"; strings as carried by tests/btc/bip32_test.py) --

MAINNET_PRV, MAINNET_PUB = bytes.fromhex("0488ade4"), bytes.fromhex("0488b21e")
TESTNET_PRV, TESTNET_PUB = bytes.fromhex("04358394"), bytes.fromhex("043587cf")

VECTORS = [
    ("000102030405060708090a0b0c0d0e0f", [
        ("", "xpub661MyMwAqRbcFtXgS5sYJABqqG9YLmC4Q1Rdap9gSE8NqtwybGhePY2gZ29ESFjqJoCu1Rupje8YtGqsefD265TMg7usUDFdp6W1EGMcet8",
         "xprv9s21ZrQH143K3QTDL4LXw2F7HEK3wJUD2nW2nRk4stbPy6cq3jPPqjiChkVvvNKmPGJxWUtg6LnF5kejMRNNU3TGtRBeJgk33yuGBxrMPHi"),
        ("0H", "xpub68Gmy5EdvgibQVfPdqkBBCHxA5htiqg55crXYuXoQRKfDBFA1WEjWgP6LHhwBZeNK1VTsfTFUHCdrfp1bgwQ9xv5ski8PX9rL2dZXvgGDnw",
         "xprv9uHRZZhk6KAJC1avXpDAp4MDc3sQKNxDiPvvkX8Br5ngLNv1TxvUxt4cV1rGL5hj6KCesnDYUhd7oWgT11eZG7XnxHrnYeSvkzY7d2bhkJ7"),
        ("0H/1", "xpub6ASuArnXKPbfEwhqN6e3mwBcDTgzisQN1wXN9BJcM47sSikHjJf3UFHKkNAWbWMiGj7Wf5uMash7SyYq527Hqck2AxYysAA7xmALppuCkwQ",
         "xprv9wTYmMFdV23N2TdNG573QoEsfRrWKQgWeibmLntzniatZvR9BmLnvSxqu53Kw1UmYPxLgboyZQaXwTCg8MSY3H2EU4pWcQDnRnrVA1xe8fs"),
        ("0H/1/2H", "xpub6D4BDPcP2GT577Vvch3R8wDkScZWzQzMMUm3PWbmWvVJrZwQY4VUNgqFJPMM3No2dFDFGTsxxpG5uJh7n7epu4trkrX7x7DogT5Uv6fcLW5",
         "xprv9z4pot5VBttmtdRTWfWQmoH1taj2axGVzFqSb8C9xaxKymcFzXBDptWmT7FwuEzG3ryjH4ktypQSAewRiNMjANTtpgP4mLTj34bhnZX7UiM"),
        ("0H/1/2H/2", "xpub6FHa3pjLCk84BayeJxFW2SP4XRrFd1JYnxeLeU8EqN3vDfZmbqBqaGJAyiLjTAwm6ZLRQUMv1ZACTj37sR62cfN7fe5JnJ7dh8zL4fiyLHV",
         "xprvA2JDeKCSNNZky6uBCviVfJSKyQ1mDYahRjijr5idH2WwLsEd4Hsb2Tyh8RfQMuPh7f7RtyzTtdrbdqqsunu5Mm3wDvUAKRHSC34sJ7in334"),
        ("0H/1/2H/2/1000000000", "xpub6H1LXWLaKsWFhvm6RVpEL9P4KfRZSW7abD2ttkWP3SSQvnyA8FSVqNTEcYFgJS2UaFcxupHiYkro49S8yGasTvXEYBVPamhGW6cFJodrTHy",
         "xprvA41z7zogVVwxVSgdKUHDy1SKmdb533PjDz7J6N6mV6uS3ze1ai8FHa8kmHScGpWmj4WggLyQjgPie1rFSruoUihUZREPSL39UNdE3BBDu76"),
    ]),
    ("fffcf9f6f3f0edeae7e4e1dedbd8d5d2cfccc9c6c3c0bdbab7b4b1aeaba8a5a29f9c999693908d8a8784817e7b7875726f6c696663605d5a5754514e4b484542", [
        ("", "xpub661MyMwAqRbcFW31YEwpkMuc5THy2PSt5bDMsktWQcFF8syAmRUapSCGu8ED9W6oDMSgv6Zz8idoc4a6mr8BDzTJY47LJhkJ8UB7WEGuduB",
         "xprv9s21ZrQH143K31xYSDQpPDxsXRTUcvj2iNHm5NUtrGiGG5e2DtALGdso3pGz6ssrdK4PFmM8NSpSBHNqPqm55Qn3LqFtT2emdEXVYsCzC2U"),
        ("0", "xpub69H7F5d8KSRgmmdJg2KhpAK8SR3DjMwAdkxj3ZuxV27CprR9LgpeyGmXUbC6wb7ERfvrnKZjXoUmmDznezpbZb7ap6r1D3tgFxHmwMkQTPH",
         "xprv9vHkqa6EV4sPZHYqZznhT2NPtPCjKuDKGY38FBWLvgaDx45zo9WQRUT3dKYnjwih2yJD9mkrocEZXo1ex8G81dwSM1fwqWpWkeS3v86pgKt"),
        ("0/2147483647H", "xpub6ASAVgeehLbnwdqV6UKMHVzgqAG8Gr6riv3Fxxpj8ksbH9ebxaEyBLZ85ySDhKiLDBrQSARLq1uNRts8RuJiHjaDMBU4Zn9h8LZNnBC5y4a",
         "xprv9wSp6B7kry3Vj9m1zSnLvN3xH8RdsPP1Mh7fAaR7aRLcQMKTR2vidYEeEg2mUCTAwCd6vnxVrcjfy2kRgVsFawNzmjuHc2YmYRmagcEPdU9"),
        ("0/2147483647H/1", "xpub6DF8uhdarytz3FWdA8TvFSvvAh8dP3283MY7p2V4SeE2wyWmG5mg5EwVvmdMVCQcoNJxGoWaU9DCWh89LojfZ537wTfunKau47EL2dhHKon",
         "xprv9zFnWC6h2cLgpmSA46vutJzBcfJ8yaJGg8cX1e5StJh45BBciYTRXSd25UEPVuesF9yog62tGAQtHjXajPPdbRCHuWS6T8XA2ECKADdw4Ef"),
        ("0/2147483647H/1/2147483646H", "xpub6ERApfZwUNrhLCkDtcHTcxd75RbzS1ed54G1LkBUHQVHQKqhMkhgbmJbZRkrgZw4koxb5JaHWkY4ALHY2grBGRjaDMzQLcgJvLJuZZvRcEL",
         "xprvA1RpRA33e1JQ7ifknakTFpgNXPmW2YvmhqLQYMmrj4xJXXWYpDPS3xz7iAxn8L39njGVyuoseXzU6rcxFLJ8HFsTjSyQbLYnMpCqE2VbFWc"),
        ("0/2147483647H/1/2147483646H/2", "xpub6FnCn6nSzZAw5Tw7cgR9bi15UV96gLZhjDstkXXxvCLsUXBGXPdSnLFbdpq8p9HmGsApME5hQTZ3emM2rnY5agb9rXpVGyy3bdW6EEgAtqt",
         "xprvA2nrNbFZABcdryreWet9Ea4LvTJcGsqrMzxHx98MMrotbir7yrKCEXw7nadnHM8Dq38EGfSh6dqA9QWTyefMLEcBYJUuekgW4BYPJcr9E7j"),
    ]),
]


def selftest(rng=None):
    import random
    rng = rng or random.Random(32)
    checked = 0
    # fixed-base table vs the generic ladder of refs/ec.py
    for k in [1, 2, 15, 16, 17, 255, 256, N - 1, N - 2, (1 << 255) + 12345, N + 5] + [rng.randrange(1, N) for _ in range(12)]:
        assert point(k) == C.mul(k, C.G), k
    assert point(0) is None and point(N) is None
    assert hashlib.new("ripemd160", b"abc").hexdigest() == "8eb208f7e05d987a9b044a8e98c6b087f15a0bfc"
    for seed_hex, chains in VECTORS:
        m = master(bytes.fromhex(seed_hex))
        for ptxt, xpub, xprv in chains:
            path = parse_path(ptxt)
            node = derive(m, path)
            assert to_text(node, MAINNET_PRV, True) == xprv, ptxt
            assert to_text(node, MAINNET_PUB, False) == xpub, ptxt
            ver, back = from_text(xprv)
            assert ver == MAINNET_PRV and back.fields() == node.fields()
            ver, back = from_text(xpub)
            assert ver == MAINNET_PUB and back.fields() == node.neuter().fields()
            # N(CKDpriv(parent, i)) == CKDpub(N(parent), i) for the non-hardened steps of the vectors
            if path and path[-1] < HARD:
                parent = derive(m, path[:-1])
                pubchild = ckd_pub(parent.neuter(), path[-1])
                assert pubchild.fields() == node.neuter().fields()
                assert to_text(pubchild, MAINNET_PUB, False) == xpub
            if path and path[-1] >= HARD:
                try:
                    ckd_pub(derive(m, path[:-1]).neuter(), path[-1])
                    raise AssertionError("hardened from public not refused")
                except Refused:
                    pass
            checked += 1
    # the law on random material
    for _ in range(10):
        m = master(bytes(rng.randrange(256) for _ in range(rng.choice([16, 32, 64]))))
        path = [rng.choice([0, 1, HARD - 1, rng.randrange(HARD)]) for _ in range(rng.randrange(1, 4))]
        a = derive(m, path).neuter()
        b = derive(m.neuter(), path)
        assert a.fields() == b.fields()
        assert a.K == C.mul(derive(m, path).k, C.G)
        checked += 1
    # the hash step alone and the running point sum agree with the full functions
    for _ in range(4):
        m = master(bytes(rng.randrange(256) for _ in range(32)))
        acc, accp, ks, ils = PointSum(), PointSum(), 0, 0
        for i in (0, 1, HARD - 1, HARD, HARD + 7, rng.randrange(1 << 32)):
            il, ci = ckd_tweak(m.c, serP(m.K), m.k, i)
            ch = ckd_priv(m, i)
            assert ch.k == (il + m.k) % N and ch.c == ci
            acc.add(ch.K)
            ks += ch.k
            if i < HARD:
                assert ckd_tweak(m.c, serP(m.K), None, i) == (il, ci)
                pc = ckd_pub(m.neuter(), i)
                assert pc.K == ch.K and pc.c == ci
                accp.add(pc.K)
                accp.add(C.neg(m.K))
                ils += il
        assert acc.value() == point(ks) and accp.value() == point(ils)
        acc.add(C.neg(acc.value()))
        assert acc.value() is None
        acc.add(m.K)
        acc.add(m.K)
        assert acc.value() == C.add(m.K, m.K)
        checked += 1
    # notation
    assert parse_path("0H/1/2p/3'") == [HARD, 1, HARD + 2, HARD + 3] and parse_path("") == []
    assert path_text([HARD, 1, HARD + 2], "H'") == "0H/1/2'"
    assert expand_ranges("0/1H/0-4") == [[0, HARD + 1, j] for j in range(5)]
    assert expand_ranges("0/2,5,9-11") == [[0, j] for j in (2, 5, 9, 10, 11)]
    assert expand_ranges("3H/2/5/15-20p") == [[HARD + 3, 2, 5, HARD + j] for j in range(15, 21)]
    assert expand_ranges("5-6/7-8p,15/1-2") == [[a, b, c] for a in (5, 6) for b in (HARD + 7, HARD + 8, 15) for c in (1, 2)]
    # Electrum: private and public rule agree; the first receiving address of the all-but-one-zero seed wallet is
    # checked in the check's selftest through its hash160 (address text needs base58 only)
    k = rng.randrange(1, N)
    K = point(k)
    for n_, ch in ((0, 0), (7, 1), (123456, 0)):
        sec, pub = electrum_child(k, K, n_, ch)
        assert point(sec) == pub
        assert electrum_child(None, K, n_, ch) == (None, pub)
    # published Electrum v1 vector (carried by tests/electrum_test.py): seed 00..01 -> first receiving address
    seed = b"00000000000000000000000000000001"
    h = seed
    for _ in range(100000):
        h = hashlib.sha256(h + seed).digest()
    mk = int.from_bytes(h, "big")
    sec, pub = electrum_child(mk, point(mk), 0, 0)
    unc = b"\4" + ser256(pub[0]) + ser256(pub[1])
    assert b58.encode_check(b"\0" + hash160(unc)) == "1LDkC1H438qSnJLHCYkQ3WTZQkSEwoYGHc"
    sec, pub = electrum_child(mk, point(mk), 0, 1)
    assert b58.encode_check(b"\0" + hash160(b"\4" + ser256(pub[0]) + ser256(pub[1]))) == "1iiAbyBTh1J69UzD1JcrfW8JSVJ9ve9gT"
    return {"bip32_vector_nodes": checked, "vectors": len(VECTORS)}
