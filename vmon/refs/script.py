"""Reference Bitcoin Script interpreter: an executable model of Bitcoin Core's interpreter.cpp of the
segwit-v0 era (0.14-0.16: EvalScript, VerifyScript, VerifyWitnessProgram, signature / pubkey encoding
checks, lax DER, CLTV / CSV checkers). One switch-style dispatch over opcode integers, byte-vector stack,
explicit vfExec list. Shares no code with pycoin; validated in selftest() against every vendored Core
vector including the expected error code.
"""
import hashlib

from . import sighash as SH
from .ec import SECP256K1

# --- flags (Core's bit positions) ----------------------------------------------------------------
P2SH, STRICTENC, DERSIG, LOW_S, NULLDUMMY, SIGPUSHONLY, MINIMALDATA, DISCOURAGE_UPGRADABLE_NOPS = (1 << i for i in range(8))
CLEANSTACK, CHECKLOCKTIMEVERIFY, CHECKSEQUENCEVERIFY, WITNESS, DISCOURAGE_UPGRADABLE_WITNESS_PROGRAM = (1 << i for i in range(8, 13))
MINIMALIF, NULLFAIL, WITNESS_PUBKEYTYPE = 1 << 13, 1 << 14, 1 << 15
FLAG_NAMES = {
    "P2SH": P2SH, "STRICTENC": STRICTENC, "DERSIG": DERSIG, "LOW_S": LOW_S, "NULLDUMMY": NULLDUMMY,
    "SIGPUSHONLY": SIGPUSHONLY, "MINIMALDATA": MINIMALDATA, "DISCOURAGE_UPGRADABLE_NOPS": DISCOURAGE_UPGRADABLE_NOPS,
    "CLEANSTACK": CLEANSTACK, "CHECKLOCKTIMEVERIFY": CHECKLOCKTIMEVERIFY, "CHECKSEQUENCEVERIFY": CHECKSEQUENCEVERIFY,
    "WITNESS": WITNESS, "DISCOURAGE_UPGRADABLE_WITNESS_PROGRAM": DISCOURAGE_UPGRADABLE_WITNESS_PROGRAM,
    "MINIMALIF": MINIMALIF, "NULLFAIL": NULLFAIL, "WITNESS_PUBKEYTYPE": WITNESS_PUBKEYTYPE, "NONE": 0, "": 0}

SIGVERSION_BASE, SIGVERSION_WITNESS_V0 = 0, 1

MAX_SCRIPT_ELEMENT_SIZE = 520
MAX_OPS_PER_SCRIPT = 201
MAX_PUBKEYS_PER_MULTISIG = 20
MAX_SCRIPT_SIZE = 10000
MAX_STACK_SIZE = 1000
LOCKTIME_THRESHOLD = 500000000
SEQUENCE_FINAL = 0xffffffff
SEQUENCE_LOCKTIME_DISABLE_FLAG = 1 << 31
SEQUENCE_LOCKTIME_TYPE_FLAG = 1 << 22
SEQUENCE_LOCKTIME_MASK = 0x0000ffff

# --- opcodes -------------------------------------------------------------------------------------
OP = {
    "0": 0x00, "FALSE": 0x00, "PUSHDATA1": 0x4c, "PUSHDATA2": 0x4d, "PUSHDATA4": 0x4e, "1NEGATE": 0x4f, "RESERVED": 0x50,
    "1": 0x51, "TRUE": 0x51, "2": 0x52, "3": 0x53, "4": 0x54, "5": 0x55, "6": 0x56, "7": 0x57, "8": 0x58, "9": 0x59, "10": 0x5a,
    "11": 0x5b, "12": 0x5c, "13": 0x5d, "14": 0x5e, "15": 0x5f, "16": 0x60,
    "NOP": 0x61, "VER": 0x62, "IF": 0x63, "NOTIF": 0x64, "VERIF": 0x65, "VERNOTIF": 0x66, "ELSE": 0x67, "ENDIF": 0x68,
    "VERIFY": 0x69, "RETURN": 0x6a,
    "TOALTSTACK": 0x6b, "FROMALTSTACK": 0x6c, "2DROP": 0x6d, "2DUP": 0x6e, "3DUP": 0x6f, "2OVER": 0x70, "2ROT": 0x71,
    "2SWAP": 0x72, "IFDUP": 0x73, "DEPTH": 0x74, "DROP": 0x75, "DUP": 0x76, "NIP": 0x77, "OVER": 0x78, "PICK": 0x79,
    "ROLL": 0x7a, "ROT": 0x7b, "SWAP": 0x7c, "TUCK": 0x7d,
    "CAT": 0x7e, "SUBSTR": 0x7f, "LEFT": 0x80, "RIGHT": 0x81, "SIZE": 0x82,
    "INVERT": 0x83, "AND": 0x84, "OR": 0x85, "XOR": 0x86, "EQUAL": 0x87, "EQUALVERIFY": 0x88, "RESERVED1": 0x89, "RESERVED2": 0x8a,
    "1ADD": 0x8b, "1SUB": 0x8c, "2MUL": 0x8d, "2DIV": 0x8e, "NEGATE": 0x8f, "ABS": 0x90, "NOT": 0x91, "0NOTEQUAL": 0x92,
    "ADD": 0x93, "SUB": 0x94, "MUL": 0x95, "DIV": 0x96, "MOD": 0x97, "LSHIFT": 0x98, "RSHIFT": 0x99,
    "BOOLAND": 0x9a, "BOOLOR": 0x9b, "NUMEQUAL": 0x9c, "NUMEQUALVERIFY": 0x9d, "NUMNOTEQUAL": 0x9e, "LESSTHAN": 0x9f,
    "GREATERTHAN": 0xa0, "LESSTHANOREQUAL": 0xa1, "GREATERTHANOREQUAL": 0xa2, "MIN": 0xa3, "MAX": 0xa4, "WITHIN": 0xa5,
    "RIPEMD160": 0xa6, "SHA1": 0xa7, "SHA256": 0xa8, "HASH160": 0xa9, "HASH256": 0xaa, "CODESEPARATOR": 0xab,
    "CHECKSIG": 0xac, "CHECKSIGVERIFY": 0xad, "CHECKMULTISIG": 0xae, "CHECKMULTISIGVERIFY": 0xaf,
    "NOP1": 0xb0, "CHECKLOCKTIMEVERIFY": 0xb1, "NOP2": 0xb1, "CHECKSEQUENCEVERIFY": 0xb2, "NOP3": 0xb2,
    "NOP4": 0xb3, "NOP5": 0xb4, "NOP6": 0xb5, "NOP7": 0xb6, "NOP8": 0xb7, "NOP9": 0xb8, "NOP10": 0xb9,
    "INVALIDOPCODE": 0xff,
}
OP_16, OP_1, OP_PUSHDATA4, OP_IF, OP_ENDIF = 0x60, 0x51, 0x4e, 0x63, 0x68
DISABLED = frozenset(OP[n] for n in "CAT SUBSTR LEFT RIGHT INVERT AND OR XOR 2MUL 2DIV MUL DIV MOD LSHIFT RSHIFT".split())


class ScriptErr(Exception):
    def __init__(self, code):
        Exception.__init__(self, code)
        self.code = code


class _NumErr(Exception):
    pass


# --- numbers / booleans ----------------------------------------------------------------------------

def num_decode(vch, require_minimal, max_size=4):
    if len(vch) > max_size:
        raise _NumErr("script number overflow")
    if require_minimal and len(vch) > 0:
        if (vch[-1] & 0x7f) == 0:
            if len(vch) <= 1 or (vch[-2] & 0x80) == 0:
                raise _NumErr("non-minimally encoded script number")
    if not vch:
        return 0
    v = int.from_bytes(vch, "little")
    if vch[-1] & 0x80:
        return -(v & ~(0x80 << (8 * (len(vch) - 1))))
    return v


def num_encode(v):
    if v == 0:
        return b""
    neg = v < 0
    a = -v if neg else v
    out = bytearray()
    while a:
        out.append(a & 0xff)
        a >>= 8
    if out[-1] & 0x80:
        out.append(0x80 if neg else 0)
    elif neg:
        out[-1] |= 0x80
    return bytes(out)


def getint(v):
    return max(-(1 << 31), min((1 << 31) - 1, v))


def cast_to_bool(vch):
    for i, b in enumerate(vch):
        if b != 0:
            return not (i == len(vch) - 1 and b == 0x80)
    return False


def check_minimal_push(data, opcode):
    n = len(data)
    if n == 0:
        return opcode == 0x00
    if n == 1 and 1 <= data[0] <= 16:
        return opcode == OP_1 + (data[0] - 1)
    if n == 1 and data[0] == 0x81:
        return opcode == 0x4f
    if n <= 75:
        return opcode == n
    if n <= 255:
        return opcode == 0x4c
    if n <= 65535:
        return opcode == 0x4d
    return True


# --- signature / key encodings --------------------------------------------------------------------

def is_valid_signature_encoding(sig):
    n = len(sig)
    if n < 9 or n > 73:
        return False
    if sig[0] != 0x30 or sig[1] != n - 3:
        return False
    len_r = sig[3]
    if 5 + len_r >= n:
        return False
    len_s = sig[5 + len_r]
    if len_r + len_s + 7 != n:
        return False
    if sig[2] != 0x02 or len_r == 0 or (sig[4] & 0x80):
        return False
    if len_r > 1 and sig[4] == 0x00 and not (sig[5] & 0x80):
        return False
    if sig[len_r + 4] != 0x02 or len_s == 0 or (sig[len_r + 6] & 0x80):
        return False
    if len_s > 1 and sig[len_r + 6] == 0x00 and not (sig[len_r + 7] & 0x80):
        return False
    return True


def parse_der_lax(inp):
    """Core pubkey.cpp ecdsa_signature_parse_der_lax. Returns None (parse failure) or (r, s); an overflowing or
    over-long integer yields (0, 0), which never verifies."""
    n = len(inp)
    pos = 0
    if pos == n or inp[pos] != 0x30:
        return None
    pos += 1
    if pos == n:
        return None
    lenbyte = inp[pos]
    pos += 1
    if lenbyte & 0x80:
        lenbyte -= 0x80
        if lenbyte > n - pos:
            return None
        pos += lenbyte

    def read_int(pos):
        if pos == n or inp[pos] != 0x02:
            return None
        pos += 1
        if pos == n:
            return None
        lenbyte = inp[pos]
        pos += 1
        if lenbyte & 0x80:
            lenbyte -= 0x80
            if lenbyte > n - pos:
                return None
            while lenbyte > 0 and inp[pos] == 0:
                pos += 1
                lenbyte -= 1
            if lenbyte >= 8:
                return None
            ilen = 0
            while lenbyte > 0:
                ilen = (ilen << 8) + inp[pos]
                pos += 1
                lenbyte -= 1
        else:
            ilen = lenbyte
        if ilen > n - pos:
            return None
        return pos, ilen

    t = read_int(pos)
    if t is None:
        return None
    rpos, rlen = t
    t = read_int(rpos + rlen)
    if t is None:
        return None
    spos, slen = t
    overflow = False
    vals = []
    for p, l in ((rpos, rlen), (spos, slen)):
        while l > 0 and inp[p] == 0:
            l -= 1
            p += 1
        if l > 32:
            overflow = True
            vals.append(0)
        else:
            vals.append(int.from_bytes(inp[p:p + l], "big"))
    if not overflow and (vals[0] >= SECP256K1.n or vals[1] >= SECP256K1.n):
        overflow = True
    if overflow:
        return (0, 0)
    return (vals[0], vals[1])


def check_signature_encoding(sig, flags):
    if len(sig) == 0:
        return
    if (flags & (DERSIG | LOW_S | STRICTENC)) and not is_valid_signature_encoding(sig):
        raise ScriptErr("SIG_DER")
    if flags & LOW_S:
        if not is_valid_signature_encoding(sig):
            raise ScriptErr("SIG_DER")
        rs = parse_der_lax(sig[:-1])
        if rs is None or rs[1] > SECP256K1.n // 2:
            raise ScriptErr("SIG_HIGH_S")
    if flags & STRICTENC:
        ht = sig[-1] & ~SH.SIGHASH_ANYONECANPAY
        if ht < SH.SIGHASH_ALL or ht > SH.SIGHASH_SINGLE:
            raise ScriptErr("SIG_HASHTYPE")


def is_compressed_or_uncompressed_pubkey(k):
    if len(k) < 33:
        return False
    if k[0] == 0x04:
        return len(k) == 65
    if k[0] in (0x02, 0x03):
        return len(k) == 33
    return False


def check_pubkey_encoding(k, flags, sigversion):
    if (flags & STRICTENC) and not is_compressed_or_uncompressed_pubkey(k):
        raise ScriptErr("PUBKEYTYPE")
    if (flags & WITNESS_PUBKEYTYPE) and sigversion == SIGVERSION_WITNESS_V0 and not (len(k) == 33 and k[0] in (2, 3)):
        raise ScriptErr("WITNESS_PUBKEYTYPE")


def parse_pubkey(k):
    """CPubKey validity + secp256k1_ec_pubkey_parse. Returns the point or None."""
    if not k:
        return None
    h = k[0]
    want = 33 if h in (2, 3) else 65 if h in (4, 6, 7) else 0
    if not want or want != len(k):
        return None
    c = SECP256K1
    x = int.from_bytes(k[1:33], "big")
    if x >= c.p:
        return None
    if want == 33:
        pts = c.lift_x(x)
        if pts is None:
            return None
        return pts[0] if (pts[0][1] & 1) == (h & 1) else pts[1]
    y = int.from_bytes(k[33:65], "big")
    if y >= c.p or not c.on_curve((x, y)):
        return None
    if h in (6, 7) and (y & 1) != (h & 1):
        return None
    return (x, y)


_VERIFY_CACHE = {}


def ecdsa_verify(point, z, r, s):
    c = SECP256K1
    if not (1 <= r < c.n and 1 <= s < c.n):
        return False
    key = (point, z, r, s)
    v = _VERIFY_CACHE.get(key)
    if v is None:
        w = pow(s, -1, c.n)
        R = c.mul2(z * w % c.n, c.G, r * w % c.n, point)
        v = R is not None and R[0] % c.n == r
        if len(_VERIFY_CACHE) > 200000:
            _VERIFY_CACHE.clear()
        _VERIFY_CACHE[key] = v
    return v


# --- transaction-bound checker ----------------------------------------------------------------------

class TxChecker:
    """TransactionSignatureChecker for input n_in of tx (refs/txser dict) spending `amount`."""

    def __init__(self, tx, n_in, amount=0, H=SH.dsha, fork_or=0, sighash_log=None):
        self.tx, self.n_in, self.amount, self.H, self.fork_or = tx, n_in, amount, H, fork_or
        self.sighash_log = sighash_log

    def sighash(self, script_code, hash_type, sigversion):
        if sigversion == SIGVERSION_WITNESS_V0:
            return SH.bip143(self.tx, self.n_in, script_code, self.amount, hash_type, self.H, self.fork_or)
        return SH.legacy(self.tx, self.n_in, script_code, hash_type, self.H)

    def check_sig(self, sig, pubkey, script_code, sigversion):
        if self.sighash_log is not None and sig:
            # monitors want to know every digest a (signature, script code) pair commits to, usable key or not
            self.sighash_log.append((sigversion, sig[-1], script_code, self.sighash(script_code, sig[-1], sigversion), bytes(sig)))
        pt = parse_pubkey(pubkey)
        if pt is None:
            return False
        if not sig:
            return False
        hash_type = sig[-1]
        rs = parse_der_lax(sig[:-1])
        if rs is None:
            return False
        digest = self.sighash(script_code, hash_type, sigversion)
        r, s = rs
        if s > SECP256K1.n // 2:
            s = SECP256K1.n - s
        return ecdsa_verify(pt, int.from_bytes(digest, "big"), r, s)

    def check_lock_time(self, n):
        lt = self.tx["lock_time"]
        if not ((lt < LOCKTIME_THRESHOLD and n < LOCKTIME_THRESHOLD) or (lt >= LOCKTIME_THRESHOLD and n >= LOCKTIME_THRESHOLD)):
            return False
        if n > lt:
            return False
        if self.tx["ins"][self.n_in]["sequence"] == SEQUENCE_FINAL:
            return False
        return True

    def check_sequence(self, n):
        seq = self.tx["ins"][self.n_in]["sequence"]
        if (self.tx["version"] & 0xffffffff) < 2:
            return False
        if seq & SEQUENCE_LOCKTIME_DISABLE_FLAG:
            return False
        mask = SEQUENCE_LOCKTIME_TYPE_FLAG | SEQUENCE_LOCKTIME_MASK
        a, b = seq & mask, n & mask
        if not ((a < SEQUENCE_LOCKTIME_TYPE_FLAG and b < SEQUENCE_LOCKTIME_TYPE_FLAG) or
                (a >= SEQUENCE_LOCKTIME_TYPE_FLAG and b >= SEQUENCE_LOCKTIME_TYPE_FLAG)):
            return False
        return b <= a


class NullChecker:
    """BaseSignatureChecker: every signature / lock check fails."""

    def check_sig(self, *a):
        return False

    def check_lock_time(self, n):
        return False

    def check_sequence(self, n):
        return False


# --- EvalScript ---------------------------------------------------------------------------------------

def _hash_op(opcode, d):
    if opcode == 0xa6:
        return hashlib.new("ripemd160", d).digest()
    if opcode == 0xa7:
        return hashlib.sha1(d).digest()
    if opcode == 0xa8:
        return hashlib.sha256(d).digest()
    if opcode == 0xa9:
        return hashlib.new("ripemd160", hashlib.sha256(d).digest()).digest()
    return hashlib.sha256(hashlib.sha256(d).digest()).digest()


def eval_script(stack, script, flags, checker, sigversion, trace=None, phase=""):
    """Mutates `stack`. Raises ScriptErr(code) on failure."""
    try:
        _eval(stack, script, flags, checker, sigversion, trace, phase)
    except _NumErr:
        raise ScriptErr("UNKNOWN_ERROR")


def _eval(stack, script, flags, checker, sigversion, trace, phase):
    if len(script) > MAX_SCRIPT_SIZE:
        raise ScriptErr("SCRIPT_SIZE")
    pc = 0
    end = len(script)
    begincodehash = 0
    vf_exec = []
    altstack = []
    n_op = 0
    req_min = bool(flags & MINIMALDATA)

    def need(k):
        if len(stack) < k:
            raise ScriptErr("INVALID_STACK_OPERATION")

    def num(vch, max_size=4):
        return num_decode(vch, req_min, max_size)

    while pc < end:
        f_exec = False not in vf_exec
        pc0 = pc
        ok, opcode, data, pc = SH.get_op(script, pc)
        if not ok:
            raise ScriptErr("BAD_OPCODE")
        if len(data) > MAX_SCRIPT_ELEMENT_SIZE:
            raise ScriptErr("PUSH_SIZE")
        if opcode > OP_16:
            n_op += 1
            if n_op > MAX_OPS_PER_SCRIPT:
                raise ScriptErr("OP_COUNT")
        if opcode in DISABLED:
            raise ScriptErr("DISABLED_OPCODE")
        if trace is not None:
            trace.append((phase, pc0, opcode, f_exec, [bytes(x) for x in stack], len(altstack)))

        if f_exec and opcode <= OP_PUSHDATA4:
            if req_min and not check_minimal_push(data, opcode):
                raise ScriptErr("MINIMALDATA")
            stack.append(data)
        elif f_exec or (OP_IF <= opcode <= OP_ENDIF):
            if opcode == 0x4f or OP_1 <= opcode <= OP_16:
                stack.append(num_encode(opcode - (OP_1 - 1)))
            elif opcode == 0x61:                                   # NOP
                pass
            elif opcode == 0xb1:                                   # CHECKLOCKTIMEVERIFY
                if not (flags & CHECKLOCKTIMEVERIFY):
                    if flags & DISCOURAGE_UPGRADABLE_NOPS:
                        raise ScriptErr("DISCOURAGE_UPGRADABLE_NOPS")
                else:
                    need(1)
                    n = num(stack[-1], 5)
                    if n < 0:
                        raise ScriptErr("NEGATIVE_LOCKTIME")
                    if not checker.check_lock_time(n):
                        raise ScriptErr("UNSATISFIED_LOCKTIME")
            elif opcode == 0xb2:                                   # CHECKSEQUENCEVERIFY
                if not (flags & CHECKSEQUENCEVERIFY):
                    if flags & DISCOURAGE_UPGRADABLE_NOPS:
                        raise ScriptErr("DISCOURAGE_UPGRADABLE_NOPS")
                else:
                    need(1)
                    n = num(stack[-1], 5)
                    if n < 0:
                        raise ScriptErr("NEGATIVE_LOCKTIME")
                    if not (n & SEQUENCE_LOCKTIME_DISABLE_FLAG):
                        if not checker.check_sequence(n):
                            raise ScriptErr("UNSATISFIED_LOCKTIME")
            elif opcode == 0xb0 or 0xb3 <= opcode <= 0xb9:         # NOP1, NOP4..NOP10
                if flags & DISCOURAGE_UPGRADABLE_NOPS:
                    raise ScriptErr("DISCOURAGE_UPGRADABLE_NOPS")
            elif opcode in (0x63, 0x64):                           # IF / NOTIF
                value = False
                if f_exec:
                    if len(stack) < 1:
                        raise ScriptErr("UNBALANCED_CONDITIONAL")
                    vch = stack[-1]
                    if sigversion == SIGVERSION_WITNESS_V0 and (flags & MINIMALIF):
                        if len(vch) > 1:
                            raise ScriptErr("MINIMALIF")
                        if len(vch) == 1 and vch[0] != 1:
                            raise ScriptErr("MINIMALIF")
                    value = cast_to_bool(vch)
                    if opcode == 0x64:
                        value = not value
                    stack.pop()
                vf_exec.append(value)
            elif opcode == 0x67:                                   # ELSE
                if not vf_exec:
                    raise ScriptErr("UNBALANCED_CONDITIONAL")
                vf_exec[-1] = not vf_exec[-1]
            elif opcode == 0x68:                                   # ENDIF
                if not vf_exec:
                    raise ScriptErr("UNBALANCED_CONDITIONAL")
                vf_exec.pop()
            elif opcode == 0x69:                                   # VERIFY
                need(1)
                if cast_to_bool(stack[-1]):
                    stack.pop()
                else:
                    raise ScriptErr("VERIFY")
            elif opcode == 0x6a:
                raise ScriptErr("OP_RETURN")
            elif opcode == 0x6b:                                   # TOALTSTACK
                need(1)
                altstack.append(stack.pop())
            elif opcode == 0x6c:
                if len(altstack) < 1:
                    raise ScriptErr("INVALID_ALTSTACK_OPERATION")
                stack.append(altstack.pop())
            elif opcode == 0x6d:                                   # 2DROP
                need(2)
                stack.pop()
                stack.pop()
            elif opcode == 0x6e:                                   # 2DUP
                need(2)
                stack.extend([stack[-2], stack[-1]])
            elif opcode == 0x6f:                                   # 3DUP
                need(3)
                stack.extend([stack[-3], stack[-2], stack[-1]])
            elif opcode == 0x70:                                   # 2OVER
                need(4)
                stack.extend([stack[-4], stack[-3]])
            elif opcode == 0x71:                                   # 2ROT
                need(6)
                a, b = stack[-6], stack[-5]
                del stack[-6:-4]
                stack.extend([a, b])
            elif opcode == 0x72:                                   # 2SWAP
                need(4)
                stack[-4], stack[-2] = stack[-2], stack[-4]
                stack[-3], stack[-1] = stack[-1], stack[-3]
            elif opcode == 0x73:                                   # IFDUP
                need(1)
                if cast_to_bool(stack[-1]):
                    stack.append(stack[-1])
            elif opcode == 0x74:                                   # DEPTH
                stack.append(num_encode(len(stack)))
            elif opcode == 0x75:
                need(1)
                stack.pop()
            elif opcode == 0x76:
                need(1)
                stack.append(stack[-1])
            elif opcode == 0x77:                                   # NIP
                need(2)
                del stack[-2]
            elif opcode == 0x78:                                   # OVER
                need(2)
                stack.append(stack[-2])
            elif opcode in (0x79, 0x7a):                           # PICK / ROLL
                need(2)
                n = getint(num(stack[-1]))
                stack.pop()
                if n < 0 or n >= len(stack):
                    raise ScriptErr("INVALID_STACK_OPERATION")
                v = stack[-n - 1]
                if opcode == 0x7a:
                    del stack[-n - 1]
                stack.append(v)
            elif opcode == 0x7b:                                   # ROT
                need(3)
                stack[-3], stack[-2] = stack[-2], stack[-3]
                stack[-2], stack[-1] = stack[-1], stack[-2]
            elif opcode == 0x7c:                                   # SWAP
                need(2)
                stack[-2], stack[-1] = stack[-1], stack[-2]
            elif opcode == 0x7d:                                   # TUCK
                need(2)
                stack.insert(len(stack) - 2, stack[-1])
            elif opcode == 0x82:                                   # SIZE
                need(1)
                stack.append(num_encode(len(stack[-1])))
            elif opcode in (0x87, 0x88):                           # EQUAL / EQUALVERIFY
                need(2)
                eq = stack[-2] == stack[-1]
                stack.pop()
                stack.pop()
                stack.append(b"\x01" if eq else b"")
                if opcode == 0x88:
                    if eq:
                        stack.pop()
                    else:
                        raise ScriptErr("EQUALVERIFY")
            elif opcode in (0x8b, 0x8c, 0x8f, 0x90, 0x91, 0x92):   # unary numeric
                need(1)
                bn = num(stack[-1])
                if opcode == 0x8b:
                    bn += 1
                elif opcode == 0x8c:
                    bn -= 1
                elif opcode == 0x8f:
                    bn = -bn
                elif opcode == 0x90:
                    bn = abs(bn)
                elif opcode == 0x91:
                    bn = int(bn == 0)
                else:
                    bn = int(bn != 0)
                stack.pop()
                stack.append(num_encode(bn))
            elif opcode in (0x93, 0x94) or 0x9a <= opcode <= 0xa4:  # binary numeric
                need(2)
                a, b = num(stack[-2]), num(stack[-1])
                if opcode == 0x93:
                    r = a + b
                elif opcode == 0x94:
                    r = a - b
                elif opcode == 0x9a:
                    r = int(a != 0 and b != 0)
                elif opcode == 0x9b:
                    r = int(a != 0 or b != 0)
                elif opcode in (0x9c, 0x9d):
                    r = int(a == b)
                elif opcode == 0x9e:
                    r = int(a != b)
                elif opcode == 0x9f:
                    r = int(a < b)
                elif opcode == 0xa0:
                    r = int(a > b)
                elif opcode == 0xa1:
                    r = int(a <= b)
                elif opcode == 0xa2:
                    r = int(a >= b)
                elif opcode == 0xa3:
                    r = min(a, b)
                else:
                    r = max(a, b)
                stack.pop()
                stack.pop()
                stack.append(num_encode(r))
                if opcode == 0x9d:
                    if cast_to_bool(stack[-1]):
                        stack.pop()
                    else:
                        raise ScriptErr("NUMEQUALVERIFY")
            elif opcode == 0xa5:                                   # WITHIN
                need(3)
                x, lo, hi = num(stack[-3]), num(stack[-2]), num(stack[-1])
                v = lo <= x < hi
                del stack[-3:]
                stack.append(b"\x01" if v else b"")
            elif 0xa6 <= opcode <= 0xaa:                           # hashes
                need(1)
                stack.append(_hash_op(opcode, stack.pop()))
            elif opcode == 0xab:
                begincodehash = pc
            elif opcode in (0xac, 0xad):                           # CHECKSIG(VERIFY)
                need(2)
                sig, pubkey = stack[-2], stack[-1]
                script_code = script[begincodehash:]
                if sigversion == SIGVERSION_BASE:
                    script_code, _ = SH.find_and_delete(script_code, SH.push_data(sig))
                check_signature_encoding(sig, flags)
                check_pubkey_encoding(pubkey, flags, sigversion)
                success = checker.check_sig(sig, pubkey, script_code, sigversion)
                if not success and (flags & NULLFAIL) and len(sig):
                    raise ScriptErr("NULLFAIL")
                stack.pop()
                stack.pop()
                stack.append(b"\x01" if success else b"")
                if opcode == 0xad:
                    if success:
                        stack.pop()
                    else:
                        raise ScriptErr("CHECKSIGVERIFY")
            elif opcode in (0xae, 0xaf):                           # CHECKMULTISIG(VERIFY)
                i = 1
                need(i)
                n_keys = getint(num(stack[-i]))
                if n_keys < 0 or n_keys > MAX_PUBKEYS_PER_MULTISIG:
                    raise ScriptErr("PUBKEY_COUNT")
                n_op += n_keys
                if n_op > MAX_OPS_PER_SCRIPT:
                    raise ScriptErr("OP_COUNT")
                i += 1
                ikey = i
                ikey2 = n_keys + 2
                i += n_keys
                need(i)
                n_sigs = getint(num(stack[-i]))
                if n_sigs < 0 or n_sigs > n_keys:
                    raise ScriptErr("SIG_COUNT")
                i += 1
                isig = i
                i += n_sigs
                need(i)
                script_code = script[begincodehash:]
                for k in range(n_sigs):
                    if sigversion == SIGVERSION_BASE:
                        script_code, _ = SH.find_and_delete(script_code, SH.push_data(stack[-isig - k]))
                success = True
                while success and n_sigs > 0:
                    sig, pubkey = stack[-isig], stack[-ikey]
                    check_signature_encoding(sig, flags)
                    check_pubkey_encoding(pubkey, flags, sigversion)
                    if checker.check_sig(sig, pubkey, script_code, sigversion):
                        isig += 1
                        n_sigs -= 1
                    ikey += 1
                    n_keys -= 1
                    if n_sigs > n_keys:
                        success = False
                while i > 1:
                    i -= 1
                    if not success and (flags & NULLFAIL) and not ikey2 and len(stack[-1]):
                        raise ScriptErr("NULLFAIL")
                    if ikey2 > 0:
                        ikey2 -= 1
                    stack.pop()
                need(1)
                if (flags & NULLDUMMY) and len(stack[-1]):
                    raise ScriptErr("SIG_NULLDUMMY")
                stack.pop()
                stack.append(b"\x01" if success else b"")
                if opcode == 0xaf:
                    if success:
                        stack.pop()
                    else:
                        raise ScriptErr("CHECKMULTISIGVERIFY")
            else:
                raise ScriptErr("BAD_OPCODE")
        if len(stack) + len(altstack) > MAX_STACK_SIZE:
            raise ScriptErr("STACK_SIZE")
    if vf_exec:
        raise ScriptErr("UNBALANCED_CONDITIONAL")


# --- script predicates ----------------------------------------------------------------------------

def is_push_only(script):
    pc = 0
    while pc < len(script):
        ok, opcode, _, pc = SH.get_op(script, pc)
        if not ok or opcode > OP_16:
            return False
    return True


def is_p2sh(script):
    return len(script) == 23 and script[0] == 0xa9 and script[1] == 0x14 and script[22] == 0x87


def witness_program(script):
    """(version, program) or None."""
    if len(script) < 4 or len(script) > 42:
        return None
    if script[0] != 0 and not (OP_1 <= script[0] <= OP_16):
        return None
    if script[1] + 2 != len(script):
        return None
    return (0 if script[0] == 0 else script[0] - 0x50), script[2:]


def verify_witness_program(witness, version, program, flags, checker, trace=None):
    if version == 0:
        if len(program) == 32:
            if len(witness) == 0:
                raise ScriptErr("WITNESS_PROGRAM_WITNESS_EMPTY")
            script = witness[-1]
            stack = [bytes(x) for x in witness[:-1]]
            if hashlib.sha256(script).digest() != program:
                raise ScriptErr("WITNESS_PROGRAM_MISMATCH")
        elif len(program) == 20:
            if len(witness) != 2:
                raise ScriptErr("WITNESS_PROGRAM_MISMATCH")
            script = b"\x76\xa9\x14" + program + b"\x88\xac"
            stack = [bytes(x) for x in witness]
        else:
            raise ScriptErr("WITNESS_PROGRAM_WRONG_LENGTH")
    elif flags & DISCOURAGE_UPGRADABLE_WITNESS_PROGRAM:
        raise ScriptErr("DISCOURAGE_UPGRADABLE_WITNESS_PROGRAM")
    else:
        return
    for item in stack:
        if len(item) > MAX_SCRIPT_ELEMENT_SIZE:
            raise ScriptErr("PUSH_SIZE")
    eval_script(stack, script, flags, checker, SIGVERSION_WITNESS_V0, trace, "witness")
    if len(stack) != 1:
        raise ScriptErr("EVAL_FALSE")
    if not cast_to_bool(stack[-1]):
        raise ScriptErr("EVAL_FALSE")


def verify_script(script_sig, script_pubkey, witness, flags, checker, trace=None):
    """Returns None on success, raises ScriptErr otherwise. `witness` is a list of byte strings."""
    witness = witness or []
    had_witness = False
    if (flags & SIGPUSHONLY) and not is_push_only(script_sig):
        raise ScriptErr("SIG_PUSHONLY")
    stack = []
    eval_script(stack, script_sig, flags, checker, SIGVERSION_BASE, trace, "scriptSig")
    stack_copy = list(stack) if flags & P2SH else None
    eval_script(stack, script_pubkey, flags, checker, SIGVERSION_BASE, trace, "scriptPubKey")
    if not stack or not cast_to_bool(stack[-1]):
        raise ScriptErr("EVAL_FALSE")
    if flags & WITNESS:
        wp = witness_program(script_pubkey)
        if wp is not None:
            had_witness = True
            if len(script_sig) != 0:
                raise ScriptErr("WITNESS_MALLEATED")
            verify_witness_program(witness, wp[0], wp[1], flags, checker, trace)
            del stack[1:]
    if (flags & P2SH) and is_p2sh(script_pubkey):
        if not is_push_only(script_sig):
            raise ScriptErr("SIG_PUSHONLY")
        stack = stack_copy
        assert stack
        redeem = stack.pop()
        eval_script(stack, redeem, flags, checker, SIGVERSION_BASE, trace, "redeem")
        if not stack or not cast_to_bool(stack[-1]):
            raise ScriptErr("EVAL_FALSE")
        if flags & WITNESS:
            wp = witness_program(redeem)
            if wp is not None:
                had_witness = True
                if script_sig != SH.push_data(redeem):
                    raise ScriptErr("WITNESS_MALLEATED_P2SH")
                verify_witness_program(witness, wp[0], wp[1], flags, checker, trace)
                del stack[1:]
    if flags & CLEANSTACK:
        # Core asserts P2SH and WITNESS are set; callers must not pass CLEANSTACK without them
        if len(stack) != 1:
            raise ScriptErr("CLEANSTACK")
    if flags & WITNESS:
        if not had_witness and len(witness) > 0:
            raise ScriptErr("WITNESS_UNEXPECTED")


def flags_permitted(flags):
    """Flag combinations Core's VerifyScript accepts without tripping its asserts."""
    if (flags & CLEANSTACK) and not ((flags & P2SH) and (flags & WITNESS)):
        return False
    if (flags & WITNESS) and not (flags & P2SH):
        return False
    return True


def result_of(fn, *a, **kw):
    try:
        fn(*a, **kw)
        return "OK"
    except ScriptErr as e:
        return e.code
