"""Independent wire encoders / decoders for Bitcoin P2P message payloads.

Written per message from the protocol documentation (developer reference "P2P Network", BIP31/35/37/130/133/152/155),
one explicit function pair per message; no layout table. Field values are plain Python:

  address   {"services": u64, "ip": 16 bytes, "port": u16}          (26 bytes: LE services, address, BIG-endian port)
  inventory {"type": u32, "hash": 32 bytes wire order}
  tx        refs/txser dict        header   refs/blockser dict       block  {"header": header, "txs": [tx, ...]}

Message fields are keyed by the names pycoin's pack() takes as keyword arguments (they are API surface, not layout).
Deviations of the *library's declared fields* from the documents are encoded as declared and listed in DECLARED_NOTES:
the property quantifies over "every field value of the declared type".
"""
from . import txser
from . import blockser
from .txser import csize, Reader

DECLARED_NOTES = [
    "cmpctblock: the library declares a 32-byte `header_hash` where BIP152 HeaderAndShortIDs carries the 80-byte header; "
    "encoded as declared (32 bytes)",
    "filterload: the library declares `flags` as a boolean where BIP37 nFlags is a uint8 in {0,1,2}; only True/False used",
    "reject: `data` is declared as a fixed 32-byte hash (the documents make it optional extra data)",
    "version: `version`, `last_block_index` declared unsigned 32-bit and `timestamp` unsigned 64-bit (documents: signed)",
]


def u8(v):
    return int(v).to_bytes(1, "little")


def u32(v):
    return int(v).to_bytes(4, "little")


def u64(v):
    return int(v).to_bytes(8, "little")


def u48(v):
    return int(v).to_bytes(6, "little")


def port_be(v):
    return int(v).to_bytes(2, "big")


def h32(b):
    if len(b) != 32:
        raise ValueError("hash must be 32 bytes")
    return bytes(b)


def var_bytes(b):
    return csize(len(b)) + bytes(b)


def vector(items, enc):
    return csize(len(items)) + b"".join(enc(i) for i in items)


def enc_address(a):
    if len(a["ip"]) != 16:
        raise ValueError("address must be 16 bytes")
    return u64(a["services"]) + bytes(a["ip"]) + port_be(a["port"])


def enc_inv(i):
    return u32(i["type"]) + h32(i["hash"])


def enc_block(b):
    return blockser.ser_block(b["header"], b["txs"])


def ipv4(a, b, c, d):
    """IPv4-mapped IPv6 address as the documents prescribe: 10 zero bytes, ff ff, the four octets."""
    return b"\0" * 10 + b"\xff\xff" + bytes([a, b, c, d])


# ------------------------------------------------------------------------------------------- encoders

def e_empty(f):
    return b""


def e_version(f):
    out = u32(f["version"]) + u64(f["services"]) + u64(f["timestamp"])
    out += enc_address(f["remote_address"])          # addr_recv, no time field in a version message
    out += enc_address(f["local_address"])           # addr_from
    out += u64(f["nonce"]) + var_bytes(f["subversion"]) + u32(f["last_block_index"])
    if f.get("relay") is not None:                   # BIP37: optional trailing bool
        out += b"\x01" if f["relay"] else b"\x00"
    return out


def e_addr(f):
    return vector(f["date_address_tuples"], lambda e: u32(e["time"]) + enc_address(e["addr"]))


def e_inv(f):
    return vector(f["items"], enc_inv)


def e_reject(f):
    return var_bytes(f["message"]) + u8(f["code"]) + var_bytes(f["reason"]) + h32(f["data"])


def e_locator(f):
    return u32(f["version"]) + vector(f["hashes"], h32) + h32(f["hash_stop"])


def e_tx(f):
    return txser.serialize(f["tx"])


def e_block(f):
    return enc_block(f["block"])


def e_headers(f):
    return vector(f["headers"], lambda e: blockser.ser_header(e["header"]) + csize(e["txn_count"]))


def e_feefilter(f):
    return u64(f["fee_filter_value"])


def e_sendcmpct(f):
    return (b"\x01" if f["enabled"] else b"\x00") + u64(f["version"])


def e_cmpctblock(f):
    out = h32(f["header_hash"]) + u64(f["nonce"])
    out += vector(f["short_ids"], u48)
    out += vector(f["prefilled_txs"], lambda e: csize(e["index"]) + txser.serialize(e["tx"]))
    return out


def e_getblocktxn(f):
    return h32(f["header_hash"]) + vector(f["indices"], csize)


def e_blocktxn(f):
    return h32(f["header_hash"]) + vector(f["txs"], txser.serialize)


def e_nonce(f):
    return u64(f["nonce"])


def e_filterload(f):
    return (var_bytes(bytes(f["filter"])) + u32(f["hash_function_count"]) + u32(f["tweak"])
            + (b"\x01" if f["flags"] else b"\x00"))


def e_filteradd(f):
    return var_bytes(bytes(f["data"]))


def e_merkleblock(f):
    return (blockser.ser_header(f["header"]) + u32(f["total_transactions"]) + vector(f["hashes"], h32)
            + var_bytes(bytes(f["flags"])))


def e_alert(f):
    return var_bytes(f["payload"]) + var_bytes(f["signature"])


def enc_alert_payload(a):
    """The signed part of an alert (protocol documentation, "alert")."""
    out = u32(a["version"]) + u64(a["relayUntil"]) + u64(a["expiration"]) + u32(a["id"]) + u32(a["cancel"])
    out += vector(a["setCancel"], u32) + u32(a["minVer"]) + u32(a["maxVer"]) + vector(a["setSubVer"], var_bytes)
    out += u32(a["priority"]) + var_bytes(a["comment"]) + var_bytes(a["statusBar"]) + var_bytes(a["reserved"])
    return out


# ------------------------------------------------------------------------------------------- decoders

def rd_h32(r):
    return bytes(r.take(32))


def rd_vector(r, dec):
    return [dec(r) for _ in range(r.csize())]


def rd_address(r):
    s = r.u(8)
    ip = bytes(r.take(16))
    return {"services": s, "ip": ip, "port": int.from_bytes(r.take(2), "big")}


def rd_inv(r):
    return {"type": r.u(4), "hash": rd_h32(r)}


def rd_tx(r):
    # a sequential parse that succeeds inside a window read nothing beyond it: the window only spares copying the whole
    # rest of a long array for every element
    rest = len(r.b) - r.pos
    for window in (4096, rest):
        try:
            tx, used = txser.parse(r.b[r.pos:r.pos + window], allow_trailing=True)
            break
        except Exception:
            if window >= rest:
                raise
    r.pos += used
    return tx


def rd_header(r):
    return blockser.parse_header(r.take(80))


def rd_block(r):
    h = rd_header(r)
    return {"header": h, "txs": rd_vector(r, rd_tx)}


def rd_bool(r):
    return r.u(1) != 0


def d_empty(r):
    return {}


def d_version(r):
    f = {"version": r.u(4), "services": r.u(8), "timestamp": r.u(8), "remote_address": rd_address(r),
         "local_address": rd_address(r), "nonce": r.u(8), "subversion": bytes(r.varstr()), "last_block_index": r.u(4)}
    f["relay"] = rd_bool(r) if r.pos < len(r.b) else None
    return f


def d_addr(r):
    return {"date_address_tuples": rd_vector(r, lambda r: {"time": r.u(4), "addr": rd_address(r)})}


def d_inv(r):
    return {"items": rd_vector(r, rd_inv)}


def d_reject(r):
    return {"message": bytes(r.varstr()), "code": r.u(1), "reason": bytes(r.varstr()), "data": rd_h32(r)}


def d_locator(r):
    return {"version": r.u(4), "hashes": rd_vector(r, rd_h32), "hash_stop": rd_h32(r)}


def d_tx(r):
    return {"tx": rd_tx(r)}


def d_block(r):
    return {"block": rd_block(r)}


def d_headers(r):
    return {"headers": rd_vector(r, lambda r: {"header": rd_header(r), "txn_count": r.csize()})}


def d_feefilter(r):
    return {"fee_filter_value": r.u(8)}


def d_sendcmpct(r):
    return {"enabled": rd_bool(r), "version": r.u(8)}


def d_cmpctblock(r):
    return {"header_hash": rd_h32(r), "nonce": r.u(8), "short_ids": rd_vector(r, lambda r: r.u(6)),
            "prefilled_txs": rd_vector(r, lambda r: {"index": r.csize(), "tx": rd_tx(r)})}


def d_getblocktxn(r):
    return {"header_hash": rd_h32(r), "indices": rd_vector(r, lambda r: r.csize())}


def d_blocktxn(r):
    return {"header_hash": rd_h32(r), "txs": rd_vector(r, rd_tx)}


def d_nonce(r):
    return {"nonce": r.u(8)}


def d_filterload(r):
    return {"filter": list(r.varstr()), "hash_function_count": r.u(4), "tweak": r.u(4), "flags": rd_bool(r)}


def d_filteradd(r):
    return {"data": list(r.varstr())}


def d_merkleblock(r):
    return {"header": rd_header(r), "total_transactions": r.u(4), "hashes": rd_vector(r, rd_h32), "flags": list(r.varstr())}


def d_alert(r):
    return {"payload": bytes(r.varstr()), "signature": bytes(r.varstr())}


def dec_alert_payload(b):
    r = Reader(b)
    a = {"version": r.u(4), "relayUntil": r.u(8), "expiration": r.u(8), "id": r.u(4), "cancel": r.u(4),
         "setCancel": rd_vector(r, lambda r: r.u(4)), "minVer": r.u(4), "maxVer": r.u(4),
         "setSubVer": rd_vector(r, lambda r: bytes(r.varstr())), "priority": r.u(4), "comment": bytes(r.varstr()),
         "statusBar": bytes(r.varstr()), "reserved": bytes(r.varstr())}
    if r.pos != len(b):
        raise ValueError("trailing bytes in alert payload")
    return a


MESSAGES = {
    "version": (e_version, d_version), "verack": (e_empty, d_empty), "addr": (e_addr, d_addr),
    "inv": (e_inv, d_inv), "getdata": (e_inv, d_inv), "notfound": (e_inv, d_inv), "reject": (e_reject, d_reject),
    "getblocks": (e_locator, d_locator), "getheaders": (e_locator, d_locator), "sendheaders": (e_empty, d_empty),
    "tx": (e_tx, d_tx), "block": (e_block, d_block), "headers": (e_headers, d_headers), "getaddr": (e_empty, d_empty),
    "mempool": (e_empty, d_empty), "feefilter": (e_feefilter, d_feefilter), "sendcmpct": (e_sendcmpct, d_sendcmpct),
    "cmpctblock": (e_cmpctblock, d_cmpctblock), "getblocktxn": (e_getblocktxn, d_getblocktxn),
    "blocktxn": (e_blocktxn, d_blocktxn), "sendaddrv2": (e_empty, d_empty), "ping": (e_nonce, d_nonce),
    "pong": (e_nonce, d_nonce), "filterload": (e_filterload, d_filterload), "filteradd": (e_filteradd, d_filteradd),
    "filterclear": (e_empty, d_empty), "merkleblock": (e_merkleblock, d_merkleblock), "alert": (e_alert, d_alert),
}


def encode(name, fields):
    return MESSAGES[name][0](fields)


def decode(name, data):
    r = Reader(bytes(data))
    f = MESSAGES[name][1](r)
    if r.pos != len(r.b):
        raise ValueError("trailing bytes")
    return f


def normalise(name, fields):
    """the value decode() returns for what encode() was given (lists of ints for byte arrays, absent relay = None)"""
    f = dict(fields)
    for k in ("filter", "data", "flags"):
        if name in ("filterload", "filteradd", "merkleblock") and k in f and not isinstance(f[k], bool):
            f[k] = list(bytes(f[k]))
    if name == "version":
        f.setdefault("relay", None)
    return f


def selftest():
    n = 0
    x = bytes.fromhex
    # hand-assembled byte strings following the documents (not produced by this module)
    H = bytes(range(32))
    a4 = {"services": 1, "ip": ipv4(198, 27, 100, 9), "port": 8333}
    a4_hex = "0100000000000000" + "00000000000000000000ffffc61b6409" + "208d"      # the documented example address
    vectors = [
        ("ping", {"nonce": 0x0102030405060708}, "0807060504030201"),
        ("pong", {"nonce": 1}, "0100000000000000"),
        ("verack", {}, ""),
        ("feefilter", {"fee_filter_value": 48508}, "7cbd000000000000"),            # developer reference example
        ("sendcmpct", {"enabled": False, "version": 1}, "000100000000000000"),
        ("sendcmpct", {"enabled": True, "version": 2}, "010200000000000000"),
        ("inv", {"items": [{"type": 1, "hash": H}, {"type": 2, "hash": H[::-1]}]},
         "02" + "01000000" + H.hex() + "02000000" + H[::-1].hex()),
        ("getheaders", {"version": 70002, "hashes": [H], "hash_stop": b"\0" * 32}, "72110100" + "01" + H.hex() + "00" * 32),
        ("addr", {"date_address_tuples": [{"time": 0x4d1015e2, "addr": a4}]}, "01" + "e215104d" + a4_hex),
        ("version", {"version": 70002, "services": 1, "timestamp": 0x545e8fbc, "remote_address": a4, "local_address": a4,
                     "nonce": 0x3b2eb35d8ce61765, "subversion": b"/Satoshi:0.9.3/", "last_block_index": 329167, "relay": True},
         "72110100" + "0100000000000000" + "bc8f5e5400000000" + a4_hex + a4_hex + "6517e68c5db32e3b" + "0f" +
         b"/Satoshi:0.9.3/".hex() + "cf050500" + "01"),
        ("filterload", {"filter": [0xb5, 0x0f], "hash_function_count": 11, "tweak": 0, "flags": False},
         "02b50f" + "0b000000" + "00000000" + "00"),                                # developer reference example
        ("filteradd", {"data": list(H)}, "20" + H.hex()),
        ("getblocktxn", {"header_hash": H, "indices": [0, 252, 253, 65536]}, H.hex() + "04" + "00" + "fc" + "fdfd00" + "fe00000100"),
        ("cmpctblock", {"header_hash": H, "nonce": 5, "short_ids": [1, 0xffffffffffff, 0x010203040506], "prefilled_txs": []},
         H.hex() + "0500000000000000" + "03" + "010000000000" + "ffffffffffff" + "060504030201" + "00"),
        ("reject", {"message": b"tx", "code": 0x12, "reason": b"bad", "data": H}, "027478" + "12" + "03626164" + H.hex()),
        ("alert", {"payload": b"\x01\x02", "signature": b"\x03"}, "020102" + "0103"),
    ]
    for name, fields, hexs in vectors:
        got = encode(name, fields)
        assert got == x(hexs), (name, got.hex(), hexs)
        assert decode(name, got) == normalise(name, fields), name
        n += 1
    # version without relay: 85 bytes + user agent; decoding reports absence
    f = dict(vectors[9][1], relay=None)
    b = encode("version", f)
    assert b == x(vectors[9][2])[:-1] and decode("version", b)["relay"] is None
    assert encode("version", dict(f, relay=False))[-1:] == b"\x00" and decode("version", b + b"\x00")["relay"] is False
    n += 1
    # embedded structures: genesis block as block / headers / merkleblock / tx
    hdr = {"version": 1, "prev": b"\0" * 32,
           "root": x("4a5e1e4baab89f3a32518a88c31bc87f618f76673e2cc77ab2127b7afdeda33b")[::-1],
           "time": 1231006505, "bits": 0x1d00ffff, "nonce": 2083236893}
    cb = {"version": 1, "ins": [{"prev": b"\0" * 32, "index": 0xffffffff, "script": b"\x04\xff\xff\x00\x1d", "sequence": 0xffffffff,
                                 "witness": []}], "outs": [{"value": 50 * 10 ** 8, "script": b"\x51"}], "lock_time": 0}
    wtx = {"version": 2, "ins": [{"prev": H, "index": 1, "script": b"", "sequence": 5, "witness": [b"\x01", b""]}],
           "outs": [{"value": 1, "script": b""}], "lock_time": 9}
    blk = {"header": hdr, "txs": [cb, wtx]}
    cases = [("block", {"block": blk}), ("tx", {"tx": wtx}), ("tx", {"tx": cb}),
             ("headers", {"headers": [{"header": hdr, "txn_count": 0}, {"header": hdr, "txn_count": 300}]}),
             ("headers", {"headers": []}),
             ("merkleblock", {"header": hdr, "total_transactions": 1, "hashes": [hdr["root"]], "flags": [1]}),
             ("blocktxn", {"header_hash": H, "txs": [cb, wtx, cb]}),
             ("cmpctblock", {"header_hash": H, "nonce": 2 ** 64 - 1, "short_ids": [], "prefilled_txs": [{"index": 0, "tx": cb}, {"index": 70000, "tx": wtx}]}),
             ("notfound", {"items": []}), ("getdata", {"items": [{"type": 0x40000001, "hash": H}] * 300}),
             ("getblocks", {"version": 0, "hashes": [H] * 253, "hash_stop": H})]
    for name, fields in cases:
        b = encode(name, fields)
        assert decode(name, b) == normalise(name, fields), name
        n += 1
    assert encode("block", {"block": blk})[:80] == blockser.ser_header(hdr) and encode("block", {"block": blk})[80] == 2
    assert encode("headers", cases[3][1]) == b"\x02" + blockser.ser_header(hdr) + b"\x00" + blockser.ser_header(hdr) + b"\xfd\x2c\x01"
    # alert payload closure
    ap = {"version": 1, "relayUntil": 2 ** 63, "expiration": 3, "id": 4, "cancel": 5, "setCancel": [6, 7], "minVer": 8, "maxVer": 9,
          "setSubVer": [b"/a/", b""], "priority": 10, "comment": b"c", "statusBar": b"URGENT", "reserved": b""}
    assert dec_alert_payload(enc_alert_payload(ap)) == ap
    n += 1
    assert set(MESSAGES) >= {"version", "cmpctblock"} and len(MESSAGES) == 28
    return n
