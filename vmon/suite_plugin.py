"""pytest plugin: run the repository's own tests as a monitored workload.

Loaded with `-p vmon.suite_plugin` on a pytest run of <tree>/tests. Installs record-and-continue monitors on the real
classes (never raises into the test): every Tx.check_solution is re-decided by the reference interpreter, every
_signature_hash / _signature_for_hash_type_segwit is compared with the reference digest, every parsed transaction is
re-serialised, every Generator.sign result is re-verified by reference arithmetic. Observations go to $VMON_SUITE_OUT (JSON).
"""
import json
import os

from vmon.probe import jx

STATE = {"counters": {}, "violations": [], "viol_count": {}, "samples": []}


def ev(k, n=1):
    STATE["counters"][k] = STATE["counters"].get(k, 0) + n


def violation(mech, case, observed, expected):
    STATE["viol_count"][mech] = STATE["viol_count"].get(mech, 0) + 1
    if STATE["viol_count"][mech] <= 3:
        STATE["violations"].append({"mech": mech, "case": jx(case), "observed": jx(observed), "expected": jx(expected)})


def _fork_of(tx):
    n = type(tx).__module__
    if "bcash" in n:
        return ("bch", 0)
    if "bgold" in n:
        return ("btg", 79 << 8)
    if "groestlcoin" in n:
        return ("grs", 0)
    return ("", 0)


def _ref_tx(tx):
    return {"version": tx.version & 0xffffffff, "lock_time": tx.lock_time,
            "ins": [{"prev": bytes(i.previous_hash), "index": i.previous_index, "script": bytes(i.script), "sequence": i.sequence,
                     "witness": [bytes(w) for w in i.witness]} for i in tx.txs_in],
            "outs": [{"value": o.coin_value, "script": bytes(o.script)} for o in tx.txs_out]}


def _plain(tx):
    try:
        return all(isinstance(i.script, (bytes, bytearray)) and len(i.previous_hash) == 32 for i in tx.txs_in) and \
            all(isinstance(o.script, (bytes, bytearray)) and 0 <= o.coin_value < (1 << 64) for o in tx.txs_out)
    except Exception:
        return False


def install():
    from vmon.refs import script as RS
    from vmon.refs import sighash as SH
    from vmon.refs import txser
    from vmon.refs.ec import SECP256K1
    from vmon.checks.c05 import ForkChecker
    import hashlib
    from pycoin.coins import Tx as TxMod
    from pycoin.coins.SolutionChecker import ScriptError
    from pycoin.coins.bitcoin.SolutionChecker import BitcoinSolutionChecker
    from pycoin.coins.bitcoin.Tx import Tx as BTx
    from pycoin.ecdsa.Generator import Generator

    # ---- Tx.check_solution vs reference interpreter ----------------------------------------------
    orig_cs = TxMod.Tx.check_solution
    # the tests name verification flags through pycoin.satoshi.flags.VERIFY_<name>; the reference has Core's bit positions
    from pycoin.satoshi import flags as _pyflags
    flag_pairs = [(getattr(_pyflags, "VERIFY_" + n), v) for n, v in RS.FLAG_NAMES.items() if v and hasattr(_pyflags, "VERIFY_" + n)]

    def ref_flags(f):
        r = 0
        for theirs, ours in flag_pairs:
            if f & theirs:
                r |= ours
        return r

    def check_solution(self, tx_in_idx, *a, **kw):
        err = None
        try:
            r = orig_cs(self, tx_in_idx, *a, **kw)
        except BaseException as e:
            err = e
        try:
            flags = kw.get("flags", a[0] if a else None)
            if (err is None or isinstance(err, ScriptError)) and _plain(self) and not kw.get("traceback_f") and \
                    (flags is None or isinstance(flags, int)) and tx_in_idx < len(self.unspents or []) and \
                    self.unspents[tx_in_idx] is not None and not self.is_coinbase():
                flags = RS.P2SH | RS.WITNESS if flags is None else ref_flags(flags)
                if RS.flags_permitted(flags):
                    rt = _ref_tx(self)
                    u = self.unspents[tx_in_idx]
                    fork = _fork_of(self)
                    chk = ForkChecker(rt, tx_in_idx, u.coin_value, fork)
                    ti = rt["ins"][tx_in_idx]
                    ref = RS.result_of(RS.verify_script, ti["script"], bytes(u.script), ti["witness"], flags, chk)
                    ev("suite.check_solution")
                    if (ref == "OK") != (err is None):
                        violation("suite.check_solution_disagrees.%s" % ("accepts" if err is None else "rejects"),
                                  {"tx": rt, "n_in": tx_in_idx, "spk": bytes(u.script), "amount": u.coin_value, "flags": flags, "fork": fork[0],
                                   "test": os.environ.get("PYTEST_CURRENT_TEST", "")}, "OK" if err is None else repr(err)[:100], ref)
        except Exception as e:      # the monitor must never disturb the test
            ev("suite.monitor_error.check_solution:" + type(e).__name__)
        if err is not None:
            raise err
        return r
    TxMod.Tx.check_solution = check_solution

    # ---- signature hashes -------------------------------------------------------------------------
    def wrap_sighash(cls, name, algo):
        orig = cls.__dict__.get(name)
        if orig is None:
            return

        def f(self, script, idx, hash_type):
            r = orig(self, script, idx, hash_type)
            try:
                tx = self.tx
                if isinstance(script, (bytes, bytearray)) and _plain(tx) and isinstance(hash_type, int) and 0 <= hash_type < 256 and getattr(type(self), name, None) is f:
                    kind, fork_or = _fork_of(tx)
                    rt = _ref_tx(tx)
                    H = SH.sha if kind == "grs" else SH.dsha
                    if algo == "legacy" and kind in ("", "grs"):
                        want = SH.legacy(rt, idx, bytes(script), hash_type, H=H)
                    else:
                        amount = tx.unspents[idx].coin_value
                        want = SH.bip143(rt, idx, bytes(script), amount, hash_type, H=H, fork_or=fork_or)
                    ev("suite.sighash." + algo)
                    if int.from_bytes(want, "big") != r:
                        violation("suite.sighash_mismatch.%s.%s" % (kind or "btc", algo), {"tx": rt, "idx": idx, "script": bytes(script), "ht": hash_type,
                                                                                           "test": os.environ.get("PYTEST_CURRENT_TEST", "")}, r, int.from_bytes(want, "big"))
            except Exception as e:
                ev("suite.monitor_error.sighash:" + type(e).__name__)
            return r
        setattr(cls, name, f)
    wrap_sighash(BitcoinSolutionChecker, "_signature_hash", "legacy")
    from pycoin.coins.bitcoin.SegwitChecker import SegwitChecker
    wrap_sighash(SegwitChecker, "_signature_for_hash_type_segwit", "segwit")

    # ---- parse -> stream identity --------------------------------------------------------------------
    orig_parse = BTx.__dict__["parse"].__func__

    def parse(cls, f, *a, **kw):
        pos = None
        try:
            pos = f.tell()
        except Exception:
            pass
        tx = orig_parse(cls, f, *a, **kw)
        try:
            if pos is not None:
                end = f.tell()
                f.seek(pos)
                raw = f.read(end - pos)
                ev("suite.tx_parse")
                if tx.as_bin() != raw:
                    # pycoin re-serialises with the witness form iff some witness is non-empty; a tx parsed from a
                    # legacy-form blob re-serialises identically, so any difference is reported
                    violation("suite.parse_stream_not_identity", {"raw": raw, "test": os.environ.get("PYTEST_CURRENT_TEST", "")}, tx.as_bin(), raw)
                else:
                    rt, n = txser.parse(raw)
                    if txser.serialize(rt) != raw or txser.txid_bytes(rt) != tx.hash():
                        violation("suite.reference_serialisation_differs", {"raw": raw}, tx.hash(), txser.txid_bytes(rt))
        except Exception as e:
            ev("suite.monitor_error.parse:" + type(e).__name__)
        return tx
    BTx.parse = classmethod(parse)

    # ---- ECDSA post-condition ------------------------------------------------------------------------
    orig_sign = Generator.sign

    def sign(self, secret_exponent, val, *a, **kw):
        r = orig_sign(self, secret_exponent, val, *a, **kw)
        try:
            if self.p() == SECP256K1.p and self.order() == SECP256K1.n and isinstance(r, tuple) and isinstance(val, int):
                ev("suite.generator_sign")
                Q = SECP256K1.mul(secret_exponent, SECP256K1.G)
                if not RS.ecdsa_verify(Q, val % (1 << 256) if val >= 0 else val, r[0], r[1]) and 0 < val:
                    violation("suite.signature_does_not_verify", {"d": secret_exponent, "z": val}, r, "verifies")
        except Exception as e:
            ev("suite.monitor_error.sign:" + type(e).__name__)
        return r
    Generator.sign = sign


def pytest_configure(config):
    try:
        install()
        ev("suite.installed")
    except Exception as e:
        ev("suite.install_failed:" + repr(e)[:200])


def pytest_sessionfinish(session, exitstatus):
    out = os.environ.get("VMON_SUITE_OUT")
    STATE["exitstatus"] = int(exitstatus)
    # xdist workers and the controller all write; merge is by separate files
    if out:
        wid = os.environ.get("PYTEST_XDIST_WORKER", "main")
        with open("%s.%s" % (out, wid), "w") as f:
            json.dump(STATE, f)
