"""Recorder and helpers used inside worker processes.

A check's run_shard(spec, rec) drives the real pycoin API and reports to `rec`:

    rec.ev(op, n=1)                      count an observed event of class `op`
    rec.case(key, nontrivial=True)       one evaluated case; `key` identifies it
    rec.sample(obj)                      keep a few real cases for the evidence file
    rec.violation(mech, case, observed, expected)
    rec.require(counter)                 counter that must be > 0 for the run to decide

Nothing here imports pycoin.
"""
import hashlib
import json
import random
import time

DISTINCT_CAP = 400_000     # per shard; beyond it distinct counting is conservative
VIOL_CAP_PER_MECH = 4


def jx(o, depth=0):
    """JSON-able copy: bytes -> hex, big ints -> str, tuples -> lists."""
    if depth > 12:
        return repr(o)[:200]
    if o is None or isinstance(o, (bool, str, float)):
        return o
    if isinstance(o, int):
        return o if -(1 << 53) < o < (1 << 53) else str(o)
    if isinstance(o, (bytes, bytearray, memoryview)):
        return "x:" + bytes(o).hex()
    if isinstance(o, dict):
        return {str(k if not isinstance(k, bytes) else "x:" + k.hex()): jx(v, depth + 1) for k, v in o.items()}
    if isinstance(o, (list, tuple, set, frozenset)):
        seq = list(o)
        if isinstance(o, (set, frozenset)):
            seq = sorted(seq, key=repr)
        return [jx(v, depth + 1) for v in seq]
    if isinstance(o, BaseException):
        return "%s: %s" % (type(o).__name__, str(o)[:200])
    return repr(o)[:300]


def unjx(o):
    """Inverse of jx for the pieces replay needs (hex strings back to bytes, big ints)."""
    if isinstance(o, str):
        if o.startswith("x:"):
            try:
                return bytes.fromhex(o[2:])
            except ValueError:
                return o
        if (o.isdigit() or (o[:1] == "-" and o[1:].isdigit())) and len(o) > 15:
            return int(o)
        return o
    if isinstance(o, list):
        return [unjx(v) for v in o]
    if isinstance(o, dict):
        return {k: unjx(v) for k, v in o.items()}
    return o


def khash(key):
    if not isinstance(key, (bytes, bytearray)):
        key = repr(key).encode("utf8", "surrogatepass")
    return int.from_bytes(hashlib.blake2b(key, digest_size=8).digest(), "big")


def shard_rng(seed, prop, tier, shard, salt=""):
    return random.Random("%s:%s:%s:%s:%s" % (seed, prop, tier, shard, salt))


class Rec:
    def __init__(self, spec=None):
        self.spec = spec or {}
        self.counters = {}
        self.evaluations = 0
        self.distinct = set()
        self.distinct_overflow = 0
        self.samples = []
        self.violations = []
        self.viol_count = {}
        self.required = set()
        self.notes = []
        self.t0 = time.time()

    # -- events -----------------------------------------------------------
    def ev(self, op, n=1):
        self.counters[op] = self.counters.get(op, 0) + n

    def require(self, *ops):
        self.required.update(ops)

    def case(self, key, nontrivial=True, n=1):
        self.evaluations += n
        if nontrivial:
            if len(self.distinct) < DISTINCT_CAP:
                self.distinct.add(khash(key))
            else:
                self.distinct_overflow += 1

    def sample(self, obj, limit=3):
        if len(self.samples) < limit:
            self.samples.append(jx(obj))

    def note(self, s):
        if len(self.notes) < 50 and s not in self.notes:
            self.notes.append(s)

    def violation(self, mech, case, observed=None, expected=None, detail=None):
        n = self.viol_count.get(mech, 0)
        self.viol_count[mech] = n + 1
        if n < VIOL_CAP_PER_MECH:
            self.violations.append({
                "mech": mech, "case": jx(case), "observed": jx(observed),
                "expected": jx(expected), "detail": jx(detail)})

    # -- result -----------------------------------------------------------
    def result(self):
        return {
            "counters": self.counters, "evaluations": self.evaluations,
            "distinct": sorted(self.distinct), "distinct_overflow": self.distinct_overflow,
            "samples": self.samples, "violations": self.violations,
            "viol_count": self.viol_count, "required": sorted(self.required),
            "notes": self.notes, "wall_s": round(time.time() - self.t0, 3),
        }


def observe(fn, *a, **kw):
    """Call fn, return ('ok', value) or ('exc', exception)."""
    try:
        return ("ok", fn(*a, **kw))
    except RecursionError as e:     # keep these visible, they are crashes too
        return ("exc", e)
    except Exception as e:          # noqa
        return ("exc", e)


class Wrapped:
    """Attribute wrapper with evaluation counter: Wrapped(obj, 'name', before=, after=)."""

    def __init__(self, owner, name, after=None, before=None, rec=None, op=None):
        self.owner, self.name = owner, name
        self.orig = owner.__dict__[name] if isinstance(owner, type) and name in owner.__dict__ else getattr(owner, name)
        self.calls = 0
        op = op or "%s.%s" % (getattr(owner, "__name__", type(owner).__name__), name)
        orig = getattr(owner, name)
        me = self

        def wrapper(*a, **kw):
            me.calls += 1
            if rec is not None:
                rec.ev("tap:" + op)
            if before:
                before(a, kw)
            try:
                r = orig(*a, **kw)
            except BaseException as e:
                if after:
                    after(a, kw, None, e)
                raise
            if after:
                after(a, kw, r, None)
            return r
        wrapper.__wrapped__ = orig
        self.wrapper = wrapper
        setattr(owner, name, wrapper)

    def restore(self):
        setattr(self.owner, self.name, self.orig)
