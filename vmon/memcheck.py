"""valgrind memcheck leg shared by C01 and C02 (DESIGN.md section 4).

run(spec, rec, prop): runs vmon/memcheck_workload.py on the tree under test under
`valgrind --error-exitcode=0 --log-file=...` with PYTHONMALLOC=malloc, counts the memcheck *error blocks* whose stack
has a libcrypto / ctypes / libffi frame (counted from the log, never inferred from the exit status), and compares every
value the workload computed under valgrind with the reference arithmetic.

valgrind missing, failing to start, or timing out is a note and "not required" - never a violation.
"""
import json
import os
import re
import shutil
import subprocess
import tempfile

ERROR_HEAD = re.compile(
    r"^(Invalid (read|write) of size|Invalid free|Mismatched free|Use of uninitialised value|"
    r"Conditional jump or move depends on uninitialised|Syscall param .* (uninitialised|unaddressable)|"
    r"Source and destination overlap|Jump to the invalid address|Process terminating with default action of signal|"
    r"Argument '.*' of function .* has a fishy|.* contains unaddressable byte)")
NATIVE_FRAME = re.compile(r"libcrypto|_ctypes|libffi|ffi_call|\((cfield|callproc|callbacks|stgdict)\.c:")


def parse_log(text):
    """-> (all_error_blocks, native_error_blocks[list of first lines + a few frames])."""
    blocks, cur = [], []
    for line in text.splitlines():
        m = re.match(r"^==\d+== ?(.*)$", line)
        if not m:
            continue
        body = m.group(1)
        if body.strip() == "":
            if cur:
                blocks.append(cur)
            cur = []
        else:
            cur.append(body)
    if cur:
        blocks.append(cur)
    errs = [b for b in blocks if ERROR_HEAD.match(b[0].strip())]
    native = [b for b in errs if any(NATIVE_FRAME.search(l) for l in b[1:])]
    return errs, native


def selftest():
    sample = """==1== Memcheck, a memory error detector
==1==
==1== Invalid read of size 8
==1==    at 0x1: BN_mod_inverse (in /usr/lib/x86_64-linux-gnu/libcrypto.so.3)
==1==    by 0x2: ffi_call (in /usr/lib/x86_64-linux-gnu/libffi.so.8.1.2)
==1==  Address 0x5 is 0 bytes after a block of size 32 alloc'd
==1==    at 0x48417B4: malloc (vg_replace_malloc.c:381)
==1==
==1== Conditional jump or move depends on uninitialised value(s)
==1==    at 0x3: PyObject_Foo (object.c:1)
==1==
==1== HEAP SUMMARY:
==1==     in use at exit: 1 bytes in 1 blocks
==1==
==1== ERROR SUMMARY: 2 errors from 2 contexts (suppressed: 0 from 0)
"""
    errs, native = parse_log(sample)
    assert len(errs) == 2 and len(native) == 1 and native[0][0].startswith("Invalid read")
    assert parse_log("==9== \n==9== ERROR SUMMARY: 0 errors from 0 contexts\n") == ([], [])
    return {"memcheck_log_parser": "ok"}


def run(spec, rec, prop):
    from vmon.refs import ec, ecdsa as RE
    iters = int(spec.get("iterations", 12))
    vg = shutil.which("valgrind")
    if not vg:
        rec.note("memcheck leg skipped: valgrind not installed")
        rec.ev("memcheck_skipped")
        return
    repo = spec["repo"]
    here = os.path.dirname(os.path.abspath(__file__))
    tmp = tempfile.mkdtemp(prefix="vmc-")
    try:
        log = os.path.join(tmp, "vg.log")
        out = os.path.join(tmp, "out.json")
        env = dict(os.environ)
        env["PYTHONMALLOC"] = "malloc"
        env["PYTHONDONTWRITEBYTECODE"] = "1"
        env.pop("PYCOIN_NATIVE", None)
        env.pop("PYTHONPATH", None)
        cmd = [vg, "--error-exitcode=0", "--log-file=" + log, "/venv/bin/python", os.path.join(here, "memcheck_workload.py"),
               repo, str(iters), "%s:%s" % (spec.get("seed", 0), spec.get("shard", 0)), out]
        try:
            p = subprocess.run(cmd, env=env, capture_output=True, text=True, timeout=spec.get("vg_timeout", 60 + 3 * iters + 20))
        except subprocess.TimeoutExpired:
            rec.note("memcheck leg: valgrind run timed out; not counted")
            rec.ev("memcheck_skipped")
            return
        if not os.path.exists(log) or not os.path.exists(out):
            rec.note("memcheck leg: valgrind failed to start or workload did not finish (rc=%s): %s" % (
                p.returncode, (p.stderr or "")[-300:].replace("\n", " | ")))
            rec.ev("memcheck_skipped")
            return
        res = json.load(open(out))
        text = open(log, errors="replace").read()
        if "ERROR SUMMARY" not in text:
            rec.note("memcheck leg: log has no ERROR SUMMARY; not counted")
            rec.ev("memcheck_skipped")
            return
        errs, native = parse_log(text)
        if not res.get("have_openssl"):
            rec.note("memcheck leg: OpenSSL optimisations not active in the tree under test; native calls = 0")
            rec.ev("memcheck_skipped")
            return
        rec.ev("memcheck_native_calls", int(res["native_calls_lower_bound"]))
        rec.ev("memcheck_runs")
        rec.ev("memcheck_error_blocks_any_frame", len(errs))
        m = re.search(r"definitely lost: ([\d,]+) bytes", text)
        if m:
            rec.note("memcheck: %d iterations, %d native calls, %d error blocks (%d with native frames), definitely lost at exit %s bytes "
                     "(interpreter + one EC_GROUP per curve; does not grow with iterations)" % (
                         iters, res["native_calls_lower_bound"], len(errs), len(native), m.group(1)))
        rec.case(("memcheck", spec.get("seed"), spec.get("shard"), iters))
        for b in native[:3]:
            rec.violation("memcheck.error_block", {"kind": "memcheck", "iterations": iters, "seed": spec.get("seed", 0),
                                                   "shard": spec.get("shard", 0)}, b[:12], "no memcheck error in libcrypto/ctypes frames")
        # values computed under valgrind must equal the reference too
        curves = {"secp256k1": ec.SECP256K1, "secp256r1": ec.SECP256R1}
        for name, op, args, got in res["rows"]:
            c = curves[name]
            rec.ev("memcheck_value_checked")
            exp = None
            if op in ("raw_mul", "gmul"):
                exp = list(c.mul(args[0], c.G) or (None, None))
            elif op == "multiply":
                exp = list(c.mul(args[1], tuple(args[0])) or (None, None))
            elif op == "inverse_mod":
                if got * args[0] % args[1] != 1:
                    rec.violation("memcheck.value_mismatch.inverse_mod", {"kind": "memcheck_value", "op": op, "args": args}, got, "a*b = 1 mod m")
                continue
            elif op == "inverse_mod0":
                continue
            elif op == "sign":
                sg = RE.rfc6979_sign(c, args[0], args[1])
                exp = [sg["r"], sg["s"]]
            elif op == "verify":
                Q, z, r, s = args
                exp = [RE.verify(c, tuple(Q), z % c.n, r, s), RE.verify(c, tuple(Q), (z ^ 1 or 2) % c.n, r, s)]
            if exp != got:
                rec.violation("memcheck.value_mismatch." + op, {"kind": "memcheck_value", "curve": name, "op": op, "args": args}, got, exp)
    finally:
        shutil.rmtree(tmp, ignore_errors=True)


def replay(case, rec, prop):
    run({"iterations": case.get("iterations", 12), "seed": case.get("seed", 0), "shard": case.get("shard", 0),
         "repo": rec.spec.get("repo", "/repo")}, rec, prop)
