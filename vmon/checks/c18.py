"""C18 — text parsing is total, faithful and keeps kinds apart, on every usable registered network and on networks
configured on another curve."""
import inspect

from vmon.probe import shard_rng, observe
from vmon.refs import b58 as RB, bech32 as R32, ec as REC, keytext as KT
from vmon.gen import nets as NETS, b58shape as SH

PROPERTY = "C18"
PRELOAD_NETWORK_ORDERS = [["btc", "xtn", "ltc", "bch", "grs", "doge", "dash", "btg"], ["btg", "grs", "bch", "doge", "ltc", "xtn", "btc"]]
LEVEL = "exploration"
TECHNIQUE = ("runtime monitor on every ParseAPI entry point (found by introspection) x every usable network; "
             "independent Base58Check/Bech32/WIF/BIP32/SEC text model decides refusal, value and kind separation")
RULE = ("one case = (network, text); every case is fed to every single-string entry point of network.parse and to "
        "network.parse(text). Texts: pycoin-serialised valid objects of every kind; reference-built valid texts; Base58Check "
        "strings with each declared prefix x payload length 0..90 x contents {zeros, order n, ff, random, structured "
        "WIF/BIP32 bodies with boundary keys}; prefix embedded off position; bech32/bech32m with the HRP and a foreign HRP "
        "x version x length x checksum constant, and well-formed addresses under an HRP that extends / truncates the own one; H:/P:/E: forms with hex of every length and non-hex; x/even, x/odd, "
        "x,y forms with and without curve points; numeric forms; empty/whitespace/colon; random unicode (no surrogates); "
        "single-character mutations of valid texts; constructed texts = valid Base58 addresses / WIFs whose payload is computed "
        "(interval arithmetic on the reference codec, vmon/gen/b58shape.py) so that the text begins with '<hrp>1' of the network "
        "(every letter-case spelling) or of any other registered network, with the lead of another network's key text, with "
        "the symbol / SEC tag, or is spelled over hex digits only / one letter case only; valid texts of this network given "
        "as plain str to related networks (shared prefix / HRP, other checksum family). Reuse histories: ONE "
        "network.parseable_str_type(text) object handed to every entry point of a network in random order and back, and "
        "carried between networks (other Base58 checksum family incl. the GRS family, shared prefixes, random) in both "
        "directions; at least one text of every decoding path (Base58 address, WIF, private / public node, segwit, SEC, "
        "shaped, bad checksum, refused payload, seeds, electrum, numbers, pairs). "
        "Nested identifiers: every pair of registered networks one of whose identifiers (symbol, registry code, network / "
        "subnet name, HRP, SEC tag, a Base58 prefix spelled in hex or as raw characters; any letter case) begins or ends with "
        "the other's: a fresh genuine text T of every kind of the longer-named network and the partner text x+T resp. T+x for "
        "the shorter-named one (also a genuine text of the shorter one that begins with x, where one exists), both networks "
        "asked in both orders in one process through every entry point, every answer judged by the text model. Refused calls: "
        "every entry point is handed non-text arguments (None, bytes, bytearray, int, float, list, dict, tuple, a text with a "
        "lone surrogate) before the judged workload; the answer to a text must be the same before and after, the next valid "
        "text must parse, a mutable argument must come back unchanged and be answered the same twice. Returned containers: "
        "the dict a returned Contract hands out (info()) is edited and the same text (plain and as the same text object) asked "
        "again. Long run: ONE network.parse object asked 2**16+128 times (2**17+128 in thorough) through address, payable and "
        "parse() with distinct valid texts (expected script from the incremental reference), ONE text object asked as often, "
        "returns to texts asked 1 ... 65537 calls ago, invalid texts, WIFs, and the full valid workload at 255 ... 65537. "
        "Configured curve: three networks built with create_bitcoinish_network(generator=...) (secp256r1 with Bitcoin-like "
        "prefixes and an HRP; secp256r1 with other prefixes incl. BIP49/84; secp256k1 handed over explicitly as a control), "
        "every entry point on: public pairs (x,y  x/y  x/even  x,odd; decimal, hex, 0x) of points of the network's own curve, "
        "of the curve it is NOT on, negated / off by one / unreduced, and x at and between the two field primes; secret "
        "exponents at and between the two group orders as numbers, reference-built WIFs, E: keys and extended private keys; "
        "SEC, E: and extended public keys carrying points of the other curve; WIF / SEC / extended-key texts pycoin writes for "
        "the network's own keys (expected object from the reference curve); the general pair / number / colon classes. "
        "Non-trivial = non-empty text; distinct by (network, text) resp. (network, partner, text).")
ASSUMPTIONS = [
    "declared prefixes / HRP / SEC tag are read from what the network's public encoders write (address.for_p2pkh / for_p2sh / "
    "for_p2pkh_wit, wif_for_blob, sec_text_for_blob, bipNN_as_string), decoded by the reference codecs; attributes of "
    "network.parse only fill in what no encoder shows. The text model in vmon/refs/keytext.py is self-tested on published "
    "WIF, BIP32 vector 1, BIP173/BIP350 and well-known addresses",
    "'re-serialises' uses: Key private -> wif(), Key public -> as_text(), BIP32/49/84 node -> hwif(as_private=is_private()), "
    "electrum wallet -> 'E:' + hex(serialize()), Contract -> address() (a contract whose script is none of the five address "
    "templates, or whose kind the network declares no prefix for, has no text form: nothing to be faithful to; script text is "
    "C12's); int -> str, bytes -> Base58Check. Seed / number / public-pair parsers are re-parsed with the parser of the text "
    "form they serialise to (bip32_prv, electrum_prv, wif, sec). A text that already is the re-serialisation of what the "
    "entry point returned for it is not parsed a second time (it is the same call)",
    "'equal object': keys = same secret exponent, public pair and compression; nodes = all BIP32 fields and family; "
    "contracts = same script bytes",
    "a public-key x coordinate >= p inside an extended key or SEC text is left to C10 (no expectation here)",
    "lone surrogate code points are not generated (not Unicode scalar values)",
    "text produced by pycoin's own serialisers for an address / WIF / extended key / SEC must be returned by that kind's "
    "parser and the catch-alls listed for it (reading of 'returned only by that kind's parser and the catch-alls')",
    "GRS, TGRS, GRSRT are skipped: groestlcoin_hash is not installed (their Base58 checksum cannot be computed); they do "
    "take part in the reuse histories, where the oracle is pycoin's own answer for the same characters as a fresh plain str",
    "reuse: a parser's answer for a text object that other entry points / networks have already looked at equals its answer "
    "for the same characters given as a plain str (same exception class, or equal object as defined above)",
    "what an entry point answers to a text does not depend on what this or another network was asked before, on how many "
    "calls went before, on a refused call in between, or on what the caller did to an object returned earlier: the model's "
    "verdict for (network, text) applies after any history. A call with a non-text argument is never judged itself (it may "
    "raise or answer anything); only the judged text calls around it are. contract.for_address and the command line tools, "
    "which sit on parse.address, are not driven (not entry points of network.parse)",
    "GRS / GRSRT / TGRS take no part in the nested-identifier pairs (no genuine text can be made for them here)",
    "a Base58 text spelled with hex digits only is also a numeral and a bare hex script literal: entry points with the "
    "free-form number / script parser behind them (secret_exponent, private_key, secret, script, payable, parse()) may return "
    "that reading; the statement gives no precedence between a checksummed and a free-form kind (pycoin's parse() returns "
    "the data-push script for a hex-only WIF). The number reading is int(text) / int(text, 16); the script reading is whatever "
    "network.parse.script makes of the text (how a script text compiles is C12's; the script parser has no checksummed kind)",
    "a plain ASCII decimal numeral without leading zero denotes that number (secret_exponent, private_key, secret)",
    "the specific parsers (p2pkh, p2sh, wif, bipNN_prv/_pub, segwit kinds, address) return None for every text the model does "
    "not decode as their kind, also foreign prefixes / HRPs and bad checksums ('silently reinterpreted'). The combined bip32 / "
    "bip49 / bip84 parsers are documented as 'a seed, a prv or a pub': they are held to that for checksummed text only. A "
    "catch-all given valid checksummed text of a kind it does not dispatch to may return None or the very object the text "
    "denotes (private_key given an xprv), not anything else",
    "'all networks' includes a network that create_bitcoinish_network builds on the curve handed to it as generator=: its "
    "parsers are total and faithful like any other's, and 'out-of-range contents' is read on the network's own curve: a key, "
    "node or wallet a parser returns has 1 <= exponent < order of that curve, a public point on that curve with reduced "
    "coordinates, equal to exponent x generator (independent arithmetic, vmon/refs/ec.py). A public-pair text whose two "
    "numbers are spelled without ambiguity (plain decimal, 0x-hex) is, if answered at all, answered with that x and that y / "
    "parity. Nothing is demanded for a public-pair or number text the parser refuses (None is a legal answer); only text "
    "written by pycoin's own serialisers for the network's own keys must be accepted. If the key API of such a network is "
    "itself not on the configured curve the run is inconclusive (nothing about the parsers can be decided)",
]
EXPLANATION = ("total: any exception is a violation; refusal/kind separation: a checksummed-kind parser must return None unless "
               "the independent model decodes the text as that kind, and then the object must carry the model's fields; "
               "faithful: every returned object is re-serialised and re-parsed and compared field by field; configured curve: "
               "the same three clauses on networks living on secp256r1, every returned key checked on the reference curve")
TIMEOUT = {"quick": 900, "thorough": 3 * 3600}

N = KT.N
P_FIELD = KT.P
SKIP_EXPECTED = NETS.SKIP_EXPECTED

ADDRESS_EPS = ("p2pkh", "p2sh", "p2pkh_segwit", "p2sh_segwit", "p2tr", "address")
ADDR_KINDS = KT.B58_ADDR_KINDS + KT.SEGWIT_KINDS
# entry points that can only return checksummed kinds -> the kinds they may return
PURE = {"p2pkh": ("p2pkh",), "p2sh": ("p2sh",), "wif": ("wif",), "p2pkh_segwit": ("p2pkh_segwit",),
        "p2sh_segwit": ("p2sh_segwit",), "p2tr": ("p2tr",), "address": ADDR_KINDS}
for _f in KT.BIP_FAMILIES:
    PURE[_f] = (_f + "_prv", _f + "_pub")
    PURE[_f + "_prv"] = (_f + "_prv",)
    PURE[_f + "_pub"] = (_f + "_pub",)
# catch-alls that also take free-form text -> the checksummed kinds they dispatch to
MIXED = {"payable": ADDR_KINDS, "private_key": ("wif",), "hierarchical_key": KT.BIP_KINDS,
         "secret": ("wif",) + KT.BIP_KINDS, "public_key": (), "__call__": KT.ALL_KINDS,
         "secret_exponent": (), "public_pair": (), "sec": (), "bip32_seed": (), "hd_seed": (), "electrum_seed": (),
         "electrum_prv": (), "electrum_pub": (), "as_number": (), "script": ()}
FREEFORM_EPS = frozenset(k for k, v in MIXED.items() if v == () )
ELECTRUM_CHAIN = ("electrum_prv", "electrum_pub", "hierarchical_key", "secret", "__call__")
NUMBER_EPS = ("secret_exponent", "private_key", "secret", "__call__")
SCRIPT_EPS = ("script", "payable", "__call__")


def exhaustive(tier):
    return False


def plan(tier, seed):
    k = 16 if tier == "quick" else 48
    shards = [{"slice": i, "of": k, "scale": 1 if tier == "quick" else 70, "label": "nets%d/%d" % (i, k)} for i in range(k)]
    # one long run on one parse object / one text object (more than 2**16 + 100 uses; 2**17 + 100 in thorough)
    # (about 30 s of CPU in quick; its own watchdog, so that a crowded machine does not cut it short)
    # networks configured on another curve than the default one (three small networks, one shard)
    curves = [{"curves": True, "label": "curves"}]
    return [{"longrun": True, "scale": 1 if tier == "quick" else 70, "label": "longrun", "timeout": 3600 if tier == "quick" else 3 * 3600}] + curves + shards


def selftest(rec):
    return {"b58_vectors": RB.selftest(), "bech32_vectors": R32.selftest(), "keytext_vectors": KT.selftest(),
            "ec": REC.selftest(), "b58shape": SH.selftest()}


# ---------------------------------------------------------------------------------------------
# binding to the tree under test

class Ctx(object):
    pass


_CLASSES = None


def _classes():
    global _CLASSES
    if _CLASSES is None:
        from pycoin.key.Key import Key
        from pycoin.key.BIP32Node import BIP32Node
        from pycoin.key.BIP49Node import BIP49Node
        from pycoin.key.BIP84Node import BIP84Node
        from pycoin.key.electrum import ElectrumWallet
        from pycoin.networks.Contract import Contract
        _CLASSES = (Key, BIP32Node, BIP49Node, BIP84Node, ElectrumWallet, Contract)
    return _CLASSES


def entry_points(parse_obj):
    """public methods of the parse API taking exactly one string, plus __call__ (by introspection)."""
    eps = []
    for name, fn in inspect.getmembers(type(parse_obj), inspect.isfunction):
        if name.startswith("_") and name != "__call__":
            continue
        try:
            params = list(inspect.signature(fn).parameters.values())
        except (TypeError, ValueError):
            continue
        req = [p for p in params[1:] if p.default is inspect.Parameter.empty and p.kind in (p.POSITIONAL_ONLY, p.POSITIONAL_OR_KEYWORD)]
        if len(params) >= 2 and len(req) == 1 and params[1] is req[0]:
            eps.append(name)
    return sorted(eps)


usable_networks = NETS.usable_networks


def params_of(net):
    """prefixes / HRP / SEC tag the network declares, read from what its public encoders write (address.for_p2pkh /
    for_p2sh / for_p2pkh_wit, wif_for_blob, sec_text_for_blob, bipNN_as_string; None or an exception = not shown by an
    encoder). The attributes of network.parse (vmon.gen.nets.params_of) only fill in what no public encoder shows (e.g.
    a network whose Base58 checksum cannot be computed here)."""
    old = NETS.params_of(net)

    def b58_prefix(f, body, *more):
        st, t = observe(f, body, *more) if callable(f) else ("exc", None)
        payload = RB.decode_check(t) if st == "ok" and isinstance(t, str) and t.isascii() else None
        return payload[:-len(body)] if payload is not None and len(payload) >= len(body) and payload.endswith(body) else None

    addr = getattr(net, "address", None)
    kw = {"symbol": getattr(net, "symbol", None) or old.symbol}
    kw["p2pkh"] = b58_prefix(getattr(addr, "for_p2pkh", None), b"\x11" * 20)
    kw["p2sh"] = b58_prefix(getattr(addr, "for_p2sh", None), b"\x11" * 20)
    kw["wif"] = b58_prefix(getattr(net, "wif_for_blob", None), b"\x11" * 32)
    f = getattr(addr, "for_p2pkh_wit", None)
    st, t = observe(f, b"\x11" * 20) if callable(f) else ("exc", None)
    raw = R32.raw_decode(t) if st == "ok" and isinstance(t, str) else None
    kw["hrp"] = raw[0] if raw else None
    f = getattr(net, "sec_text_for_blob", None)
    st, t = observe(f, b"\x02") if callable(f) else ("exc", None)
    kw["sec_prefix"] = t[:-2] if st == "ok" and isinstance(t, str) and t.endswith("02") else None
    for k in KT.BIP_KINDS:
        fam, pp = k.split("_")
        kw[k] = b58_prefix(getattr(net, fam + "_as_string", None), bytes(73) + b"\x11", pp == "prv")
    for f in KT.Params.FIELDS:
        if kw.get(f) is None:
            kw[f] = getattr(old, f)
    return KT.Params(**kw)


def configurations(tier):
    return NETS.configurations() + ["networks built on a configured curve: " + ", ".join("%s (%s)" % (c[0], c[1]) for c in CURVE_CONFIGS)]


def make_ctx(sym, net):
    c = Ctx()
    c.sym, c.net, c.parse = sym, net, net.parse
    c.params = params_of(net)
    c.eps = entry_points(net.parse)
    c.fn = {ep: getattr(net.parse, ep) for ep in c.eps}
    c.deep_counter = 0
    c.quick = False
    c.own_hrp_collision = False
    c.usable_codes = ()
    c.prelude = None
    return c


# ---------------------------------------------------------------------------------------------
# object signatures / equality

def sig(o):
    Key, BIP32Node, BIP49Node, BIP84Node, ElectrumWallet, Contract = _classes()
    if o is None:
        return None
    if isinstance(o, bool) or isinstance(o, (int, bytes, str)):
        return ("raw", o)
    if isinstance(o, Contract):
        return ("contract", o.script())
    if isinstance(o, BIP32Node):
        fam = "bip49" if isinstance(o, BIP49Node) else "bip84" if isinstance(o, BIP84Node) else "bip32"
        se = o.secret_exponent()
        return ("node", fam, se is not None, o.tree_depth(), o.parent_fingerprint(), o.child_index(), o.chain_code(),
                se if se is not None else tuple(o.public_pair()))
    if isinstance(o, ElectrumWallet):
        return ("electrum", o.secret_exponent(), tuple(o.public_pair()))
    if isinstance(o, Key):
        return ("key", o.secret_exponent(), tuple(o.public_pair()), bool(o.is_compressed()))
    return ("other", type(o).__name__, repr(o)[:200])


def kind_of(o):
    s = sig(o)
    return s[0] if s else None


def match_value(o, val, deep):
    """does the returned object carry the fields the text model decoded?"""
    s = sig(o)
    if val[0] == "script":
        return s[0] == "contract" and s[1] == val[1]
    if val[0] == "key":
        if s[0] != "key" or s[1] != val[1] or s[3] != val[2]:
            return False
        return (not deep) or s[2] == KT.pubpoint(val[1])
    if val[0] == "node":
        if s[0] != "node" or s[1:7] != val[1:7]:
            return False
        return s[7] == (val[7] if val[2] else tuple(val[7]))
    return False


# ---------------------------------------------------------------------------------------------
# predicates over the witness that name the root cause (mechanism keys)

def _py_number(s):
    """what int(s) / int(s, 16) of the language give (as_number's documented meaning), else None."""
    for base in (10, 16):
        try:
            return int(s, base)
        except ValueError:
            pass
    return None


def public_pair_form(text):
    """-> ('parity'|'xy', x, has_point) for texts of the x/even, x/odd, x,y, x/y forms, else None."""
    for c in ",/":
        if c in text:
            s0, s1 = text.split(c, 1)
            x = _py_number(s0)
            if x is None:
                continue
            if s1 in ("even", "odd"):
                ok = 0 <= x < P_FIELD and REC.SECP256K1.lift_x(x) is not None
                return ("parity", x, ok)
            y = _py_number(s1)
            if y is not None:
                return ("xy", x, 0 <= x < P_FIELD and 0 <= y < P_FIELD and REC.SECP256K1.on_curve((x, y)))
    return None


def strict_hex(h):
    if len(h) % 2 or any(ch not in "0123456789abcdefABCDEF" for ch in h):
        return None
    return bytes.fromhex(h)


def electrum_form(text):
    """-> 'bad_prv' | 'bad_pub' | 'ok_prv' | 'ok_pub' | 'seed' for E:<hex> texts, else None."""
    if not text.startswith("E:"):
        return None
    blob = strict_hex(text[2:])
    if blob is None:
        return None
    if len(blob) == 16:
        return "seed"
    if len(blob) == 32:
        return "ok_prv" if 1 <= int.from_bytes(blob, "big") < N else "bad_prv"
    if len(blob) == 64:
        x, y = int.from_bytes(blob[:32], "big"), int.from_bytes(blob[32:], "big")
        return "ok_pub" if (x < P_FIELD and y < P_FIELD and REC.SECP256K1.on_curve((x, y))) else "bad_pub"
    return None


def seed_form(text):
    if text[:2] == "P:":
        return True
    if text[:2] == "H:":
        return strict_hex(text[2:]) is not None
    return False


def freeform_reading(ctx, ep, text, s, rec):
    """A Base58 text spelled with hex digits only is also a numeral and, to the script compiler, a bare hex literal.
    True when `s` is what such a free-form (not checksummed-kind) reading of `text` denotes and `ep` is an entry point
    that has that free-form parser behind it. The number reading is int(text) / int(text, 16); the script reading is
    whatever the network's own script parser makes of the text (what a script text compiles to is C12's matter, and the
    statement names no checksummed kind that the script parser could confuse the text with)."""
    if ep in NUMBER_EPS and s[0] == "key" and s[1] is not None and s[1] == _py_number(text):
        rec.ev("freeform.number_reading_of_checksummed_text")
        return True
    if ep in SCRIPT_EPS and s[0] == "contract":
        if ep != "script":
            if "script" not in ctx.fn:
                return False
            st, w = observe(ctx.fn["script"], text)
            if st != "ok" or w is None or sig(w) != s:
                return False
        rec.ev("freeform.script_reading_of_checksummed_text")
        return True
    return False


def ep_kinds(ep):
    if ep in PURE:
        return PURE[ep]
    return MIXED.get(ep)


def diagnose(ep, A, text, obj=None):
    """root-cause key for an exception (obj None) or a wrongly returned object, or None when no known predicate holds."""
    kinds = ep_kinds(ep) or ()
    k = kind_of(obj) if obj is not None else None
    wif = A.kinds.get("wif")
    if "wif" in kinds and wif and wif[0] == "bad" and k in (None, "key"):
        return "wif.payload_not_validated"
    if k in (None, "contract"):
        for kk in KT.B58_ADDR_KINDS:
            v = A.kinds.get(kk)
            if kk in kinds and v and v == ("bad", "length") and obj is not None:
                return "b58addr.payload_length_not_checked"
    if k in (None, "node"):
        bad = A.bad([x for x in kinds if x in KT.BIP_KINDS])
        if bad and not A.ok(KT.BIP_KINDS):
            if obj is not None and set(bad.values()) == {"keytype"}:
                return "bip32.key_type_contradicts_prefix"
            return "bip32.blob_not_validated"
    if obj is None:
        if ep in ELECTRUM_CHAIN and electrum_form(text) in ("bad_prv", "bad_pub"):
            return "electrum.invalid_key_raises"
        if ep in ("public_pair", "public_key"):
            f = public_pair_form(text)
            if f and f[0] == "parity" and not f[2]:
                return "public_pair.no_such_point_raises"
        if ep == "hd_seed" and ":" in text:
            return "hd_seed.missing_key_factory"
    return None


# ---------------------------------------------------------------------------------------------
# the monitor

def standard_address_kind(script):
    """p2pkh / p2sh / p2pkh_segwit / p2sh_segwit / p2tr when `script` is exactly that template, else None."""
    n = len(script)
    if n == 25 and script[:3] == b"\x76\xa9\x14" and script[23:] == b"\x88\xac":
        return "p2pkh"
    if n == 23 and script[:2] == b"\xa9\x14" and script[22:] == b"\x87":
        return "p2sh"
    if n == 22 and script[:2] == b"\x00\x14":
        return "p2pkh_segwit"
    if n == 34 and script[:2] == b"\x00\x20":
        return "p2sh_segwit"
    if n == 34 and script[:2] == b"\x51\x20":
        return "p2tr"
    return None


def reserialisations(ep, o, rec):
    """-> list of (text, entry point to re-parse with). May raise (caller observes)."""
    Key, BIP32Node, BIP49Node, BIP84Node, ElectrumWallet, Contract = _classes()
    if isinstance(o, bool):
        return []
    if isinstance(o, int):
        # str() of an int refuses more than 4300 digits; the 0x form has no such limit
        return [(str(o) if abs(o) < 10 ** 4000 else ("-0x%x" % -o if o < 0 else "0x%x" % o), ep)]
    if isinstance(o, bytes):
        return [(RB.encode_check(o), ep)]
    if isinstance(o, Contract):
        # the text form of a contract is its address; scripts without one (non-standard, p2pk, multisig, nulldata,
        # or a kind the network declares no prefix for) have no text form to be faithful to (script text: C12)
        if ep in ADDRESS_EPS:
            rec.ev("reserialise.address")
            return [(o.address(), ep)]
        if standard_address_kind(o.script()) is None:
            return []
        rec.ev("reserialise.address")
        t = o.address()
        return [] if t is None else [(t, "address" if ep == "script" else ep)]
    if isinstance(o, ElectrumWallet):
        rec.ev("reserialise.electrum_serialize")
        return [("E:" + o.serialize().hex(), "electrum_prv" if ep == "electrum_seed" else ep)]
    if isinstance(o, BIP32Node):
        rec.ev("reserialise.hwif")
        return [(o.hwif(as_private=o.is_private()), "bip32_prv" if ep in ("bip32_seed", "hd_seed") else ep)]
    if isinstance(o, Key):
        if o.secret_exponent() is not None:
            rec.ev("reserialise.wif")
            return [(o.wif(), "wif" if ep == "secret_exponent" else ep)]
        rec.ev("reserialise.as_text")
        return [(o.as_text(), "sec" if ep == "public_pair" else ep)]
    return []


def case_of(ctx, ep, text, must, expect):
    c = {"net": ctx.sym, "ep": ep, "text": "t:" + text}
    if must:
        c["must"] = must
    if expect is not None:
        c["expect"] = list(expect)
    if getattr(ctx, "prelude", None):
        c["prelude"] = [list(x) for x in ctx.prelude]          # calls made before this one in the same process
    return c


def judge(ctx, ep, text, A, rec, must=None, expect=None, deep=False, memo=None):
    """One call of one entry point on one text. `must`: the kind label when this entry point has to accept the text
    (text came out of pycoin's own serialiser for that kind); `expect`: signature the result must then have.
    `memo`: scratch dict shared by the calls on one text (what the model says per set of kinds)."""
    if memo is None:
        memo = {}

    def ok_bad(ks):
        r = memo.get(ks)
        if r is None:
            r = memo[ks] = (A.ok(ks), A.bad(ks)) if (ks and A.kinds) else ({}, {})
        return r
    fn = ctx.fn[ep]
    rec.ev("parse." + ep)
    st, v = observe(fn, text)
    if st == "exc":
        mech = diagnose(ep, A, text) or "total.%s.%s" % (ep, type(v).__name__)
        rec.violation(mech, case_of(ctx, ep, text, must, expect), v, "an object or None")
        return
    kinds = ep_kinds(ep)
    if A.kinds and kinds is not None and not ok_bad(kinds)[0]:
        # which clause this call decides (counted whatever the answer is)
        bad = ok_bad(kinds)[1]
        if ep in PURE:
            if bad:
                rec.ev("refusal.judged")                       # own prefix, invalid payload -> must be None
                for r in set(bad.values()):
                    rec.ev("refusal.judged." + r)
                if ok_bad(KT.ALL_KINDS)[0]:
                    rec.ev("kindsep.shared_prefix_judged")     # ... and the text is a valid object of another kind
            elif ok_bad(KT.ALL_KINDS)[0]:
                rec.ev("kindsep.other_kind_judged")            # valid text of another checksummed kind -> must be None
        elif bad:
            rec.ev("refusal.catchall_judged")                  # a catch-all that dispatches to the kind of the bad payload
        elif ok_bad(KT.ALL_KINDS)[0]:
            # valid text of a checksummed kind this catch-all / free-form parser does not dispatch to
            rec.ev("kindsep.catchall_judged" if kinds else "kindsep.freeform_parser_judged")
    if v is None:
        if must:
            mech = "sec.as_text_not_parsed" if must == "sec_text" else "valid.%s_not_parsed_by.%s" % (must, ep)
            rec.violation(mech, case_of(ctx, ep, text, must, expect), None, "the object this text was produced from")
        return
    rec.ev("returned." + ep)
    s = sig(v)
    # a checksummed text that also has a free-form reading (hex-only Base58): an entry point with the free-form parser
    # behind it may return that reading - the statement gives no precedence between a checksummed and a free-form kind.
    # Evaluated only when something is about to be reported.
    amb = []

    def ambiguous():
        if not amb:
            amb.append(bool(A.checksummed and ep not in PURE and freeform_reading(ctx, ep, text, s, rec)))
        return amb[0]

    if expect is not None and must and tuple(expect) != s and not ambiguous():
        mech = diagnose(ep, A, text, v) or "valid.%s_parsed_to_other_object.%s" % (must, ep)
        rec.violation(mech, case_of(ctx, ep, text, must, expect), s, expect)
        return
    if ep in ("secret_exponent", "private_key", "secret") and text.isascii() and text.isdigit() and text[:1] != "0" and not A.checksummed:
        # a plain decimal numeral denotes that number
        want = int(text) if len(text) < 100 else N
        if not (1 <= want < N):
            rec.violation("secret_exponent.accepts_out_of_range", case_of(ctx, ep, text, must, expect), s, None)
            return
        if s[0] != "key" or s[1] != want:
            rec.violation("secret_exponent.decimal_value_differs", case_of(ctx, ep, text, must, expect), s, ["key", want])
            return
    if ep == "parse_b58_hashed" and v != A.payload:
        rec.violation("b58.payload_differs_from_text", case_of(ctx, ep, text, must, expect), v, A.payload)
        return
    free = kinds is not None and any(r == "free" for r in ok_bad(kinds)[1].values())
    if kinds is not None and not free:
        oks, bad_here = ok_bad(kinds)
        verdict = None
        if oks:
            if not any(match_value(v, val, deep) for val in oks.values()):
                verdict = ("%s.value_differs_from_text" % ep, sorted(oks.items()))
        elif ep in KT.BIP_FAMILIES and not A.checksummed:
            # bip32 / bip49 / bip84 are documented as "either a seed, a prv or a pub": what they make of text that is no
            # checksummed text at all (H:/P: seeds) is free; faithfulness is judged below like for any returned object
            rec.ev("freeform.family_parser_returns_for_unchecksummed_text")
        elif ep in PURE:
            reason = "_".join(sorted(set(bad_here.values()))) or ("other_kind" if ok_bad(KT.ALL_KINDS)[0] else
                                                                  "foreign_prefix" if A.checksummed else "unchecksummed")
            verdict = ("refusal.%s.accepts_%s" % (ep, reason), None)
        elif A.checksummed and s[0] in ("contract", "key", "node"):
            anyok = ok_bad(KT.ALL_KINDS)[0]
            if anyok:
                # valid text of a kind this entry point does not dispatch to. Returning the very object the text denotes
                # (private_key given an xprv, say) is not "parsed as a different kind"; anything else is
                if any(match_value(v, val, deep) for val in anyok.values()):
                    rec.ev("kindsep.catchall_returns_object_of_the_texts_own_kind")
                elif bad_here:
                    verdict = ("refusal.%s.accepts_%s" % (ep, "_".join(sorted(set(bad_here.values())))), None)
                else:
                    verdict = ("kindsep.%s.returns_object_for_%s_text" % (ep, "+".join(sorted(anyok))), None)
            elif bad_here:
                verdict = ("refusal.%s.accepts_%s" % (ep, "_".join(sorted(set(bad_here.values())))), None)
        if verdict and ambiguous():
            verdict = None
        if verdict:
            mech = diagnose(ep, A, text, v) or verdict[0]
            rec.violation(mech, case_of(ctx, ep, text, must, expect), s, verdict[1])
            return
    # ---- faithful ------------------------------------------------------------------------
    st, cands = observe(reserialisations, ep, v, rec)
    if st == "exc":
        mech = "faithful.%s.reserialise_raises" % ep
        if s[0] == "key" and s[1] is None and not (0 <= s[2][0] < P_FIELD and 0 <= s[2][1] < P_FIELD):
            mech = "public_pair.accepts_unreduced_coordinate"
        rec.violation(mech, case_of(ctx, ep, text, must, expect), cands, "text")
        return
    if not cands:
        rec.ev("faithful.no_text_form")
        return
    why = None
    results = []
    for t2, rep in cands:
        if not isinstance(t2, str):
            why = why or "reserialise_not_text"
            results.append([t2, None])
            continue
        if rep not in ctx.fn:
            rec.ev("faithful.reparse_ep_absent")
            return
        if rep == ep and t2 == text:
            # the text was already in the form the object re-serialises to: re-parsing it is the very call just judged
            rec.ev("faithful.text_is_its_own_reserialisation")
            rec.ev("faithful.ok")
            return
        rec.ev("faithful.reparse")
        st2, w = observe(ctx.fn[rep], t2)
        if st2 == "exc":
            why = why or "reparse_raises"
            results.append([t2, w])
        elif w is None:
            why = why or "reparse_none"
            results.append([t2, None])
        elif sig(w) != s:
            why = why or "reparse_differs"
            results.append([t2, sig(w)])
        else:
            rec.ev("faithful.ok")
            return
    mech = "faithful.%s.%s" % (ep, why)
    if s[0] == "key" and s[1] is None and why == "reparse_none":
        mech = "sec.as_text_not_parsed"
    elif s[0] == "key" and s[1] is None and not (0 <= s[2][0] < P_FIELD and 0 <= s[2][1] < P_FIELD):
        mech = "public_pair.accepts_unreduced_coordinate"
    elif why in ("reparse_differs", "reparse_raises") and isinstance(results[-1][0], str):
        # the re-serialised text was mis-parsed: name the root cause from that text
        t2, rep = cands[-1]
        w = None if why == "reparse_raises" else ctx.fn[rep](t2)
        mech = diagnose(rep, KT.analyse(ctx.params, t2), t2, w) or mech
    rec.violation(mech, case_of(ctx, ep, text, must, expect), results, s)


def run_text(ctx, cls, text, rec, must_eps=None, must=None, expect=None):
    A = KT.analyse(ctx.params, text)
    rec.case((ctx.sym, text), nontrivial=len(text) > 0, n=1)
    rec.ev("class." + cls)
    ctx.deep_counter += 1
    deep = ctx.deep_counter % 16 == 0
    eps = ctx.eps
    if ctx.quick and must_eps is None and cls.startswith(("misc.unicode", "misc.alphabet", "misc.blank")):
        # quick tier: free-form garbage goes to a rotating third of the entry points (plus the catch-all); over a run
        # every entry point still sees every garbage class
        k = ctx.deep_counter % 3
        eps = [e for j, e in enumerate(ctx.eps) if j % 3 == k or e == "__call__"]
    elif ctx.quick and must_eps is None and cls.startswith(("b58.", "bech32.", "mutation.", "confusable.", "crossnet.")):
        # quick tier: checksummed-looking text always meets every checksummed-kind parser and every catch-all; the
        # free-form parsers (numbers, scripts, pairs, seeds ...), for which it is just garbage, take turns
        k = ctx.deep_counter % 3
        eps = [e for j, e in enumerate(ctx.eps) if e not in FREEFORM_EPS or j % 3 == k]
    rec.ev("entry_point_calls", len(eps))
    memo = {}
    for ep in eps:
        m = must if (must_eps and ep in must_eps) else None
        judge(ctx, ep, text, A, rec, must=m, expect=expect if m else None, deep=deep, memo=memo)


# ---------------------------------------------------------------------------------------------
# workload

def rbytes(rng, n):
    return bytes(rng.randrange(256) for _ in range(n))


def fill(kind, L, rng):
    if kind == "zeros":
        return bytes(L)
    if kind == "ff":
        return b"\xff" * L
    if kind == "n":
        return (N.to_bytes(32, "big") * (L // 32 + 1))[:L]
    return rbytes(rng, L)


X_NO_POINT = 5          # x^3 + 7 is a non-residue
X_POINT = 1


def structured_bodies(kind, rng):
    """bodies (after the prefix) with boundary contents for the kind's format."""
    out = []
    if kind == "wif":
        for se in (0, 1, N - 1, N, N + 1, 2 ** 256 - 1, rng.randrange(1, N)):
            b = se.to_bytes(32, "big")
            out += [b, b + b"\x01"]
        b = rng.randrange(1, N).to_bytes(32, "big")
        # 33 bytes that are no exponent + marker, but a number below the group order when read as one 33-byte integer
        out += [(1).to_bytes(32, "big") + bytes([m]) for m in (0, 2)] + [bytes(2) + b[:31]]
        out += [b + bytes([m]) for m in (0, 2, 0x80, 0xff)] + [b + b"\x01\x01", b[:31], b[:31] + b"\x01"]
    elif kind in KT.BIP_KINDS:
        head = bytes([rng.choice([0, 1, 3, 255])]) + rbytes(rng, 4) + rng.choice([0, 1, 0x80000000, 0xffffffff]).to_bytes(4, "big") + rbytes(rng, 32)
        pt = KT.pubpoint(rng.randrange(1, N))
        keys = [b"\x00" + se.to_bytes(32, "big") for se in (0, 1, N - 1, N, 2 ** 256 - 1, rng.randrange(1, N))]
        keys += [KT.sec_of(pt, True), bytes([5 - KT.sec_of(pt, True)[0]]) + KT.sec_of(pt, True)[1:]]
        keys += [bytes([t]) + X_NO_POINT.to_bytes(32, "big") for t in (2, 3)]
        keys += [bytes([t]) + pt[0].to_bytes(32, "big") for t in (1, 4, 6, 7, 0xff)]
        keys += [b"\x02" + bytes(32), b"\x03" + (P_FIELD - 1).to_bytes(32, "big"), b"\x02" + (P_FIELD + 1).to_bytes(32, "big")]
        out += [head + k for k in keys]
        out += [head + keys[5][:-1], head + keys[5] + b"\x00", head[1:] + keys[5], b"\x00" + head + keys[6]]
    else:
        out += [bytes(20), b"\xff" * 20, rbytes(rng, 20)]
    return out


def b58_workload(ctx, rng, scale):
    P = ctx.params
    prefixes = P.b58_prefixes()
    out = []
    boundary = {0, 1, 19, 20, 21, 31, 32, 33, 34, 40, 64, 65, 73, 74, 75, 77, 78, 79, 90}
    fills = ("zeros", "n", "ff", "rnd")
    for pi, (kind, prefix) in enumerate(prefixes):
        for L in range(0, 91):
            if scale > 1 or L in (20, 32, 33, 74):
                which = fills
            elif L in boundary:
                which = (fills[(L + pi) % 3], "rnd")
            elif (L <= 40 and ((L + pi) % 3 == 0 or kind in ("p2pkh", "p2sh", "wif"))) or (L > 40 and (L + pi) % 5 == 0):
                which = (fills[(L + pi) % 4],)
            else:
                which = ()
            for f in which:
                reps = 1 if (f != "rnd" or scale == 1) else 3
                for _ in range(reps):
                    out.append(("b58.%s.len" % kind, RB.encode_check(prefix + fill(f, L, rng))))
        for r in range(1 if scale == 1 else 6):
            for body in structured_bodies(kind, rng):
                out.append(("b58.%s.structured" % kind, RB.encode_check(prefix + body)))
        # the prefix not at position 0 (a parser must anchor it), same total length as a valid text
        for body in structured_bodies(kind, rng)[-3:] + [rbytes(rng, {"wif": 33}.get(kind, 74 if kind in KT.BIP_KINDS else 20))]:
            junk = bytes([rng.randrange(1, 256)])
            if not (junk + prefix).startswith(prefix):
                out.append(("b58.%s.prefix_shifted" % kind, RB.encode_check(junk + prefix + body[:-1])))
            out.append(("b58.%s.prefix_at_end" % kind, RB.encode_check(body + prefix)))
        if kind in KT.BIP_KINDS:
            # a well-formed node under foreign version bytes whose chain code happens to contain this network's version bytes
            pos = rng.randrange(0, 29)
            chain = rbytes(rng, pos) + prefix + rbytes(rng, 32 - pos - len(prefix))
            key = (b"\x00" + rng.randrange(1, N).to_bytes(32, "big")) if kind.endswith("prv") else KT.sec_of(KT.pubpoint(rng.randrange(1, N)))
            foreign = bytes([prefix[0] ^ 0x55]) + prefix[1:]
            out.append(("b58.%s.prefix_inside" % kind, RB.encode_check(foreign + b"\x00" + bytes(4) + bytes(4) + chain[:32] + key)))
        # right payload, checksum of another network style (4 zero bytes) / truncated checksum
        good = prefix + structured_bodies(kind, rng)[-1]
        out.append(("b58.%s.bad_checksum" % kind, RB.encode(good + b"\0\0\0\0")))
        out.append(("b58.%s.bad_checksum" % kind, RB.encode(good + RB.dsha(good)[:3])))
    # foreign prefixes
    for pfx in (b"\x00", b"\x05", b"\x80", b"\xff", bytes.fromhex("0488ade4"), bytes.fromhex("0488b21e")):
        if any(pfx == p for _, p in prefixes):
            continue
        for L in (20, 32, 33, 74):
            out.append(("b58.foreign_prefix", RB.encode_check(pfx + rbytes(rng, L))))
    return out


def bech32_workload(ctx, rng, scale):
    P = ctx.params
    out = []
    hrps = []
    if P.hrp:
        hrps.append((P.hrp, True))
    hrps.append(("tb" if P.hrp == "bc" else "bc", False))
    lens_full = [0, 1, 2, 19, 20, 21, 31, 32, 33, 40, 41]
    for hrp, own in hrps:
        for ver in range(0, 18):
            if own and (scale > 1 or ver in (0, 1, 2, 16, 17)):
                lens = lens_full if scale == 1 else list(range(0, 42))
            elif own:
                lens = [20, 32]
            else:
                lens = [20, 32] if ver in (0, 1) else []
            for L in lens:
                for const in ("bech32", "bech32m"):
                    prog = fill(rng.choice(["zeros", "ff", "rnd"]), L, rng)
                    out.append(("bech32.%s" % ("own_hrp" if own else "foreign_hrp"), R32.raw_encode(hrp, [ver] + R32.to5(prog), const)))
        if own:
            for ver, L in ((0, 20), (0, 32), (1, 32)):
                good = R32.segwit_encode(hrp, ver, rbytes(rng, L))
                out.append(("bech32.uppercase", good.upper()))
                k = rng.choice([i for i, ch in enumerate(good) if ch.isalpha()])
                out.append(("bech32.mixed_case", good[:k] + good[k].upper() + good[k + 1:]))
                five = R32.to5(rbytes(rng, L))
                five[-1] |= 1
                out.append(("bech32.bad_padding", R32.raw_encode(hrp, [ver] + five, "bech32" if ver == 0 else "bech32m")))
                out.append(("bech32.no_data", R32.raw_encode(hrp, [], "bech32")))
                out.append(("bech32.truncated", good[:-1]))
                out.append(("bech32.hrp_only", hrp + "1"))
            # a well-formed address under a human-readable part that begins / ends like the network's own (bc -> bcrt,
            # bcc, b, tbc): a parser must compare the whole part
            for alt in (hrp + "rt", hrp + hrp[-1], hrp[:-1], "t" + hrp):
                if alt and alt != hrp:
                    for ver, L in ((0, 20), (1, 32)):
                        out.append(("bech32.hrp_not_anchored", R32.segwit_encode(alt, ver, rbytes(rng, L))))
    return out


HEXD = "0123456789abcdef"


def colon_workload(ctx, rng, scale):
    out = []
    if scale == 1:
        lens = sorted(set(list(range(0, 12)) + [31, 32, 33, 34, 63, 64, 65, 66, 127, 128, 129, 130] + [rng.randrange(12, 127) for _ in range(6)]))
    else:
        lens = list(range(0, 131))
    seeds_done = 0
    for L in lens:
        for pfx in "HPE":
            h = "".join(rng.choice(HEXD) for _ in range(L))
            if pfx == "E" and L == 32:
                # E:<32 hex> runs a 100,000-round key stretch in four entry points; keep it to one string per network
                seeds_done += 1
                if seeds_done > 1:
                    continue
            out.append(("colon.%s.hex" % pfx, "%s:%s" % (pfx, h)))
    for se in (0, 1, N - 1, N, 2 ** 256 - 1, rng.randrange(1, N)):
        out.append(("colon.E.prv_boundary", "E:%064x" % se))
        out.append(("colon.H.boundary", "H:%064x" % se))
    pt = KT.pubpoint(rng.randrange(1, N))
    out.append(("colon.E.pub_valid", "E:%064x%064x" % pt))
    out.append(("colon.E.pub_off_curve", "E:%064x%064x" % (pt[0], pt[1] ^ 1)))
    out.append(("colon.E.pub_zero", "E:" + "00" * 64))
    out.append(("colon.E.pub_ff", "E:" + "ff" * 64))
    out.append(("colon.E.upper", ("E:%064x" % rng.randrange(1, N)).upper()))
    for t in ("H:zz", "H:0", "H:0g", "H: 00", "H:00 ", "E:xyz", "E:0", "E: " + "00" * 32, "P:", "P:\u00e9\u4e2d\U0001F600", "P:a:b", "Q:00", "h:00", "e:" + "11" * 32,
              "H::", ":H", "H", "E", "P", "HP:00", "H:" + "0" * 1001, "P:" + "x" * 2000, "E:" + "é" * 64, "H:\u0660\u0661", "E:" + "\uff10" * 64,
              "H:0x00", "E:-1", "H:+0", "P:\x00", "E:\n" + "00" * 32):
        out.append(("colon.malformed", t))
    return out


def pair_workload(ctx, rng, scale):
    out = []
    G = REC.SECP256K1.G
    pt = KT.pubpoint(rng.randrange(1, N))
    xs_no = [X_NO_POINT] + [x for x in range(0xab, 0x200) if REC.SECP256K1.lift_x(x) is None][:1] + [P_FIELD - 3]
    xs_no = [x for x in xs_no if REC.SECP256K1.lift_x(x) is None]
    for x, y in (G, pt):
        for fmt in ("%d", "%x", "0x%x"):
            fx, fy = fmt % x, fmt % y
            out += [("pair.parity.point", "%s/%s" % (fx, "odd" if y & 1 else "even")), ("pair.parity.point", "%s/%s" % (fx, "even" if y & 1 else "odd")),
                    ("pair.parity.point", "%s,%s" % (fx, "even")), ("pair.xy.point", "%s,%s" % (fx, fy)), ("pair.xy.point", "%s/%s" % (fx, fy)),
                    ("pair.xy.off_curve", "%s,%s" % (fx, fmt % (y ^ 1))), ("pair.xy.off_curve", "%s/%s" % (fx, fmt % (P_FIELD - y + 1)))]
        out.append(("pair.xy.negated", "%d,%d" % (x, P_FIELD - y)))
        out.append(("pair.xy.y_plus_p", "%d,%d" % (x, y + P_FIELD)))
        out.append(("pair.xy.x_plus_p", "%d,%d" % (x + P_FIELD, y)))
        out.append(("pair.parity.x_plus_p", "%d/even" % (x + P_FIELD)))
        out.append(("pair.xy.negative", "-%d,%d" % (x, y)))
    out.append(("pair.parity.point", "%d/even" % X_POINT))
    out.append(("pair.parity.point", "%d/odd" % X_POINT))
    for x in xs_no:
        for par in ("even", "odd"):
            for c in "/,":
                out.append(("pair.parity.no_point", "%d%s%s" % (x, c, par)))
        out.append(("pair.parity.no_point", "%x/odd" % x))
        out.append(("pair.parity.no_point", "0x%x,even" % x))
    for t in ("0/even", "0/odd", "0,0", "/", ",", "1/", "/even", "1/even/odd", "1,even,odd", "1/EVEN", "1/ even", "even/1", "a/b", "1//2", "1,/2",
              "%d/even" % P_FIELD, "%d/odd" % (P_FIELD - 1), "%d/even" % (2 ** 256), "%d/even" % (10 ** 90), "-1/even", "-5/odd", "1_0/even", "\u0661/even",
              "1/\u0665", "1.0/even", "1e3/even", " 1 / even", "1/even ", "0x/even", "1,2", "2,1", "%d,%d" % (N, N), "ff/even", "FF,odd", "g/even"):
        out.append(("pair.malformed", t))
    return out


def number_workload(ctx, rng, scale):
    out = []
    vals = [0, 1, 2, 9, 10, 16, 255, N - 1, N, N + 1, 2 ** 256 - 1, 2 ** 256, 10 ** 100, rng.randrange(1, N), rng.randrange(1, 2 ** 64)]
    for v in vals:
        out += [("number.decimal", "%d" % v), ("number.hex", "%x" % v), ("number.0x", "0x%x" % v), ("number.negative", "-%d" % v)]
    for t in ("1_000", "1__0", "_1", "\u0661\u0662\u0663", "\u0967", "\uff11\uff12", "\u00b2", "\u2460", " 12 ", "\t7\n", "+5", "++5", "1e5", "0b11", "0o17", "1.5", "00012", "0x", "0X1F",
              "1" * 4301, "f" * 5000, "1 2", "١٢٣٤٥٦٧٨٩٠" * 3, "0" * 64, "deadbeef", "DEADBEEF", "0xdead_beef", "--1", "- 1", "1-", "١/even", "٠"):
        out.append(("number.odd_forms", t))
    return out


def misc_workload(ctx, rng, scale):
    out = [("misc.blank", t) for t in ("", " ", "  ", "\n", "\t", "\r\n", ":", "::", " : ", ":::", "\x00", "\x00:\x00", "1", "11", "111111", "\ufeff", "\u200b", "a" * 10000)]
    pools = [(0x20, 0x7f), (0xa0, 0x24f), (0x370, 0x3ff), (0x4e00, 0x4eff), (0x1f600, 0x1f64f), (0x660, 0x669), (0xff10, 0xff19), (1, 0x1f), (0xe000, 0xe0ff), (0x10fff0, 0x10ffff)]
    for i in range(30 * scale):
        L = rng.choice([1, 2, 3, 5, 8, 13, 34, 52, 111])
        lo_hi = rng.choice(pools) if rng.random() < 0.6 else None
        chars = []
        for _ in range(L):
            lo, hi = lo_hi or rng.choice(pools)
            chars.append(chr(rng.randrange(lo, hi + 1)))
        out.append(("misc.unicode", "".join(chars)))
    for i in range(10 * scale):
        # strings over the base58 / bech32 / hex alphabets, with separators sprinkled in
        alpha = rng.choice([RB.ALPHABET, R32.CHARSET, HEXD, HEXD + ":/, "])
        out.append(("misc.alphabet", "".join(rng.choice(alpha) for _ in range(rng.choice([4, 20, 34, 51, 64, 66, 111, 130])))))
    for t in ("OP_DUP OP_HASH160 [%s] OP_EQUALVERIFY OP_CHECKSIG" % ("11" * 20), "OP_HASH160 %s OP_EQUAL" % ("22" * 20), "OP_0 [%s]" % ("33" * 20),
              "OP_0 [%s]" % ("44" * 32), "OP_1 [%s]" % ("55" * 32), "OP_RETURN [cafe]", "OP_RETURN", "1 [%s] [%s] 2 OP_CHECKMULTISIG" % ("02" + "66" * 32, "03" + "77" * 32),
              "[%s] OP_CHECKSIG" % ("02" + "88" * 32), "OP_DUP", "op_dup", "DUP", "dup", "OP_NOP OP_NOP", "0", "1", "16", "17", "-1", "'abc'", "[abcd]", "[abc]", "[]", "0x", "0xab", "0x4c",
              "OP_PUSHDATA1", "OP_BOGUS", "1 2 OP_ADD 3 OP_EQUAL", "OP_IF OP_ELSE OP_ENDIF", "[%s]" % ("ab" * 80), "[%s]" % ("ab" * 300), "OP_1NEGATE", "0x51", "'", "''", "[", "]"):
        out.append(("misc.script_text", t))
    return out


def valid_workload(ctx, rng, scale):
    """objects built through the key / address API and serialised by pycoin -> (cls, text, must_eps, must_label, expect_sig).
    Also the same kinds built by the reference alone (no must)."""
    net, P = ctx.net, ctx.params
    out = []
    Key, BIP32Node, BIP49Node, BIP84Node, ElectrumWallet, Contract = _classes()
    ses = [1, N - 1] + [rng.randrange(1, N) for _ in range(2 * scale)]
    for se in ses:
        for comp in (True, False):
            k = net.keys.private(se, is_compressed=comp)
            if P.wif is not None:
                t = k.wif()
                out.append(("valid.wif", t, ("wif", "private_key", "secret", "__call__"), "wif_text", sig(k)))
                out.append(("ref.wif", KT.wif_text(P, se, comp), None, None, None))
            pub = k.public_copy()
            out.append(("valid.sec_text", pub.as_text(), ("sec", "public_key"), "sec_text", sig(pub)))
            out.append(("valid.sec_hex", pub.sec().hex(), ("sec", "public_key"), "sec_hex", sig(pub)))
            if P.p2pkh is not None:
                a = k.address()
                exp = ("contract", KT.script_p2pkh(KT.hash160(KT.sec_of(KT.pubpoint(se), comp)))) if se in (1, N - 1) else None
                out.append(("valid.key_address", a, ("p2pkh", "address", "payable", "__call__"), "p2pkh_address", exp))
    hashes20 = [bytes(20), b"\xff" * 20] + [rbytes(rng, 20) for _ in range(2 * scale)]
    hashes32 = [bytes(32), b"\xff" * 32] + [rbytes(rng, 32) for _ in range(2 * scale)]
    # payloads over a restricted alphabet: hex spelling in decimal digits only (a script compiler can take that for a
    # number), with and without a leading zero, and in letters only
    for hs, n in ((hashes20, 20), (hashes32, 32)):
        for _ in range(1 if scale == 1 else 6):
            d = "".join(rng.choice("0123456789") for _ in range(2 * n - 1))
            hs += [bytes.fromhex(rng.choice("123456789") + d), bytes.fromhex("0" + d)]
        hs.append(bytes.fromhex("".join(rng.choice("abcdef") for _ in range(2 * n))))
    addr = net.address
    for h in hashes20:
        for kind, f, eps in (("p2pkh", addr.for_p2pkh, ("p2pkh",)), ("p2sh", addr.for_p2sh, ("p2sh",)), ("p2pkh_segwit", addr.for_p2pkh_wit, ("p2pkh_segwit",))):
            t = f(h)
            if t is not None:
                out.append(("valid.%s" % kind, t, eps + ("address", "payable", "__call__"), kind + "_address", ("contract", KT.script_for(kind, h))))
    for h in hashes32:
        for kind, f, eps in (("p2sh_segwit", addr.for_p2sh_wit, ("p2sh_segwit",)), ("p2tr", addr.for_p2tr, ("p2tr",))):
            t = f(h)
            if t is not None:
                out.append(("valid.%s" % kind, t, eps + ("address", "payable", "__call__"), kind + "_address", ("contract", KT.script_for(kind, h))))
    # extended keys
    for i in range(1 + scale):
        m = net.keys.bip32_seed(rbytes(rng, 16))
        node = m if i == 0 else m.subkey_for_path(rng.choice(["0", "1H", "44H/0H/0H/1/7", "2147483647H/2147483647"]))
        blob = node.serialize(as_private=True)
        fams = [("bip32", node)]
        for fam in ("bip49", "bip84"):
            if P.prefix(fam + "_prv") is not None and P.prefix(fam + "_pub") is not None:
                fams.append((fam, getattr(net.keys, fam + "_deserialize")(b"\0\0\0\0" + blob)))
        for fam, nd in fams:
            if P.prefix(fam + "_prv") is None or P.prefix(fam + "_pub") is None:
                continue
            out.append(("valid.%s_prv" % fam, nd.hwif(as_private=True), (fam + "_prv", fam, "hierarchical_key", "secret", "__call__"), fam + "_prv_text", sig(nd)))
            pubn = nd.public_copy()
            out.append(("valid.%s_pub" % fam, nd.hwif(as_private=False), (fam + "_pub", fam, "hierarchical_key", "__call__"), fam + "_pub_text", sig(pubn)))
    return out


# ---------------------------------------------------------------------------------------------
# every registered network (also the ones whose own Base58 checksum cannot be computed here)

_ALL = None


def all_contexts():
    """{registry code: Ctx} for every registered network. Networks outside usable_networks() (GRS family without its hash
    module) have no text model here; they only take part in the reuse histories, whose oracle is pycoin's own answer
    to the same text given as a fresh plain str."""
    global _ALL
    if _ALL is None:
        from pycoin.networks.registry import network_codes, network_for_netcode
        _ALL = {}
        for code in sorted(set(network_codes())):
            st, net = observe(network_for_netcode, code)
            if st == "ok" and net is not None and getattr(net, "parse", None) is not None:
                _ALL[code] = make_ctx(code, net)
    return _ALL


def checksum_family(ctx):
    """identity of the Base58 checksum hook of the network's parse API (found by introspection)."""
    return getattr(type(ctx.parse), "parse_b58_hashed", None)


def shares_text_space(P, Q):
    """two networks declare a common Base58 prefix or HRP: a text of one is (part of) a text of the other."""
    mine = {p for _, p in P.b58_prefixes()}
    return bool(mine & {p for _, p in Q.b58_prefixes()}) or (P.hrp is not None and P.hrp == Q.hrp)


# ---------------------------------------------------------------------------------------------
# constructed texts: valid Base58 texts that look like another format to a parser dispatching on the shape of the text

CONSTRUCTED_QUOTA = {"own_hrp": 6, "key_lead": 2, "symbol": 2, "alphabet": 4}


def shape_words(ctx, allp):
    """-> {class: [word]}: what other text formats of this network and of its siblings begin with."""
    P = ctx.params
    words = {"own_hrp": [], "other_hrp": [], "key_lead": [], "symbol": []}
    if P.hrp:
        words["own_hrp"] = SH.case_variants(P.hrp + "1", 64)
    for hrp in sorted({q.hrp for q in allp if q.hrp} - {P.hrp}):
        words["other_hrp"] += SH.case_variants(hrp + "1", 6)
    leads = set()
    for q in allp:
        for kind, prefix in q.b58_prefixes():
            for blen in ((74,) if kind in KT.BIP_KINDS else (32, 33) if kind == "wif" else (20,)):
                w = SH.common_lead(prefix, blen)
                if len(w) >= 2:
                    leads.add(w)
    for w in sorted(leads):
        words["key_lead"] += SH.case_variants(w, 3)
    for w in (P.symbol or "", (P.sec_prefix or "").rstrip(":") if isinstance(P.sec_prefix, str) else ""):
        if len(w) >= 2:
            words["symbol"] += SH.case_variants(w, 4)
    return words


def constructed_workload(ctx, rng, scale, rec, allp):
    """-> tuples like valid_workload's. The payload is constructed from the reference codec so that the text has the wanted
    shape; the text itself is then produced by pycoin's serialiser (and dropped when it is not the reference's text:
    that is C08 / C10 matter), so each specific parser and each dispatching entry point has to accept it."""
    net, P = ctx.net, ctx.params
    forms = []          # (kind, prefix, body length, fixed tail)
    for kind in KT.B58_ADDR_KINDS:
        if P.prefix(kind) is not None and not (kind == "p2sh" and P.p2sh == P.p2pkh):
            forms.append((kind, P.prefix(kind), 20, b""))
    if P.wif is not None:
        forms += [("wif", P.wif, 33, b"\x01"), ("wif", P.wif, 32, b"")]
    out = []

    def emit(cls, form, body):
        kind, prefix = form[0], form[1]
        ref = RB.encode_check(prefix + body)
        if kind == "wif":
            se = int.from_bytes(body[:32], "big")
            if not 1 <= se < N:
                return False
            st, k = observe(net.keys.private, se, is_compressed=len(body) == 33)
            st, t = observe(k.wif) if st == "ok" else (st, None)
            row = (cls, ref, ("wif", "private_key", "secret", "__call__"), "wif_text", sig(k) if st == "ok" else None)
        else:
            st, t = observe(net.address.for_p2pkh if kind == "p2pkh" else net.address.for_p2sh, body)
            row = (cls, ref, (kind, "address", "payable", "__call__"), kind + "_address", ("contract", KT.script_for(kind, body)))
        if st != "ok" or t != ref:
            rec.ev("constructed.serialiser_differs_from_reference")
            return False
        out.append(row)
        return True

    words = shape_words(ctx, allp)
    mult = 1 if scale == 1 else 8
    for cls in ("own_hrp", "other_hrp", "key_lead", "symbol"):
        cands = [(w, f) for w in words[cls] for f in forms] * mult
        rng.shuffle(cands)
        made, per_word = 0, {}
        for w, form in cands:
            # other HRPs: one text per HRP (any spelling), so that every sibling format that can be imitated is; the rest
            # is bounded by a quota per class
            group = w.lower() if cls == "other_hrp" else w
            if (cls != "other_hrp" and made >= CONSTRUCTED_QUOTA[cls] * mult) or per_word.get(group, 0) >= mult:
                continue
            body = SH.body_with_lead(form[1], form[2], w, rng, tail=form[3])
            if body is None:
                continue
            if cls == "own_hrp":
                ctx.own_hrp_collision = True
            if emit("constructed.%s.%s" % (cls, form[0]), form, body):
                per_word[group] = per_word.get(group, 0) + 1
                made += 1
    # restricted alphabets: every alphabet once (the first form it is possible for), then up to the quota
    cands = [(a, f) for a in SH.ALPHABETS for f in forms if not f[3]] * mult
    rng.shuffle(cands)
    made, per_name = 0, {}
    for rnd in (0, 1):
        for (name, chars), form in cands:
            if made >= CONSTRUCTED_QUOTA["alphabet"] * mult or per_name.get(name, 0) > (rnd and mult * 2):
                continue
            body = SH.body_over_alphabet(form[1], form[2], chars, rng, tries=1200 if name == "hex" else 300)
            if body is not None and emit("constructed.alphabet_%s.%s" % (name, form[0]), form, body):
                per_name[name] = per_name.get(name, 0) + 1
                made += 1
    return out


# ---------------------------------------------------------------------------------------------
# reuse histories: ONE text object (network.parseable_str_type, the str subclass the command line tools hand from network
# to network) given to many entry points, of one network and of several. What a parser returns for it must be what it
# returns for the same characters as a fresh plain str.

def outcome(fn, arg):
    st, v = observe(fn, arg)
    if st == "exc":
        return ("exc", type(v).__name__)
    st, s = observe(sig, v)
    if st == "exc":
        return ("ok", ("unreadable", type(v).__name__))
    if s is not None and s[0] == "other":
        s = s[:2]
    return ("ok", s)


def reuse_relation(fresh, got):
    if got[0] == "exc":
        return "raises"
    if fresh[0] == "exc":
        return "hides_exception"
    if fresh[1] is None:
        return "accepts_text_refused_as_plain_str"
    if got[1] is None:
        return "refuses_text_accepted_as_plain_str"
    return "returns_other_object"


def play_history(scope, maker, text, steps, rec, contexts=None, fresh=None):
    """maker: code of the network whose parseable_str_type wraps the text; steps: [(network code, entry point)].
    `fresh`: {(network code, entry point): outcome for the plain str}, shared between the histories of one text.
    -> True when every step answered as for the plain str."""
    contexts = contexts or all_contexts()
    text = str(text)
    mk = getattr(contexts[maker].net, "parseable_str_type", None)
    if mk is None or type(text) is not str:
        rec.ev("reuse.no_text_object_type")
        return True
    shared = mk(text)
    fresh = {} if fresh is None else fresh
    for i, (code, ep) in enumerate(steps):
        fn = contexts[code].fn.get(ep)
        if fn is None:
            continue
        if (code, ep) not in fresh:
            fresh[(code, ep)] = outcome(fn, text)
        got = outcome(fn, shared)
        rec.ev("reuse.%s.step" % scope)
        if got != fresh[(code, ep)]:
            mech = "reuse.%s.%s.%s" % (scope, ep, reuse_relation(fresh[(code, ep)], got))
            rec.violation(mech, {"reuse": scope, "maker": maker, "net": code, "ep": ep, "text": "t:" + text,
                                 "steps": [list(x) for x in steps[:i + 1]]}, got, fresh[(code, ep)])
            return False
    return True


def text_family(label):
    """the decoding path a valid text takes: Base58 address / WIF / private node / public node / segwit / SEC."""
    if label.endswith("_segwit_address") or label == "p2tr_address":
        return "segwit"
    if label.endswith("_address"):
        return "b58_address"
    if label.endswith("_prv_text") or label.endswith("_pub_text"):
        return "node_" + label[-8:-5]
    return label


def stratified(rows, cap, rng):
    """at most `cap` of rows = [(text, eps, family)], one of every family first (so that every decoding path is always
    in), the rest at random."""
    rows = list(rows)
    rng.shuffle(rows)
    first, rest, seen = [], [], set()
    for r in rows:
        (rest if r[2] in seen else first).append(r)
        seen.add(r[2])
    return (first + rest)[:max(cap, len(first))]


def reuse_texts(ctx, rng, valid, constructed, scale):
    """-> (checksummed [(text, must_eps, family)], free-form [(text, (), family)]) picked one per class of valid text."""
    by_cls = {}
    for cls, text, eps, label, expect in list(valid) + list(constructed):
        if eps:
            shaped = cls.startswith("constructed.")
            by_cls.setdefault(cls.rsplit(".", 1)[0] if shaped else cls, []).append((text, tuple(eps), "shaped" if shaped else text_family(label)))
    checks = [x for _, v in sorted(by_cls.items()) for x in rng.sample(v, min(len(v), 1 if scale == 1 else 3))]
    P = ctx.params
    pfx = P.p2pkh if P.p2pkh is not None else P.wif
    if pfx is not None:
        good = pfx + rbytes(rng, 20)
        checks.append((RB.encode(good + b"\0\0\0\0"), (), "bad_checksum"))           # not a valid checksum of any family
        checks.append((RB.encode_check(pfx + rbytes(rng, 21)), (), "bad_payload"))       # valid checksum, refused payload
    se = rng.randrange(1, N)
    free = [("H:" + rbytes(rng, 16).hex(), (), "seed_hex"), ("P:" + "".join(rng.choice("abc xyz:") for _ in range(9)), (), "seed_text"),
            ("E:%064x" % se, (), "electrum"), ("E:%064x%064x" % KT.pubpoint(se), (), "electrum"), (str(se), (), "number"), ("%x" % se, (), "number"),
            ("%d/even" % X_POINT, (), "pair"), ("H:zz", (), "seed_hex"), ("", (), "blank")]
    return checks, free


def run_reuse(ctx, spec, rec, rng, valid, constructed):
    contexts = all_contexts()
    scale = spec.get("scale", 1)
    quick = scale == 1
    A = ctx.sym
    checks, free = reuse_texts(ctx, rng, valid, constructed, scale)
    # ---- one network: every entry point on one text object, in a random order, then (cache warm) backwards
    same = stratified(checks, 9, rng) if quick else list(checks)
    same += free if not quick else stratified(free, 4, rng)
    for text, eps, _ in same:
        order = list(ctx.eps)
        rng.shuffle(order)
        back = order[::-1] if not quick else order[::-1][:len(order) // 2]
        rec.case(("reuse", A, text), nontrivial=len(text) > 0)
        play_history("samenet", A, text, [(A, ep) for ep in order + back], rec, contexts)
    # ---- several networks: the same object travels between networks, in both directions
    others = [c for c in sorted(contexts) if c != A]
    fam = checksum_family(ctx)
    foreign_family = [c for c in others if checksum_family(contexts[c]) is not fam]
    sharing = [c for c in others if shares_text_space(ctx.params, contexts[c].params)]
    rng.shuffle(foreign_family)
    foreign_family.sort(key=lambda c: c not in sharing)          # those that share prefixes first
    partners = foreign_family[:2 if quick else 4]
    pool = [c for c in sharing if c not in partners]
    partners += rng.sample(pool, min(len(pool), 1 if quick else 4))
    pool = [c for c in others if c not in partners]
    partners += rng.sample(pool, min(len(pool), 1 if quick else 3))
    cross = stratified(checks, 8, rng) if quick else list(checks)
    cross += rng.sample(free, 1 if quick else 4)
    good_codes = set(ctx.usable_codes)
    plain = {}          # text -> {(network, entry point): answer for the plain str}
    for B in partners:
        if checksum_family(contexts[B]) is not fam:
            rec.ev("reuse.crossnet.other_checksum_family")
        for text, eps, _ in cross:
            rest = [e for e in ctx.eps if e not in eps and e not in ("__call__", "parse_b58_hashed")]
            chosen = list(eps) + [e for e in ("__call__", "parse_b58_hashed") if e not in eps] + rng.sample(rest, 2)
            chosen = [e for e in chosen if e in contexts[B].fn]
            rng.shuffle(chosen)
            legs = [[(A, e) for e in chosen] + [(B, e) for e in chosen], [(B, e) for e in chosen] + [(A, e) for e in chosen]]
            if not quick:
                legs.append([(n, e) for e in chosen for n in (A, B)])
                legs.append([(n, e) for e in chosen for n in (B, A)])
            rec.case(("reuse", A, B, text), nontrivial=len(text) > 0)
            for steps in legs:
                for maker in ((steps[0][0],) if quick else (A, B)):
                    play_history("crossnet", maker, text, steps, rec, contexts, plain.setdefault(text, {}))
        # the same texts as plain str on the partner, judged by the text model of the partner (a text of this network
        # is foreign, or - shared prefix - an equally valid text there)
        if B in good_codes:
            for text, eps, _ in cross[:4 if quick else len(cross)]:
                run_text(contexts[B], "crossnet.text_of_other_network", text, rec)
    rec.ev("reuse.histories")


def _confusables():
    d = {"k": ["\u212a"], "K": ["\u212a"], "s": ["\u017f"], "S": ["\u017f"], "i": ["\u0130", "\u0131"], "I": ["\u0130", "\u0131"],
         "a": ["\u00aa"], "o": ["\u00ba"], "A": ["\u00c5", "\u212b"], "1": ["\u00b9", "\u2460"], "2": ["\u00b2"], "3": ["\u00b3"]}
    for j in range(10):
        d.setdefault(str(j), []).extend([chr(0xff10 + j), chr(0x0660 + j)])
    for j in range(26):
        d.setdefault(chr(0x61 + j), []).append(chr(0xff41 + j))       # fullwidth small letters
        d.setdefault(chr(0x41 + j), []).append(chr(0xff21 + j))
    return d


CONFUSABLE = _confusables()


def mutate(text, rng, alphabet):
    L = len(text)
    mode = rng.randrange(4)
    if mode == 0 or L < 2:
        k = rng.randrange(L) if L else 0
        ch = rng.choice([c for c in alphabet if c != text[k:k + 1]])
        return text[:k] + ch + text[k + 1:]
    if mode == 1:
        k = rng.randrange(L)
        return text[:k] + text[k + 1:]
    if mode == 2:
        k = rng.randrange(L + 1)
        return text[:k] + rng.choice(alphabet) + text[k:]
    k = rng.randrange(L - 1)
    return text[:k] + text[k + 1] + text[k] + text[k + 2:]


def run_network(ctx, spec, rec):
    rng = shard_rng(spec["seed"], PROPERTY, spec["tier"], ctx.sym)
    scale = spec.get("scale", 1)
    valid = valid_workload(ctx, rng, scale)
    # refused calls (non-text arguments) first: everything that follows is judged after them
    run_errorpath(ctx, rec, shard_rng(spec["seed"], PROPERTY, spec["tier"], ctx.sym, "errorpath"), valid)
    for cls, text, eps, label, expect in valid:
        run_text(ctx, cls, text, rec, must_eps=eps, must=label, expect=expect)
    run_vandal(ctx, rec, shard_rng(spec["seed"], PROPERTY, spec["tier"], ctx.sym, "vandal"), valid)
    if valid:
        rec.sample({"net": ctx.sym, "class": valid[0][0], "text": valid[0][1], "entry_points": len(ctx.eps)}, limit=2)
    # valid Base58 texts shaped like another format (begin with '<hrp>1', a key-text lead, the symbol; hex-only, one-case)
    constructed = constructed_workload(ctx, rng, scale, rec, [c.params for c in all_contexts().values()])
    for cls, text, eps, label, expect in constructed:
        rec.ev("constructed." + cls.split(".")[1])
        run_text(ctx, cls, text, rec, must_eps=eps, must=label, expect=expect)
    if constructed:
        rec.sample({"net": ctx.sym, "class": constructed[0][0], "text": constructed[0][1]}, limit=4)
    # one text object reused across entry points and networks
    run_reuse(ctx, spec, rec, shard_rng(spec["seed"], PROPERTY, spec["tier"], ctx.sym, "reuse"), valid, constructed)
    # networks whose identifiers nest with this one's: constructed text pairs, both orders
    run_nested(ctx, spec, rec, shard_rng(spec["seed"], PROPERTY, spec["tier"], ctx.sym, "nested"))
    texts = []
    texts += b58_workload(ctx, rng, scale)
    texts += bech32_workload(ctx, rng, scale)
    texts += colon_workload(ctx, rng, scale)
    texts += pair_workload(ctx, rng, scale)
    texts += number_workload(ctx, rng, scale)
    texts += misc_workload(ctx, rng, scale)
    # single-character mutations of valid texts
    for cls, text, eps, label, expect in valid:
        if label == "sec_hex":
            alpha = HEXD + "gG:"
        elif text[:1].isalpha() and ctx.params.hrp and text.lower().startswith(ctx.params.hrp + "1"):
            alpha = R32.CHARSET + "1bio"
        else:
            alpha = RB.ALPHABET + "0OIl:"
        for _ in range(2 if scale == 1 else 12):
            texts.append(("mutation." + cls.split(".", 1)[1], mutate(text, rng, alpha)))
    # Unicode look-alikes: characters that str.lower() / str.upper() / NFKC / int() / isdigit() map onto an ASCII character
    # of a valid text. None of them belongs to any of the text formats: the result must never be the object of the valid text.
    for cls, text, eps, label, expect in valid:
        variants = [text]
        if text.upper() != text and ctx.params.hrp and text.lower().startswith(ctx.params.hrp + "1"):
            variants.append(text.upper())
        for v in variants:
            spots = [k for k, ch in enumerate(v) if ch in CONFUSABLE]
            for k in (rng.sample(spots, min(len(spots), 2 if scale == 1 else 8)) if spots else []):
                texts.append(("confusable." + cls.split(".", 1)[1], v[:k] + rng.choice(CONFUSABLE[v[k]]) + v[k + 1:]))
    for t in ("\u00b2", "1\u00b2", "\u2460", "\u00b2/3", "5/\u00b3", "\u0661\u0662\u0663", "\uff11\uff12", "0x\uff11", "\u00b9\u00b2\u00b3,\u2074", "-\u00b2"):
        texts.append(("confusable.number", t))
    seen = set()
    for cls, text in texts:
        if text in seen:
            continue
        seen.add(text)
        run_text(ctx, cls, text, rec)
    rec.ev("net." + ctx.sym)


# ---------------------------------------------------------------------------------------------
# nested identifiers: two registered networks one of whose identifiers (symbol, registry code, network / subnet name, HRP,
# SEC tag, a Base58 prefix written in hex or as raw characters) begins / ends with the other's. Anything that files
# answers under identifier + text (or text + identifier) confuses (L, T) with (S, x + T) resp. (S, T + x) where
# identifier(L) = identifier(S) + x resp. x + identifier(S). For every such pair: T = a genuine text of every kind of L,
# freshly made, the partner text built from it, both networks asked in both orders in this one process, every entry
# point; each answer is judged by the text model (which knows nothing of what was asked before).

NAME_ID_TYPES = ("symbol", "code", "network_name", "subnet_name", "hrp", "sec_prefix")
WIDE_ID_TYPES = ("subnet_name", "prefix_hex", "prefix_raw")         # many pairs: fewer kinds of text each in quick


def identifiers(ctx):
    """-> {identifier type: set of spellings} of one network."""
    net, P = ctx.net, ctx.params
    d = {}

    def add(t, v):
        if isinstance(v, str) and v:
            d.setdefault(t, set()).add(v)
    add("symbol", getattr(net, "symbol", None))
    add("code", ctx.sym)
    add("network_name", getattr(net, "network_name", None))
    add("subnet_name", getattr(net, "subnet_name", None))
    add("hrp", P.hrp)
    add("sec_prefix", P.sec_prefix if isinstance(P.sec_prefix, str) else None)
    for t in ("symbol", "code", "network_name", "hrp", "sec_prefix"):
        for v in list(d.get(t, ())):
            d[t].add(v.lower())
            d[t].add(v.upper())
    for kind, prefix in P.b58_prefixes():
        add("prefix_hex", prefix.hex())
        add("prefix_raw", prefix.decode("latin-1"))
    return d


_NESTED = None


def nested_pairs(contexts):
    """-> sorted [(id type, S, L, where, x)]: identifier(L) = identifier(S) + x (where = 'lead') or x + identifier(S)
    (where = 'tail'), x non-empty. One entry per (S, L, where, x) (the first identifier type showing it)."""
    global _NESTED
    if _NESTED is None:
        ids = {c: identifiers(ctx) for c, ctx in contexts.items()}
        seen, out = set(), []
        for t in NAME_ID_TYPES + ("prefix_hex", "prefix_raw"):
            for S in sorted(ids):
                for L in sorted(ids):
                    if S == L:
                        continue
                    for a in sorted(ids[S].get(t, ())):
                        for b in sorted(ids[L].get(t, ())):
                            if len(b) <= len(a):
                                continue
                            for where, x in (("lead", b[len(a):] if b.startswith(a) else None), ("tail", b[:-len(a)] if b.endswith(a) else None)):
                                if x and (S, L, where, x) not in seen:
                                    seen.add((S, L, where, x))
                                    out.append((t, S, L, where, x))
        _NESTED = out
    return _NESTED


def genuine_texts(ctx, rng, kinds=None):
    """one freshly made genuine text per kind of the network -> rows like valid_workload's, keyed by kind."""
    net, P = ctx.net, ctx.params
    rows = {}
    h20, h32 = rbytes(rng, 20), rbytes(rng, 32)
    addr = net.address
    for kind, f, h in (("p2pkh", addr.for_p2pkh, h20), ("p2sh", addr.for_p2sh, h20), ("p2pkh_segwit", addr.for_p2pkh_wit, h20),
                       ("p2sh_segwit", addr.for_p2sh_wit, h32), ("p2tr", addr.for_p2tr, h32)):
        if kinds is not None and kind not in kinds:
            continue
        st, t = observe(f, h)
        if st == "ok" and isinstance(t, str) and t == KT.address_text(P, kind, h):
            rows[kind] = ("nested." + kind, t, (kind, "address", "payable", "__call__"), kind + "_address", ("contract", KT.script_for(kind, h)))
    se = rng.randrange(1, N)
    if kinds is None or "number" in kinds:
        rows["number"] = ("nested.number", str(se), None, None, None)
    if kinds is None or "seed" in kinds:
        rows["seed"] = ("nested.seed", "H:" + rbytes(rng, 16).hex(), None, None, None)
    if kinds is None or {"wif", "sec_text", "sec_hex"} & set(kinds):
        k = net.keys.private(se, is_compressed=bool(rng.randrange(2)))
        if P.wif is not None and (kinds is None or "wif" in kinds):
            rows["wif"] = ("nested.wif", k.wif(), ("wif", "private_key", "secret", "__call__"), "wif_text", sig(k))
        pub = k.public_copy()
        if kinds is None or "sec_text" in kinds:
            rows["sec_text"] = ("nested.sec_text", pub.as_text(), ("sec", "public_key"), "sec_text", sig(pub))
        if kinds is None or "sec_hex" in kinds:
            rows["sec_hex"] = ("nested.sec_hex", pub.sec().hex(), ("sec", "public_key"), "sec_hex", sig(pub))
    if (kinds is None or {"bip32_prv", "bip32_pub"} & set(kinds)) and P.prefix("bip32_prv") is not None and P.prefix("bip32_pub") is not None:
        nd = net.keys.bip32_seed(rbytes(rng, 16))
        if kinds is None or "bip32_prv" in kinds:
            rows["bip32_prv"] = ("nested.bip32_prv", nd.hwif(as_private=True), ("bip32_prv", "bip32", "hierarchical_key", "secret", "__call__"), "bip32_prv_text", sig(nd))
        if kinds is None or "bip32_pub" in kinds:
            rows["bip32_pub"] = ("nested.bip32_pub", nd.hwif(as_private=False), ("bip32_pub", "bip32", "hierarchical_key", "__call__"), "bip32_pub_text", sig(nd.public_copy()))
    return rows


NESTED_KINDS = ("p2pkh", "p2sh", "p2pkh_segwit", "p2sh_segwit", "p2tr", "wif", "bip32_prv", "bip32_pub", "sec_text", "sec_hex", "number", "seed")


def prefix_kinds_for(ctxL, t, x, where, S_ids):
    """kinds of L whose Base58 prefix shows the nesting (prefix identifier types), else ()."""
    out = []
    for kind, prefix in ctxL.params.b58_prefixes():
        w = prefix.hex() if t == "prefix_hex" else prefix.decode("latin-1")
        rest = w[len(x):] if where == "tail" else w[:-len(x)]
        if (w.startswith(x) if where == "tail" else w.endswith(x)) and rest in S_ids.get(t, ()):
            out.append(kind if kind in NESTED_KINDS else "bip32_prv" if kind.endswith("prv") else "bip32_pub")
    return out


class HistoryRec(object):
    """the recorder, for calls judged after other calls of a history: a violation found there is named after the kind of
    history as well (the same text may well be answered rightly by a process that was not asked the other things)."""

    def __init__(self, rec, tag):
        self._rec, self._tag = rec, tag

    def __getattr__(self, name):
        return getattr(self._rec, name)

    def violation(self, mech, *a, **kw):
        return self._rec.violation("%s.%s" % (self._tag, mech), *a, **kw)


HISTORY_TAG = {"text": "after_other_network", "junk": "after_refused_call", "longrun": "longrun"}


def with_prelude(ctx, prelude, f, *a, **kw):
    """f(*a) with ctx.prelude set (it goes into the case of every violation, for replay); the recorder among `a` names
    violations after the kind of prelude."""
    ctx.prelude = prelude
    if prelude:
        a = tuple(HistoryRec(x, HISTORY_TAG[prelude[0][0]]) if hasattr(x, "viol_count") else x for x in a)
    try:
        return f(*a, **kw)
    finally:
        ctx.prelude = None


def run_nested(ctxL, spec, rec, rng):
    contexts = all_contexts()
    quick = spec.get("scale", 1) == 1
    good = set(ctxL.usable_codes)
    mine = [p for p in nested_pairs(contexts) if p[2] == ctxL.sym]
    if quick:
        # the Base58-prefix nestings are many (a one-byte prefix begins many four-byte ones): a third of them per run,
        # at least one of each spelling for every network that has any
        kept, have = [], set()
        for p in mine:
            if p[0] not in ("prefix_hex", "prefix_raw") or rng.random() < 0.3 or p[0] not in have:
                kept.append(p)
                have.add(p[0])
        mine = kept
    for n, (t, S, L, where, x) in enumerate(mine):
        rec.require("nested.id." + t)
        if S not in good or L not in good:
            rec.ev("nested.pair_without_text_model")
            rec.ev("nested.id." + t)            # nothing can be built for a network whose checksum cannot be computed
            continue
        ctxS = contexts[S]
        if t in WIDE_ID_TYPES and quick:
            own = prefix_kinds_for(ctxL, t, x, where, identifiers(ctxS)) if t != "subnet_name" else ["p2pkh"]
            kinds = set(own[:1]) | {NESTED_KINDS[(n + rng.randrange(len(NESTED_KINDS))) % len(NESTED_KINDS)]}
        else:
            kinds = None
        rec.require("nested.order.long_first", "nested.order.short_first", "nested.long_side_judged", "nested.short_side_judged")
        for order in ("long_first", "short_first"):
            rows = genuine_texts(ctxL, rng, kinds)
            for kind in sorted(rows):
                cls, T, eps, label, expect = rows[kind]
                other = x + T if where == "lead" else T + x
                rec.case(("nested", S, L, where, x, order, kind), nontrivial=True, n=0)

                def long_side(prelude):
                    with_prelude(ctxL, prelude, run_text, ctxL, cls, T, rec, must_eps=eps, must=label, expect=expect)
                    rec.ev("nested.long_side_judged")

                def short_side(prelude):
                    with_prelude(ctxS, prelude, run_text, ctxS, "nested.partner_text." + where, other, rec)
                    rec.ev("nested.short_side_judged")
                if order == "long_first":
                    long_side(None)
                    short_side([["text", L, T]])
                else:
                    short_side(None)
                    long_side([["text", S, other]])
            rec.ev("nested.order." + order)
        # the other direction: a genuine text of S that itself begins with x, and its remainder given to L
        if where == "lead" and all(ch in RB.ALPHABET for ch in x):
            PS = ctxS.params
            forms = [(k, PS.prefix(k), 20, b"") for k in KT.B58_ADDR_KINDS if PS.prefix(k) is not None]
            if PS.wif is not None:
                forms.append(("wif", PS.wif, 33, b"\x01"))
            for order in ("long_first", "short_first"):
                for kind, prefix, blen, tail in forms:
                    body = SH.body_with_lead(prefix, blen, x, rng, tail=tail)
                    if body is None or (kind == "wif" and not 1 <= int.from_bytes(body[:32], "big") < N):
                        continue
                    T = RB.encode_check(prefix + body)
                    rec.ev("nested.genuine_short_text_begins_with_x")
                    must = {}
                    if kind != "wif" and not (PS.p2sh == PS.p2pkh):
                        must = dict(must_eps=(kind, "address", "payable", "__call__"), must=kind + "_address", expect=("contract", KT.script_for(kind, body)))
                    steps = [(ctxS, T, [["text", L, T[len(x):]]], must), (ctxL, T[len(x):], [["text", S, T]], {})]
                    first, second = steps if order == "short_first" else steps[::-1]
                    with_prelude(first[0], None, run_text, first[0], "nested.strip." + kind, first[1], rec, **first[3])
                    with_prelude(second[0], second[2], run_text, second[0], "nested.strip." + kind, second[1], rec, **second[3])
        rec.ev("nested.id." + t)
        rec.ev("nested.pair")


# ---------------------------------------------------------------------------------------------
# refused calls between judged calls: an entry point given something that is no text (None, bytes, a number, a list ...)
# or a text it cannot encode (a lone surrogate) may refuse - that is never judged - but what it answers to text
# afterwards must be what it answered before, and a fresh valid text must still parse (class A). A mutable argument must
# come back unchanged, and asked twice with it the entry point answers the same (class C).

def _junk_makers():
    return (
        ("none", lambda t: None),
        ("bytes", lambda t: t.encode("utf8", "replace")),
        ("bytearray", lambda t: bytearray(t.encode("utf8", "replace"))),
        ("int", lambda t: 2 ** 64),
        ("float", lambda t: 1.5),
        ("list", lambda t: [t]),
        ("dict", lambda t: {t: t}),
        ("surrogate_text", lambda t: t[:1] + "\ud800" + t[1:]),
        ("str_tuple", lambda t: (t, t)),
    )


JUNK = _junk_makers()


def fallback_probe(ep, rng):
    se = rng.randrange(1, N)
    return {"secret_exponent": str(se), "as_number": str(se), "public_pair": "%d/even" % X_POINT, "bip32_seed": "H:" + rbytes(rng, 16).hex(),
            "hd_seed": "H:" + rbytes(rng, 16).hex(), "electrum_seed": "E:%064x" % se, "electrum_prv": "E:%064x" % se,
            "electrum_pub": "E:%064x%064x" % KT.pubpoint(se), "script": "OP_DUP OP_HASH160 [%s] OP_EQUALVERIFY OP_CHECKSIG" % rbytes(rng, 20).hex()}.get(ep, str(se))


def run_errorpath(ctx, rec, rng, valid):
    probes = {}
    for cls, text, eps, label, expect in valid:
        for ep in eps or ():
            probes.setdefault(ep, []).append((text, label, expect))
    if "parse_b58_hashed" in ctx.fn:
        probes["parse_b58_hashed"] = [(r[1], None, None) for r in valid if r[3] and (r[3].endswith("_address") or r[3] == "wif_text") and not r[3].endswith("segwit_address") and r[3] != "p2tr_address"][:4]
    njunk = 3 if ctx.quick else len(JUNK)
    for j, ep in enumerate(ctx.eps):
        fn = ctx.fn[ep]
        rows = probes.get(ep) or [(fallback_probe(ep, rng), None, None)]
        t1 = rng.choice(rows)[0]
        before = outcome(fn, t1)
        start = rng.randrange(len(JUNK))
        for k in range(njunk):
            name, mk = JUNK[(start + k) % len(JUNK)]
            val = mk(t1)
            keep = bytearray(val) if isinstance(val, bytearray) else list(val) if isinstance(val, list) else dict(val) if isinstance(val, dict) else None
            o1 = outcome(fn, val)
            rec.ev("errorpath.junk." + name)
            rec.ev("errorpath.refused_call" if o1[0] == "exc" else "errorpath.nontext_answered")
            case = {"errorpath": name, "net": ctx.sym, "ep": ep, "text": "t:" + t1}
            if keep is not None:
                rec.ev("argument.mutable_judged")
                if val != keep:
                    rec.violation("argument.%s.caller_owned_%s_modified" % (ep, name), case, repr(val)[:200], repr(keep)[:200])
                    continue
                o2 = outcome(fn, val)
                if o2 != o1:
                    rec.violation("argument.%s.second_call_with_same_%s_differs" % (ep, name), case, o2, o1)
                    continue
            after = outcome(fn, t1)
            rec.ev("errorpath.answer_compared")
            if after != before:
                rec.violation("errorpath.%s.answer_changes_after_refused_call" % ep, case, after, before)
                break
            t2, m2, e2 = rng.choice(rows)
            with_prelude(ctx, [["junk", ctx.sym, ep, name, t1]], judge, ctx, ep, t2, KT.analyse(ctx.params, t2), rec, must=m2, expect=e2)
            rec.ev("errorpath.next_call_judged")


# ---------------------------------------------------------------------------------------------
# returned containers edited by the caller (class C): Contract.info() hands out the dict the contract is made of. A caller
# that edits it must not change what the parser answers to the same text (plain, or the same text object) later.

def vandalise(obj, rng):
    """edit every mutable container a public accessor of the returned object hands out -> number of containers edited."""
    n = 0
    for name in ("info",):
        f = getattr(obj, name, None)
        st, d = observe(f) if callable(f) else ("exc", None)
        if st == "ok" and isinstance(d, dict):
            for k in list(d):
                v = d[k]
                if isinstance(v, (bytes, bytearray)) and len(v):
                    d[k] = bytes(b ^ 0x5a for b in v)
                elif isinstance(v, str):
                    d[k] = v + "x"
                elif isinstance(v, int) and not isinstance(v, bool):
                    d[k] = v + 1
                elif isinstance(v, list):
                    v.append(v[0] if v else 0)
            d["vmon"] = b"edited"
            n += 1
        elif st == "ok" and isinstance(d, (list, bytearray, set)):
            d.clear()
            n += 1
    return n


def run_vandal(ctx, rec, rng, valid):
    rows, seen = [], set()
    order = list(valid)
    rng.shuffle(order)
    for cls, text, eps, label, expect in order:
        if label and label.endswith("_address") and expect is not None and (label not in seen or not ctx.quick):
            seen.add(label)
            rows.append((text, eps, expect))
    if "script" in ctx.fn:
        h = rbytes(rng, 20)
        rows.append(("OP_DUP OP_HASH160 [%s] OP_EQUALVERIFY OP_CHECKSIG" % h.hex(), ("script", "payable", "__call__"), None))
    mk = getattr(ctx.net, "parseable_str_type", None)
    for text, eps, expect in rows:
        for ep in eps:
            fn = ctx.fn.get(ep)
            if fn is None:
                continue
            for arg in (text, mk(text)) if mk is not None else (text,):
                st, v = observe(fn, arg)
                if st != "ok" or v is None:
                    continue            # judged elsewhere
                before = observe(sig, v)
                if not vandalise(v, rng):
                    rec.ev("returned.no_mutable_container")
                    continue
                rec.ev("returned.container_edited")
                after = outcome(fn, arg)
                want = ("ok", tuple(expect)) if expect is not None else before
                if after != want:
                    rec.violation("returned.%s.caller_edit_changes_later_answer" % ep,
                                  {"vandal": True, "net": ctx.sym, "ep": ep, "text": "t:" + text, "shared": arg is not text}, after, want)


# ---------------------------------------------------------------------------------------------
# the N-th operation (class B): ONE network.parse object asked more than 2**16 + 100 times through each of its cheap
# dispatching entry points, ONE text object asked as often, every answer judged against the incremental reference
# (hash i -> text by the reference codec -> expected script), with returns to texts asked 1, 2, 4095 ... 65537 calls ago.

LONGRUN_BACK = (1, 2, 255, 256, 257, 4095, 4096, 4097, 65535, 65536, 65537)
LONGRUN_CHECKPOINTS = (255, 256, 4095, 4096, 4097, 8192, 16384, 32768, 65535, 65536, 65537)


def longrun_text(P, base, i):
    """-> (kind, text, script) of step i: mostly P2PKH, every eighth a P2SH, every eighth a v0 segwit address."""
    h = ((base + i * 0x9e3779b97f4a7c15) & ((1 << 160) - 1)).to_bytes(20, "big")
    r = i & 7
    if r == 5 and P.p2sh is not None and P.p2sh != P.p2pkh:
        return "p2sh", RB.encode_check(P.p2sh + h), KT.script_p2sh(h)
    if r == 6 and P.hrp:
        return "p2pkh_segwit", R32.segwit_encode(P.hrp, 0, h), KT.script_witness(0, h)
    return "p2pkh", RB.encode_check(P.p2pkh + h), KT.script_p2pkh(h)


def run_longrun(spec, rec, stop=None, base=None, code=None):
    import contextlib
    import io
    good, skipped = usable_networks()
    with contextlib.redirect_stdout(io.StringIO()):
        contexts = all_contexts()
    usable = [s for s, _ in good if contexts[s].params.p2pkh is not None and contexts[s].params.wif is not None]
    if code is None:
        code = "BTC" if "BTC" in usable else (usable[0] if usable else None)
    if code is None:
        rec.require("longrun.network_available")
        return
    ctx = contexts[code]
    ctx.quick = True
    ctx.usable_codes = tuple(s for s, _ in good)
    P = ctx.params
    Key, BIP32Node, BIP49Node, BIP84Node, ElectrumWallet, Contract = _classes()
    rng = shard_rng(spec["seed"], PROPERTY, spec["tier"], "longrun")
    if base is None:
        base = rng.getrandbits(160)
    total = (2 ** 16 if spec.get("tier") == "quick" else 2 ** 17) + 128
    if stop is not None:
        total = min(total, stop)
    eps = [e for e in ("address", "payable", "__call__") if e in ctx.fn]
    fns = [(e, ctx.fn[e]) for e in eps]
    specific = {k: ctx.fn.get(k) for k in ("p2pkh", "p2sh", "p2pkh_segwit")}
    for e in eps:
        rec.require("longrun.ops." + e)
    rec.require("longrun.ops.text_object", "longrun.ops.revisit", "longrun.ops.invalid", "longrun.beyond_2_16", "longrun.checkpoint")
    mk = getattr(ctx.net, "parseable_str_type", None)
    k0, t0, s0 = longrun_text(P, base, 0)
    shared = mk(t0) if mk is not None else None
    valid = None
    nviol = [0]
    counts = {}

    def bad(mech, ep, i, text, got, want):
        nviol[0] += 1
        rec.violation(mech, {"longrun": True, "net": code, "ep": ep, "index": i, "base": "%040x" % base, "text": "t:" + text}, got, want)

    def ask(label, ep, fn, arg, i, text, script):
        counts[label] = counts.get(label, 0) + 1
        try:
            v = fn(arg)
        except Exception as e:      # noqa
            bad("longrun.%s.raises" % ep, ep, i, text, e, "an object or None")
            return
        if script is None:
            if v is not None:
                if RB.decode_check(text) is not None:
                    rec.ev("inconclusive:longrun_invalid_text_is_valid")
                else:
                    bad("longrun.%s.accepts_invalid_text" % ep, ep, i, text, observe(sig, v)[1], None)
            return
        if v is None:
            bad("longrun.%s.refuses_valid_text" % ep, ep, i, text, None, ("contract", script))
        elif not isinstance(v, Contract) or v.script() != script:
            bad("longrun.%s.returns_other_object" % ep, ep, i, text, observe(sig, v)[1], ("contract", script))

    wif_eps = [e for e in ("private_key", "wif", "secret") if e in ctx.fn]
    for i in range(total):
        kind, text, script = longrun_text(P, base, i)
        for ep, fn in fns:
            ask(ep, ep, fn, text, i, text, script)
        if shared is not None:
            ask("text_object", "p2pkh", specific["p2pkh"], shared, i, t0, s0)
        if i & 3 == 1:
            d = LONGRUN_BACK[(i >> 2) % len(LONGRUN_BACK)]
            j = i - d if i >= d else i // 2
            k2, text2, script2 = longrun_text(P, base, j)
            ep, fn = fns[(i >> 2) % len(fns)]
            ask("revisit", ep, fn, text2, i, text2, script2)
        if i & 7 == 2:
            last = text[-1]
            wrong = text[:-1] + ("q" if last != "q" else "p") if kind == "p2pkh_segwit" else text[:-1] + ("2" if last != "2" else "3")
            ask("invalid", "address", ctx.fn["address"], wrong, i, wrong, None)
            if specific.get(kind):
                ask("invalid", kind, specific[kind], wrong, i, wrong, None)
        if i & 7 == 4 and wif_eps:
            se = (base + i) % (N - 1) + 1
            comp = bool(i & 8)
            wt = KT.wif_text(P, se, comp)
            ep = wif_eps[0] if (i >> 4) % 8 else wif_eps[(i >> 7) % len(wif_eps)]
            counts["wif." + ep] = counts.get("wif." + ep, 0) + 1
            st, v = observe(ctx.fn[ep], wt)
            if st == "exc":
                bad("longrun.%s.raises" % ep, ep, i, wt, v, "a key")
            elif v is None:
                bad("longrun.%s.refuses_valid_text" % ep, ep, i, wt, None, ("key", se, comp))
            elif not isinstance(v, Key) or v.secret_exponent() != se or bool(v.is_compressed()) != comp:
                bad("longrun.%s.returns_other_object" % ep, ep, i, wt, observe(sig, v)[1], ("key", se, comp))
        if i in LONGRUN_CHECKPOINTS or i == total - 1:
            # every entry point, every kind of text, judged by the full model, at the counts where a table may turn over
            if valid is None:
                vr = shard_rng(spec["seed"], PROPERTY, spec["tier"], "longrun", "valid")
                rows, seen = valid_workload(ctx, vr, 1), set()
                valid = [r for r in rows if not (r[3] in seen or seen.add(r[3]))]
            with contextlib.redirect_stdout(io.StringIO()):
                for cls, t, e, label, expect in valid:
                    with_prelude(ctx, [["longrun", code, i, "%040x" % base]], run_text, ctx, "longrun.checkpoint", t, rec, must_eps=e, must=label, expect=expect)
            rec.ev("longrun.checkpoint")
        if i & 1023 == 1023:
            rec.case(("longrun", code, i), nontrivial=True, n=1024)
        if nviol[0] >= 6:
            break
    else:
        if total > 2 ** 16 + 100:
            rec.ev("longrun.beyond_2_16")
    for k, n in counts.items():
        if k in eps or k == "text_object":
            # counted only when the resource really was used more than 2**16 + 100 times
            rec.ev("longrun.ops." + k, n if n > 2 ** 16 + 100 or stop is not None else 0)
        else:
            rec.ev("longrun.ops." + k, n)
    rec.sample({"longrun": code, "operations": counts}, limit=5)


REFUSAL_REASONS = ("length", "range", "marker", "keybyte", "keytype", "point", "segwit")


def returning_entry_points(contexts, codes):
    """entry points that have something to return on at least one of the networks `codes`: every free-form parser and
    catch-all, and the parser of each checksummed kind that some network declares a prefix / HRP for."""
    ps = [contexts[c].params for c in codes if c in contexts]
    out = set(k for k in MIXED if k != "__call__") | {"__call__", "parse_b58_hashed", "address"}
    for kind in KT.B58_ADDR_KINDS + ("wif",) + KT.BIP_KINDS:
        if any(P.prefix(kind) is not None for P in ps):
            out.add(kind)
            if kind in KT.BIP_KINDS:
                out.add(kind.split("_")[0])
    if any(P.hrp for P in ps):
        out.update(KT.SEGWIT_KINDS)
    return out


def shares_prefix_between_kinds(P):
    """two different checksummed kinds of the network carry prefixes one of which begins with the other (not: one and the
    same prefix for P2PKH and P2SH, whose texts nothing can tell apart)."""
    pf = P.b58_prefixes()
    return any((pa.startswith(pb) or pb.startswith(pa)) and not (pa == pb and {a, b} == {"p2pkh", "p2sh"})
               for i, (a, pa) in enumerate(pf) for b, pb in pf[i + 1:])


# ---------------------------------------------------------------------------------------------
# networks configured on another curve (create_bitcoinish_network(..., generator=...)): "all networks" in the statement
# includes every legal configuration, and every curve-dependent decision of a parser (coordinate range, point
# membership, exponent range, SEC decompression, extended-key and electrum key validation) belongs to the network's own
# curve. The text model of the registered networks is written for secp256k1, so these networks get a small oracle of
# their own, parametrised by the independent reference curve (vmon/refs/ec.py).

CURVE_CONFIGS = (
    # label, generator, reference curve of the network, reference of the curve it is not on, builder kwargs
    ("r1-btc", "secp256r1", "SECP256R1", "SECP256K1",
     dict(symbol="RAC", network_name="R1coin", subnet_name="mainnet", wif_prefix_hex="80", address_prefix_hex="00",
          pay_to_script_prefix_hex="05", bip32_prv_prefix_hex="0488ade4", bip32_pub_prefix_hex="0488b21e", bech32_hrp="ra")),
    ("r1-alt", "secp256r1", "SECP256R1", "SECP256K1",
     dict(symbol="RBT", network_name="R1coin", subnet_name="testnet", wif_prefix_hex="ef", address_prefix_hex="6f",
          pay_to_script_prefix_hex="c4", bip32_prv_prefix_hex="04358394", bip32_pub_prefix_hex="043587cf",
          bip49_prv_prefix_hex="044a4e28", bip49_pub_prefix_hex="044a5262", bip84_prv_prefix_hex="045f18bc",
          bip84_pub_prefix_hex="045f1cf6")),
    # control: the same builder and the same oracle with the default curve handed over explicitly
    ("k1-cfg", "secp256k1", "SECP256K1", "SECP256R1",
     dict(symbol="KCF", network_name="K1coin", subnet_name="mainnet", wif_prefix_hex="b0", address_prefix_hex="30",
          pay_to_script_prefix_hex="32", bip32_prv_prefix_hex="019d9cfe", bip32_pub_prefix_hex="019da462", bech32_hrp="kc")),
)
CURVE_REQUIRED = (["curve.net." + c[0] for c in CURVE_CONFIGS] +
                  ["curve.call", "curve.returned", "curve.object_checked_on_reference_curve", "curve.faithful.ok",
                   "curve.pair.own_point_judged", "curve.pair.own_point_returned", "curve.pair.point_of_other_curve_judged",
                   "curve.pair.x_between_field_primes_judged", "curve.exponent.between_orders_judged",
                   "curve.exponent.own_returned", "curve.wif.between_orders_judged", "curve.wif.own_returned",
                   "curve.sec.point_of_other_curve_judged", "curve.sec.own_returned", "curve.bip32.key_of_other_curve_judged",
                   "curve.bip32.own_returned", "curve.electrum.key_of_other_curve_judged", "curve.must.judged"])
_CURVE_NETS = {}
_CURVE_MUL = {}


def curve_context(label):
    """-> Ctx of the network configured as CURVE_CONFIGS[label] in the tree under test (with .curve / .other = reference
    curves, .label), or None when that tree's builder does not put the network on the curve it was handed."""
    if label in _CURVE_NETS:
        return _CURVE_NETS[label]
    import importlib
    from pycoin.networks.bitcoinish import create_bitcoinish_network
    row = [c for c in CURVE_CONFIGS if c[0] == label][0]
    gen = getattr(importlib.import_module("pycoin.ecdsa." + row[1]), row[1] + "_generator")
    kw = dict(row[4])
    net = create_bitcoinish_network(kw.pop("symbol"), kw.pop("network_name"), kw.pop("subnet_name"), generator=gen, **kw)
    ctx = make_ctx(row[4]["symbol"], net)
    ctx.label, ctx.curve, ctx.other = label, getattr(REC, row[2]), getattr(REC, row[3])
    _CURVE_NETS[label] = ctx
    return ctx


def curve_case(ctx, ep, text, must, expect):
    c = case_of(ctx, ep, text, must, expect)
    c["curve"] = ctx.label
    return c


def curve_object_fault(ctx, v, s):
    """what is wrong with a returned key / node / wallet as an object of a network on ctx.curve, or None."""
    Cv = ctx.curve
    if s[0] == "key":
        se, pair = s[1], s[2]
    elif s[0] == "electrum":
        se, pair = s[1], s[2]
    elif s[0] == "node":
        se = s[7] if s[2] else None
        pair = tuple(v.public_pair())
    else:
        return None
    if se is not None and not (isinstance(se, int) and 1 <= se < Cv.n):
        return "exponent_out_of_range"
    if not (len(pair) == 2 and all(isinstance(c, int) and 0 <= c < Cv.p for c in pair) and Cv.on_curve(pair)):
        return "public_point_not_on_the_networks_curve"
    if se is not None:
        want = _CURVE_MUL.get((Cv.name, se))
        if want is None:
            want = _CURVE_MUL[(Cv.name, se)] = Cv.mul(se, Cv.G)
        if pair != want:
            return "public_point_is_not_exponent_times_generator"
    return None


def judge_curve(ctx, ep, text, rec, must=None, expect=None):
    """one call of one entry point of a curve-configured network: total; the returned object is an object of the
    network's curve (reference arithmetic); a public-pair text is not answered with another point; pycoin's own text
    comes back as the object it was made from; faithful."""
    Cv = ctx.curve
    fn = ctx.fn[ep]
    rec.ev("curve.call")
    rec.ev("curve.parse." + ep)
    if must:
        rec.ev("curve.must.judged")
    st, v = observe(fn, text)
    if st == "exc":
        rec.violation("curve.total.%s.%s" % (ep, type(v).__name__), curve_case(ctx, ep, text, must, expect), v, "an object or None")
        return
    if v is None:
        if must:
            rec.violation("curve.valid.%s_not_parsed_by.%s" % (must, ep), curve_case(ctx, ep, text, must, expect), None,
                          "the object this text was produced from")
        return
    rec.ev("curve.returned")
    rec.ev("curve.returned." + ep)
    st, s = observe(sig, v)
    if st == "exc":
        rec.violation("curve.%s.returned_object_unusable" % ep, curve_case(ctx, ep, text, must, expect), s, "an object with readable fields")
        return
    if s[0] in ("key", "node", "electrum"):
        rec.ev("curve.object_checked_on_reference_curve")
        st, fault = observe(curve_object_fault, ctx, v, s)
        if st == "exc":
            fault = "public_point_unreadable"
        if fault:
            rec.violation("curve.%s.%s" % (ep, fault), curve_case(ctx, ep, text, must, expect), s, "an object of the network's own curve (%s)" % Cv.name)
            return
    if expect is not None and must and tuple(expect) != s:
        rec.violation("curve.valid.%s_parsed_to_other_object.%s" % (must, ep), curve_case(ctx, ep, text, must, expect), s, expect)
        return
    if ep == "secret_exponent" and s[0] == "key" and text.isascii() and text.isdigit() and text[:1] != "0" and len(text) < 100 and s[1] != int(text):
        # a plain decimal numeral denotes that number (same reading as for the registered networks)
        rec.violation("curve.secret_exponent.decimal_value_differs", curve_case(ctx, ep, text, must, expect), s, ["key", int(text)])
        return
    if ep in ("public_pair", "public_key") and s[0] == "key":
        named = curve_pair_reading(text)
        if named is not None:
            x, y = named
            got = s[2]
            if got[0] != x or (y in ("even", "odd") and (got[1] & 1) != (y == "odd")) or (isinstance(y, int) and got[1] != y):
                rec.violation("curve.%s.point_differs_from_text" % ep, curve_case(ctx, ep, text, must, expect), s, [x, y])
                return
            rec.ev("curve.pair.value_matches_text")
    # ---- faithful (the same reading as for the registered networks)
    st, cands = observe(reserialisations, ep, v, rec)
    if st == "exc":
        rec.violation("curve.faithful.%s.reserialise_raises" % ep, curve_case(ctx, ep, text, must, expect), cands, "text")
        return
    if not cands:
        return
    why, results = None, []
    for t2, rep in cands:
        if not isinstance(t2, str):
            why = why or "reserialise_not_text"
            results.append([t2, None])
            continue
        if rep not in ctx.fn:
            return
        if rep == ep and t2 == text:
            rec.ev("curve.faithful.ok")
            return
        st2, w = observe(ctx.fn[rep], t2)
        if st2 == "exc":
            why = why or "reparse_raises"
            results.append([t2, w])
        elif w is None:
            why = why or "reparse_none"
            results.append([t2, None])
        elif observe(sig, w) != ("ok", s):
            why = why or "reparse_differs"
            results.append([t2, observe(sig, w)[1]])
        else:
            rec.ev("curve.faithful.ok")
            return
    rec.violation("curve.faithful.%s.%s" % (ep, why), curve_case(ctx, ep, text, must, expect), results, s)


def curve_pair_reading(text):
    """(x, y | 'even' | 'odd') when the text is <number><, or /><number | even | odd> with exactly one separator and both
    numbers spelled without ambiguity (plain decimal without leading zero, or 0x + hex digits), else None."""
    def num(t):
        if t.isascii() and t.isdigit() and t[:1] != "0":
            return int(t)
        if t[:2] == "0x" and len(t) > 2 and all(ch in HEXD for ch in t[2:]):
            return int(t[2:], 16)
        return None
    seps = [ch for ch in text if ch in ",/"]
    if len(seps) != 1:
        return None
    s0, s1 = text.split(seps[0])
    x = num(s0)
    y = s1 if s1 in ("even", "odd") else num(s1)
    return None if x is None or y is None else (x, y)


def curve_pair_spellings(x, y):
    par, rap = ("odd", "even") if y & 1 else ("even", "odd")
    return ["%d,%d" % (x, y), "%d/%d" % (x, y), "%x,%x" % (x, y), "%x/%x" % (x, y), "0x%x,0x%x" % (x, y), "0x%x/%d" % (x, y),
            "%d/%s" % (x, par), "%d,%s" % (x, rap), "%x/%s" % (x, rap), "0x%x,%s" % (x, par)]


def curve_workload(ctx, rng, scale):
    """-> rows (class, text, entry points that must accept or None, label, expected signature, counters)."""
    Cv, Co, P = ctx.curve, ctx.other, ctx.params
    net = ctx.net
    rows = []

    def add(cls, text, must_eps=None, must=None, expect=None, evs=()):
        rows.append((cls, text, must_eps, must, expect, tuple(evs)))

    lo_n, hi_n = sorted((Cv.n, Co.n))
    lo_p, hi_p = sorted((Cv.p, Co.p))
    own_es = [1, 2, Cv.n - 1] + [rng.randrange(1, Cv.n) for _ in range(2 * scale)]
    oth_es = [1, 2, 3, Co.n - 1] + [rng.randrange(1, Co.n) for _ in range(2 * scale)]
    # ---- public pairs
    for e in own_es:
        pt = Cv.mul(e, Cv.G)
        for t in curve_pair_spellings(*pt):
            add("curve.pair.own_point", t, evs=["curve.pair.own_point_judged"])
        add("curve.pair.own_point_negated", "%d,%d" % (pt[0], Cv.p - pt[1]))
        add("curve.pair.own_point_off_by_one", "%d,%d" % (pt[0], pt[1] ^ 1))
        add("curve.pair.own_point_unreduced", "%d,%d" % (pt[0] + Cv.p, pt[1]))
        add("curve.pair.own_point_unreduced", "%d/%s" % (pt[0] + Cv.p, "odd" if pt[1] & 1 else "even"))
    for e in oth_es:
        pt = Co.mul(e, Co.G)
        if Cv.on_curve(pt):
            continue
        for t in curve_pair_spellings(*pt):
            add("curve.pair.point_of_other_curve", t, evs=["curve.pair.point_of_other_curve_judged"])
    xs = [lo_p - 1, lo_p, lo_p + 1, hi_p - 1, hi_p, hi_p + 1] + [rng.randrange(lo_p, hi_p) for _ in range(3 * scale)]
    for x in xs:
        ev = ["curve.pair.x_between_field_primes_judged"] if lo_p <= x < hi_p else []
        for par in ("even", "odd"):
            add("curve.pair.x_at_field_prime", "%d/%s" % (x, par), evs=ev)
            add("curve.pair.x_at_field_prime", "%x,%s" % (x, par), evs=ev)
        for C2 in (Cv, Co):
            pts = C2.lift_x(x % C2.p)
            if pts:
                add("curve.pair.x_at_field_prime", "%d,%d" % (x, pts[0][1]), evs=ev)
                add("curve.pair.x_at_field_prime", "%d/%d" % (pts[1][0], x), evs=ev)
    # ---- secret exponents: numbers, WIF, electrum, extended private keys around both group orders
    es = [0, 1, lo_n - 1, lo_n, lo_n + 1, hi_n - 1, hi_n, hi_n + 1, 2 ** 256 - 1] + [rng.randrange(lo_n, hi_n) for _ in range(3 * scale)]
    chain = rbytes(rng, 32)
    for e in es:
        between = lo_n <= e < hi_n
        for t in ("%d" % e, "%x" % e, "0x%x" % e):
            add("curve.exponent.number", t, evs=["curve.exponent.between_orders_judged"] if between else [])
        add("curve.exponent.electrum", "E:%064x" % e, evs=["curve.electrum.key_of_other_curve_judged"] if between else [])
        if P.wif is not None:
            for comp in (True, False):
                add("curve.exponent.wif", KT.wif_text(P, e, comp), evs=["curve.wif.between_orders_judged"] if between else [])
        for k in KT.BIP_KINDS:
            if k.endswith("_prv") and P.prefix(k) is not None:
                add("curve.exponent.%s" % k, RB.encode_check(P.prefix(k) + KT.node_blob(1, b"\x01\x02\x03\x04", 5, chain, se=e)),
                    evs=["curve.bip32.key_of_other_curve_judged"] if between else [])
    # ---- public keys of the other curve in SEC, extended public keys, electrum public keys
    for e in oth_es:
        pt = Co.mul(e, Co.G)
        if Cv.on_curve(pt):
            continue
        for comp in (True, False):
            sec = KT.sec_of(pt, comp)
            add("curve.sec.point_of_other_curve", sec.hex(), evs=["curve.sec.point_of_other_curve_judged"])
            if P.sec_prefix:
                add("curve.sec.point_of_other_curve", P.sec_prefix + sec.hex(), evs=["curve.sec.point_of_other_curve_judged"])
        add("curve.electrum.point_of_other_curve", "E:%064x%064x" % pt, evs=["curve.electrum.key_of_other_curve_judged"])
        for k in KT.BIP_KINDS:
            if k.endswith("_pub") and P.prefix(k) is not None:
                add("curve.%s.point_of_other_curve" % k, RB.encode_check(P.prefix(k) + KT.node_blob(2, b"\x0a\x0b\x0c\x0d", 7, chain, point=pt)),
                    evs=["curve.bip32.key_of_other_curve_judged"])
    # ---- the network's own objects, serialised by pycoin: must come back as the same object (reference point)
    for e in own_es:
        pt = Cv.mul(e, Cv.G)
        for comp in (True, False):
            st, k = observe(net.keys.private, e, is_compressed=comp)
            if st == "exc":
                add("curve.own_key_refused_by_key_api", "%d" % e)          # not a parser: nothing to demand of it here
                continue
            want_prv = ("key", e, pt, comp)
            want_pub = ("key", None, pt, comp)
            if P.wif is not None:
                add("curve.valid.wif", k.wif(), ("wif", "private_key", "secret", "__call__"), "wif_text", want_prv, ["curve.wif.own_returned"])
            pub = k.public_copy()
            add("curve.valid.sec_text", pub.as_text(), ("sec", "public_key"), "sec_text", want_pub, ["curve.sec.own_returned"])
            add("curve.valid.sec_hex", pub.sec().hex(), ("sec", "public_key"), "sec_hex", want_pub, ["curve.sec.own_returned"])
        add("curve.exponent.own", "%d" % e)
        add("curve.electrum.own_point", "E:%064x%064x" % pt)
        add("curve.electrum.own_exponent", "E:%064x" % e)
    for i in range(1 + scale):
        m = net.keys.bip32_seed(rbytes(rng, 16))
        node = m if i == 0 else m.subkey_for_path(rng.choice(["0", "1H", "44H/0H/0H/1/7", "2147483647H/2147483647"]))
        blob = node.serialize(as_private=True)
        fams = [("bip32", node)]
        for fam in ("bip49", "bip84"):
            if P.prefix(fam + "_prv") is not None and P.prefix(fam + "_pub") is not None:
                fams.append((fam, getattr(net.keys, fam + "_deserialize")(b"\0\0\0\0" + blob)))
        for fam, nd in fams:
            if P.prefix(fam + "_prv") is None or P.prefix(fam + "_pub") is None:
                continue
            add("curve.valid.%s_prv" % fam, nd.hwif(as_private=True), (fam + "_prv", fam, "hierarchical_key", "secret", "__call__"),
                fam + "_prv_text", sig(nd), ["curve.bip32.own_returned"])
            add("curve.valid.%s_pub" % fam, nd.hwif(as_private=False), (fam + "_pub", fam, "hierarchical_key", "__call__"),
                fam + "_pub_text", sig(nd.public_copy()), ["curve.bip32.own_returned"])
    # ---- the general text classes of the registered networks (total, object on the curve, faithful)
    for wl in ((pair_workload, number_workload, colon_workload) if (scale > 1 or ctx.label == CURVE_CONFIGS[0][0]) else ()):
        for cls, t in wl(ctx, rng, 1):
            if cls == "colon.E.hex" and len(t) == 34:
                continue                                   # the 100,000-round key stretch: driven on the registered networks
            add("curve.general." + cls, t)
    return rows


CURVE_PAIR_EPS = ("public_pair", "public_key", "__call__")


def run_curves(spec, rec):
    import contextlib
    import io
    scale = 1 if spec.get("tier") == "quick" else 8
    for label in [c[0] for c in CURVE_CONFIGS]:
        with contextlib.redirect_stdout(io.StringIO()):
            st, ctx = observe(curve_context, label)
            if st == "exc":
                rec.ev("inconclusive:curve_network_cannot_be_built")
                rec.note("create_bitcoinish_network(generator=...) failed for %s: %r" % (label, ctx))
                continue
            st, one = observe(lambda: tuple(ctx.net.keys.private(1).public_pair()))
            if st == "exc" or one != ctx.curve.G:
                # the key API itself is not on the curve that was handed over: no statement about the parsers can be decided
                rec.ev("inconclusive:curve_network_keys_not_on_configured_curve")
                rec.note("network %s: keys.private(1).public_pair() is not the generator of %s" % (label, ctx.curve.name))
                continue
            rec.ev("curve.net." + label)
            rng = shard_rng(spec["seed"], PROPERTY, spec["tier"], "curve", label)
            for cls, text, must_eps, must, expect, evs in curve_workload(ctx, rng, scale):
                rec.case((ctx.sym, "curve", text), nontrivial=len(text) > 0, n=1)
                rec.ev("class." + cls)
                for e in evs:
                    rec.ev(e)
                for ep in ctx.eps:
                    m = must if (must_eps and ep in must_eps) else None
                    before = rec.counters.get("curve.returned." + ep, 0)
                    judge_curve(ctx, ep, text, rec, must=m, expect=expect if m else None)
                    if rec.counters.get("curve.returned." + ep, 0) > before:
                        if cls == "curve.pair.own_point" and ep == "public_pair":
                            rec.ev("curve.pair.own_point_returned")
                        elif cls == "curve.exponent.own" and ep == "secret_exponent":
                            rec.ev("curve.exponent.own_returned")


def run_shard(spec, rec):
    import contextlib
    import io
    if spec.get("longrun"):
        return run_longrun(spec, rec)
    rec.require(*CURVE_REQUIRED)
    if spec.get("curves"):
        return run_curves(spec, rec)
    good, skipped = usable_networks()
    NETS.require_registry(rec, good, skipped)
    mine = good[spec["slice"]::spec["of"]]
    with contextlib.redirect_stdout(io.StringIO()):
        all_contexts()
    for c in all_contexts().values():
        c.quick = spec.get("tier") == "quick"
        c.usable_codes = tuple(sym for sym, _ in good)
    for sym, net in mine:
        ctx = all_contexts().get(sym) or make_ctx(sym, net)
        ctx.quick = spec.get("tier") == "quick"
        ctx.usable_codes = tuple(s for s, _ in good)
        for ep in ctx.eps:
            rec.require("parse." + ep)
        rec.require("net." + sym)
        with contextlib.redirect_stdout(io.StringIO()):
            run_network(ctx, spec, rec)
    if mine:
        rec.require("reserialise.wif", "reserialise.hwif", "reserialise.address", "reserialise.as_text",
                    "reserialise.electrum_serialize", "faithful.ok", "faithful.reparse",
                    "refusal.judged", "refusal.catchall_judged", "kindsep.other_kind_judged", "kindsep.catchall_judged",
                    "kindsep.freeform_parser_judged")
        # every way a checksummed payload can be wrong (the events of all shards are added up before this is looked at)
        rec.require(*["refusal.judged." + r for r in REFUSAL_REASONS
                      if r != "segwit" or any(all_contexts()[s_].params.hrp for s_, _ in good)])
        # the faithfulness clause is only decided for an entry point that returned something: each one that can, must have
        returning = returning_entry_points(all_contexts(), [s_ for s_, _ in good])
        for sym, _ in mine:
            rec.require(*["returned." + ep for ep in all_contexts()[sym].eps if ep in returning])
        if any(shares_prefix_between_kinds(all_contexts()[sym].params) for sym, _ in mine):
            rec.require("kindsep.shared_prefix_judged")
        rec.require("reuse.samenet.step", "reuse.crossnet.step")
        rec.require("errorpath.refused_call", "errorpath.answer_compared", "errorpath.next_call_judged", "argument.mutable_judged",
                    "returned.container_edited", *["errorpath.junk." + name for name, _ in JUNK])
        if len({checksum_family(c) for c in all_contexts().values()}) > 1:
            rec.require("reuse.crossnet.other_checksum_family")
        if any(all_contexts()[sym].own_hrp_collision for sym, _ in mine if sym in all_contexts()):
            # a Base58 text of the network can begin like its own segwit addresses: such texts must have been judged
            rec.require("constructed.own_hrp")


def replay_case(case, rec):
    from pycoin.networks.registry import network_for_netcode
    text = case["text"]
    if case.get("reuse"):
        if isinstance(text, bytes):
            text = "x:" + text.hex()
        text = str(text)
        text = text[2:] if text.startswith("t:") else text
        import contextlib
        import io
        with contextlib.redirect_stdout(io.StringIO()):
            play_history(case["reuse"], case["maker"], text, [tuple(x) for x in case["steps"]], rec)
        return
    if case.get("curve"):
        if isinstance(text, bytes):
            text = "x:" + text.hex()
        text = str(text)
        text = text[2:] if text.startswith("t:") else text
        expect = case.get("expect")
        judge_curve(curve_context(str(case["curve"])), case["ep"], text, rec, must=case.get("must"),
                    expect=_restore_sig(expect) if expect is not None else None)
        return
    net = network_for_netcode(case["net"])
    ctx = make_ctx(case["net"], net)
    if isinstance(text, bytes):         # a text that itself looked like "x:<hex>" to the json restorer
        text = "x:" + text.hex()
    if isinstance(text, int):
        text = str(text)
    if text.startswith("t:"):
        text = text[2:]
    if case.get("longrun"):
        # the fault is one of count: run the same sequence again up to (and including) the reported step
        import contextlib
        import io
        with contextlib.redirect_stdout(io.StringIO()):
            spec = {"seed": 0, "tier": "quick"}
            run_longrun(spec, rec, stop=int(case["index"]) + 1, base=int(_hexstr(case["base"]), 16), code=case["net"])
        return
    if case.get("errorpath"):
        fn = ctx.fn[case["ep"]]
        before = outcome(fn, text)
        val = dict(JUNK)[case["errorpath"]](text)
        keep = bytearray(val) if isinstance(val, bytearray) else list(val) if isinstance(val, list) else dict(val) if isinstance(val, dict) else None
        o1 = outcome(fn, val)
        if keep is not None and val != keep:
            rec.violation("argument.%s.caller_owned_%s_modified" % (case["ep"], case["errorpath"]), case, repr(val)[:200], repr(keep)[:200])
        elif keep is not None and outcome(fn, val) != o1:
            rec.violation("argument.%s.second_call_with_same_%s_differs" % (case["ep"], case["errorpath"]), case, None, o1)
        elif outcome(fn, text) != before:
            rec.violation("errorpath.%s.answer_changes_after_refused_call" % case["ep"], case, outcome(fn, text), before)
        return
    if case.get("vandal"):
        fn = ctx.fn[case["ep"]]
        arg = ctx.net.parseable_str_type(text) if case.get("shared") else text
        st, v = observe(fn, arg)
        if st == "ok" and v is not None:
            before = observe(sig, v)
            vandalise(v, None)
            after = outcome(fn, arg)
            if after != before:
                rec.violation("returned.%s.caller_edit_changes_later_answer" % case["ep"], case, after, before)
        return
    for step in case.get("prelude") or ():
        # what the process had been asked before (same order), then the judged call
        step = list(step)
        import contextlib
        import io
        with contextlib.redirect_stdout(io.StringIO()):
            if step[0] == "longrun":
                run_longrun({"seed": 0, "tier": "quick"}, rec, stop=int(step[2]) + 1, base=int(_hexstr(step[3]), 16), code=step[1])
                return
            if step[0] == "text":
                t0 = step[2]
                t0 = "x:" + t0.hex() if isinstance(t0, bytes) else str(t0)
                other = make_ctx(step[1], network_for_netcode(step[1]))
                for ep in other.eps:
                    observe(other.fn[ep], t0)
            elif step[0] == "junk":
                t0 = step[4]
                t0 = "x:" + t0.hex() if isinstance(t0, bytes) else str(t0)
                observe(ctx.fn[step[2]], dict(JUNK)[step[3]](t0))
    if case.get("prelude"):
        rec = HistoryRec(rec, HISTORY_TAG[list(case["prelude"][0])[0]])
    A = KT.analyse(ctx.params, text)
    expect = case.get("expect")
    if expect is not None:
        expect = _restore_sig(expect)
    judge(ctx, case["ep"], text, A, rec, must=case.get("must"), expect=expect, deep=True)


def _hexstr(v):
    """a hex string as stored in a case (the json restorer may have turned it into bytes or an int)."""
    if isinstance(v, bytes):
        return v.hex()
    return str(v)


def _restore_sig(e):
    out = []
    for x in e:
        if isinstance(x, list):
            x = tuple(_restore_sig(x))
        out.append(x)
    return tuple(out)
