"""C09 — hierarchical key derivation follows BIP32 and commutes with going public.

Every case drives the real pycoin API (network.keys.bip32_seed / bipNN_deserialize, subkey, subkey_for_path, subkeys, children,
public_copy, hwif / as_text / repr / ku_output / serialize, network.parse.bip32/bip49/bip84 and the generic parse entry points,
ElectrumWallet.subkey) and compares what it returns with vmon/refs/bip32.py
(CKDpriv / CKDpub / serialisation written from the BIP text over vmon/refs/ec.py).
"""
import itertools
import re

from vmon.probe import shard_rng, observe
from vmon.refs import bip32 as RB
from vmon.refs import b58 as B58

PROPERTY = "C09"
PRELOAD_NETWORK_ORDERS = [["btc", "xtn", "ltc", "bch", "grs", "doge", "dash", "btg"], ["btg", "grs", "bch", "doge", "ltc", "xtn", "btc"]]
LEVEL = "exploration"
TECHNIQUE = ("differential runtime monitor of BIP32/49/84 nodes vs a from-the-BIP reference at every derivation step; "
             "public/private commutation, text round trip per network (every documented parse entry point), path spellings, "
             "sub-key cache histories vs fresh nodes with read-only queries / failing calls interleaved on every reused node; "
             "every spelling that yields the text form (hwif, as_text, repr/str, ku_output*, serialize) on every flavour and origin of node; "
             "one history over several related node objects (moved between networks with override_network, cached children, public copies) with "
             "refused calls and caller-owned buffers in between; one long run of more than 2^16 distinct children of ONE node judged by "
             "incremental references (hash step per child, running point sum per block); one cached text object (parseable_str) "
             "offered to several networks' parsers before / between the owning network's parses")
RULE = ("cases: (network, seed of 16..64 bytes incl. the BIP vectors, path of depth 0..8 (one of depth 255) with indices "
        "biased to 0,1,255,256,2^16,2^24-1,2^24,2^31-1, hardened or not, hardened steps spelled H/p/') -> all fields and both "
        "texts vs the reference, step-wise vs path derivation, commutation with public_copy on the non-hardened tail, "
        "hardened-from-public refusal, text round trip; synthetic extended keys with boundary fields on every network "
        "defining bip32/bip49/bip84 prefixes; range expressions through subkeys(); call histories (index, hardened, "
        "as_private) with repeats on one shared node compared call by call with a fresh node and the reference; in two "
        "thirds of the derive / history cases and half of the synthetic ones, 0..3 operations drawn from the catalogue "
        "QUERIES (every non-deriving public method of a node with each value of its optional arguments: fingerprint / "
        "hash160 / sec / address / wif compressed, uncompressed, default; hwif / serialize private, public, default; "
        "ku_output*, repr, sign, verify, public_copy, override_network, '.pub', children(), and calls that fail: negative / "
        "too large index, malformed paths, hardened on public) are issued FIRST on the master, on every intermediate node, "
        "on both sides of the commutation, on the shared node between calls, on each child handed out (it stays cached) "
        "and on the late public copy; children(max_level, start_index, include_hardened) as a derivation entry point; "
        "one path asked of one node with and without the '.pub' suffix in either order; "
        "child texts re-parsed through parse.<bip>, <bip>_prv/_pub, hierarchical_key, secret, parse(text); Electrum "
        "wallets private vs public; kind 'text': (flavour bip32/49/84 weighted to 49/84, network defining it, seed, path of depth 0..6, "
        "origin of the root: bip32_seed / 'H:<hex>' seed text / <bip>_deserialize / each parse entry point, way of deriving: "
        "subkey_for_path / subkey steps / subkeys() / children()) -> on the node, the root, its public_copy, the '.pub' node, the "
        "as_private=False child of the private parent and the child of a public-only ancestor read from text or blob: ALL text "
        "spellings (hwif / as_text with as_private default, keyword, positional, True, False; repr, str, format; ku_output, "
        "ku_output_for_hk; serialize default / True / False) in a shuffled order with repeats as one history, then both texts "
        "read back through parse.<bip>, <bip>_prv/_pub, hierarchical_key, secret, parse(text) and <bip>_deserialize: same "
        "fields, same texts by the spellings again, and a further child of the node read back. Distinct by (kind, network, seed, path / fields / call list / queries); non-trivial when at least "
        "one child derivation or one parse is involved (depth-0 master-only cases are trivial). "
        "kind 'objs': (flavour, source network, destination network biased to pairs whose bip32 prefixes differ, third network, seed, base path, "
        "private / public-only, root from a bytearray seed / bytearray blob) -> a list of operations over node objects: ask (index, hardened, "
        "as_private) / path (with or without '.pub') of node k, move node k to a network (override_network), take a cached child or a "
        "public copy as a node of its own, refused call (catalogue REFUSALS: float / str / None / bytes / 2^31 / 2^32 / negative index - the "
        "same index the next judged request uses -, paths failing at a late component, subkeys / children with bad arguments, private "
        "form of a public node, texts and blobs that do not parse, non-bytes seeds) on node k, scribble over a returned container; the "
        "same requests are made before the move on the source, after it on the moved node and again on the source, and new ones first "
        "on the moved node and then on the source; in part of the cases a second move (back / to a third network), a child moved, a "
        "late public copy moved; an Electrum wallet from a bytearray master public key with refused subkey() calls between. "
        "kind 'longrun': (network, seed, base path, private or public-only parent read from its xpub, start index, odd step, pattern "
        "of (hardened, as_private)) -> request t = (start + (t // m) * step mod 2^31, pattern[t mod m]); 2^16 + 140 (thorough 2^17 + 140, "
        "private and public parent) distinct requests on one node, an earlier request repeated every 61 requests and three times per "
        "request in the window [-6, +40] around each multiple of 2^16. "
        "kind 'shared': (owning network, flavour, half, synthetic extended key with boundary fields, the ONE text object handed to every call: "
        "network.parseable_str_type(text) of the owning or of another network, the parseable_str class itself, a re-wrapped one, a plain "
        "str as control) -> a history of 1..11 parse calls on that one object: entry points bip32/49/84, <bip>_prv/_pub, hierarchical_key, "
        "secret, parse(text), private_key, public_key, address, wif, electrum_*, bip32_seed, payable of the owning network, of networks whose "
        "version bytes for this flavour differ (half of the calls) and of any other network, ending with (and in 30% repeated after) a call "
        "of the owning network through an entry point that reads this flavour and half; every such call is judged, a child of the last.")
ASSUMPTIONS = [
    "vmon/refs/bip32.py is correct (self-tested on every run: BIP32 test vectors 1 and 2, every chain, both texts; "
    "N(CKDpriv) = CKDpub(N) on the vectors and random material; fixed-base table vs refs/ec.py ladder; Electrum v1 addresses)",
    "a network 'defines' a prefix when its ParseAPI was configured with it; the 4 version bytes are read as data from "
    "network.parse._bip32/_bip49/_bip84_{prv,pub}_prefix; the text is Base58Check (double SHA-256) of version + 74 bytes",
    "networks whose text checksum needs the groestlcoin_hash package (GRS, TGRS, GRSRT) cannot be executed here and are "
    "listed as absent configurations",
    "'refused' = any exception; the two invalid-key events of the BIP (I_L >= n, zero key / point at infinity, "
    "probability < 2^-127) are not reachable and not judged",
    "cache transparency: the n-th call on a long-lived node must equal the same call on a node freshly parsed from "
    "the long-lived node's own text",
    "Electrum: only private/public commutation is demanded (the statement says no more)",
    "what the interleaved queries (address, WIF, fingerprint(is_compressed=...), ku_output, ...) return is not judged and "
    "neither is whether the deliberately invalid calls raise; only the derivations, fields and texts observed afterwards "
    "on the same objects are (histories are quantified in the statement, those values are not)",
    "children(): each yielded node must be the child the standard defines for the child number it carries; which numbers "
    "are yielded is not judged; a public-only node may raise once a hardened child is due",
    "parse.hierarchical_key / parse.secret / parse(text) / parse.<bip>_prv / _pub are documented ways to read an extended "
    "key text, so the round trip is demanded through them as well",
    "'the text form' of a node is what any public spelling hands out: hwif(as_private) and its documented alias as_text(as_private) "
    "must return exactly the reference text of the node's flavour (the signature default as_private=False means the public text); "
    "repr / str / ku_output* are free in format, but every Base58Check string carrying 78 bytes that they embed must be one of this "
    "node's own texts (ku 'public_version' = the public one); serialize(as_private) = the 74 reference bytes (default: either half "
    "of a private node is tolerated); asking a public-only node for its private form is not judged",
    "a round trip preserves the variant: the node read back hands out, by every spelling, the texts of the same flavour as the node "
    "that produced the text, and so does a child derived from it (the Python class of the node is not judged)",
    "keys.<bip>_deserialize(4 version bytes + 74 bytes) is called with the version bytes of the flavour only",
    "the version bytes themselves are judged only where the BIP fixes them: on BTC the published test-vector texts are compared "
    "as literals, on XTN the texts carry the BIP's testnet versions 04358394 / 043587CF (kind 'vectors', run by the first derive shard)",
    "a public-only parent asked for a PRIVATE child (subkey(as_private=True)) may refuse: not judged when the long-lived and the "
    "fresh node refuse alike; how many children children() / an Electrum range hands out is a required counter, not an oracle",
    "chain code / parent fingerprint / serialize(): the octets are compared, bytes-like carriers (bytearray) are accepted",
    "a node made by override_network(network) is a node of that network: it and its children must hold the reference fields and hand "
    "out texts of THAT network (any flavour the destination defines is tolerated for the moved node, its children must show the flavour "
    "the moved node shows) which that network's parser reads back; the node it was made from goes on handing out its own network's "
    "texts; whether override_network succeeds is not judged (a required counter says the run moved nodes)",
    "calls from the catalogue REFUSALS: whether they raise, return None or answer is not judged; after each of them the node must "
    "have the fields and text it had, and every later judged request must be right",
    "caller-owned mutable arguments are only judged where the library accepts them (bytearray seed, bytearray Electrum master public "
    "key today): the argument is unchanged by the call, the same argument gives the same answer, the caller's later edits do not reach "
    "the node; a returned container is scribbled over only when it is a mutable one (bytearray / list / dict)",
    "the round trip holds whatever was done before with the text OBJECT (histories are quantified): network.parseable_str_type is "
    "public API for wrapping a text once and offering the same object to several parsers / networks (pycoin.cmds.ku.parse_key does); "
    "after any parse calls on that object by any network, the owning network's parse.<bip>, <bip>_prv/_pub, hierarchical_key (private "
    "texts: secret, parse(text) too) must hand out the node with the reference fields, the same text(s) and a right child of this "
    "network's flavour; what the other networks and the other entry points make of the text is not judged (the statement does not say "
    "that a foreign network refuses), nor is the identity or sharing of the node objects handed out; a tree without such a type makes "
    "the run inconclusive, not failed",
    "long run: sum over a block of the public pairs handed out = point(sum of the reference child secrets) (public-only parent: "
    "point(sum I_L) + count * K_parent) stands for the per-child comparison of the public pair (errors cancelling in a sum of 512 "
    "points are not a realistic fault); a disagreeing block is re-judged child by child with the full reference, and if every child "
    "then agrees the run is inconclusive",
]
EXPLANATION = ("held = every observed secret exponent, public pair, chain code, depth, parent fingerprint, child number and "
               "xprv/xpub (yprv/zprv...) text equalled the reference; public derivation equalled the public half of private "
               "derivation; hardened-from-public raised; parse(text) gave back every field, also from one text object that other "
               "networks' parsers and other entry points had been asked about before")
TIMEOUT = {"quick": 900, "thorough": 3 * 3600}

HARD = RB.HARD
EDGE_INDICES = [0, 1, 2, 255, 256, 65535, 65536, (1 << 24) - 1, 1 << 24, (1 << 31) - 2, (1 << 31) - 1, 1000000000]
BIPS = ("bip32", "bip49", "bip84")


def exhaustive(tier):
    return False


def configurations(tier):
    return ["every pycoin network with bip32 prefixes (bip49/bip84 where defined) except the groestl family (package absent)",
            "EC backend: as selected by pycoin at import (OpenSSL when loadable); one derive shard with PYCOIN_NATIVE=none",
            "long run: quick = one parent (private or public-only, by the shard rng), thorough = both"]


def plan(tier, seed):
    q = tier == "quick"
    shards = []
    for i in range(8 if q else 24):
        shards.append({"kind": "derive", "n": 450 if q else 7000, "label": "derive%d" % i})
    shards.append({"kind": "derive", "n": 30 if q else 800, "env": {"PYCOIN_NATIVE": "none"}, "label": "derive-purepython"})
    for i in range(2 if q else 4):
        shards.append({"kind": "nets", "per_net": 4 if q else 40, "part": i, "parts": 2 if q else 4, "label": "nets%d" % i})
    for i in range(2 if q else 6):
        shards.append({"kind": "spell", "n": 200 if q else 3000, "label": "spell%d" % i})
    for i in range(2 if q else 8):
        shards.append({"kind": "cache", "n": 120 if q else 1500, "label": "cache%d" % i})
    shards.append({"kind": "electrum", "n": 300 if q else 6000, "label": "electrum"})
    for i in range(2 if q else 6):       # appended last: the rng streams of the shards above do not move
        shards.append({"kind": "text", "n": 160 if q else 2500, "label": "text%d" % i})
    for i in range(2 if q else 6):       # several related node objects in one history: moves between networks, refused calls, caller-owned buffers
        shards.append({"kind": "objs", "n": 150 if q else 2500, "label": "objs%d" % i})
    # the N-th operation: ONE node asked for more than 2^16 + 100 (thorough: 2^17 + 100) distinct children in one process
    if q:
        shards.append({"kind": "longrun", "n": (1 << 16) + 140, "label": "longrun"})
    else:
        for public in (False, True):
            shards.append({"kind": "longrun", "n": (1 << 17) + 140, "public": public, "label": "longrun-%s" % ("public" if public else "private")})
    # one text object (network.parseable_str_type) offered to several networks' parsers before / between the owning network's parses
    for i in range(1 if q else 3):       # appended last: the rng streams of the shards above do not move
        shards.append({"kind": "shared", "n": 1000 if q else 6000, "label": "shared%d" % i})
    return shards


def selftest(rec):
    return RB.selftest()


# ---------------------------------------------------------------------------------------------------------
# the networks

class Ctx(object):
    def __init__(self, rec):
        from pycoin.networks.registry import network_codes, network_for_netcode
        self.nets = {}
        self.prefixes = {}
        self.absent = []
        for code in sorted(network_codes()):
            net = network_for_netcode(code)
            pf = {}
            for b in BIPS:
                prv = getattr(net.parse, "_%s_prv_prefix" % b, None)
                pub = getattr(net.parse, "_%s_pub_prefix" % b, None)
                if prv is None and pub is None:
                    # not configured, or the (private) attribute goes by another name in this version: ask the public
                    # text builder of the network which 4 version bytes it puts in front (raises when there are none)
                    vs = []
                    for as_private in (True, False):
                        st, t = observe(getattr(net, "%s_as_string" % b, None), b"\0" * 74, as_private)
                        raw = B58.decode_check(t) if st == "ok" and isinstance(t, str) else None
                        vs.append(raw[:4] if raw is not None and len(raw) == 78 else None)
                    prv, pub = vs
                    if prv and pub:
                        rec.ev("prefix_from_public_api")
                if prv and pub:
                    pf[b] = (bytes(prv), bytes(pub))
            if "bip32" not in pf:
                continue
            st, r = observe(net.bip32_as_string, b"\0" * 74, False)
            if st != "ok" and isinstance(r, ImportError):
                self.absent.append(code)
                continue
            self.nets[code] = net
            self.prefixes[code] = pf
        if self.absent:
            rec.note("config_absent: %s (text checksum needs a package that is not installed)" % ",".join(self.absent))
        rec.note("networks exercised: %d" % len(self.nets))
        self.codes = sorted(self.nets)


def fields_of(node, rec):
    """Read every accessor the property names. -> dict (values or exceptions)"""
    out = {}
    for name, fn in (("secret", node.secret_exponent), ("public_pair", node.public_pair), ("chain_code", node.chain_code),
                     ("depth", node.tree_depth), ("parent_fingerprint", node.parent_fingerprint),
                     ("child_number", node.child_index)):
        rec.ev("accessor." + name)
        st, v = observe(fn)
        if st != "ok":
            out[name] = v
        elif name == "public_pair":
            out[name] = tuple(v) if v is not None else None
        else:
            out[name] = v
    return out


def diff_fields(got, ref, private):
    """first field of `got` (from fields_of) that differs from reference node `ref`; None when all agree"""
    exp = ref.fields()
    if not private:
        exp["secret"] = None
    for name in ("secret", "public_pair", "chain_code", "depth", "parent_fingerprint", "child_number"):
        g = got[name]
        if name in ("chain_code", "parent_fingerprint") and isinstance(g, (bytearray, memoryview)):
            g = bytes(g)          # the statement fixes the 32 / 4 octets, not the Python type carrying them
        if isinstance(g, BaseException) or g != exp[name] or (name in ("chain_code", "parent_fingerprint") and not isinstance(g, bytes)):
            return name, g, exp[name]
    return None


VIAS = (None, "split", "hierarchical_key", "secret", "call")


def node_from_text(ctx, code, bip, text, rec, via=None, private=None):
    """text -> node through network.parse.<bip> or, when `via` says so, one of the other documented entry points that
    accept an extended key: parse.<bip>_prv / _pub, parse.hierarchical_key, parse.secret (private texts), parse(text)."""
    parse = ctx.nets[code].parse
    if via == "split" and private is not None:
        rec.ev("parse.%s.split" % bip)
        return observe(getattr(parse, "%s_%s" % (bip, "prv" if private else "pub")), text)
    if via == "secret" and private:
        rec.ev("parse.secret")
        return observe(parse.secret, text)
    if via in ("hierarchical_key", "secret"):
        rec.ev("parse.hierarchical_key")
        return observe(parse.hierarchical_key, text)
    if via == "call" and private:
        rec.ev("parse.call")
        return observe(parse, text)
    rec.ev("parse." + bip)
    return observe(getattr(parse, bip), text)


def make_node(ctx, code, bip, ref, private, rec):
    """A pycoin node of the wanted BIP flavour holding the reference node's fields (through the text form)."""
    prv, pub = ctx.prefixes[code][bip]
    text = RB.to_text(ref, prv if private else pub, private)
    st, node = node_from_text(ctx, code, bip, text, rec)
    return st, node, text


# ---------------------------------------------------------------------------------------------------------
# read-only queries and failing calls: the whole public surface of a node that is NOT a judged derivation, with every
# value of its optional arguments.  They are used as perturbations: issued on a long-lived node (master, intermediate
# node, public copy, cached child) before / between the judged derivations.  What they return is not judged (the
# statement does not speak about addresses, WIF, ...); what the node derives afterwards is.

H32 = bytes(range(1, 33))
SIG = bytes.fromhex("3006020101020101")


def _other_network(n, ctx):
    for code in ("XTN", "BTC", "LTC"):
        if code in ctx.nets and ctx.nets[code] is not getattr(n, "_network", None):
            return ctx.nets[code]
    return ctx.nets[ctx.codes[0]]


def _tri(name, fn):
    return {name: lambda n, ctx: fn(n)(), name + "_c": lambda n, ctx: fn(n)(is_compressed=True),
            name + "_u": lambda n, ctx: fn(n)(is_compressed=False)}


QUERIES = {}
for _name in ("fingerprint", "hash160", "sec", "sec_as_hex", "address", "wif"):
    QUERIES.update(_tri(_name, (lambda nm: lambda n: getattr(n, nm))(_name)))
QUERIES.update({
    "hwif": lambda n, ctx: n.hwif(), "hwif_prv": lambda n, ctx: n.hwif(as_private=True),
    "hwif_pub": lambda n, ctx: n.hwif(as_private=False), "as_text": lambda n, ctx: n.as_text(),
    "serialize": lambda n, ctx: n.serialize(), "serialize_prv": lambda n, ctx: n.serialize(as_private=True),
    "serialize_pub": lambda n, ctx: n.serialize(as_private=False),
    "public_copy": lambda n, ctx: n.public_copy(),
    "public_copy_derives": lambda n, ctx: n.public_copy().subkey(0),
    "is_private": lambda n, ctx: n.is_private(), "is_compressed": lambda n, ctx: n.is_compressed(),
    "master_public_key": lambda n, ctx: n.master_public_key(), "master_private_key": lambda n, ctx: n.master_private_key(),
    "repr": lambda n, ctx: repr(n), "str": lambda n, ctx: str(n),
    "ku_output": lambda n, ctx: list(n.ku_output()), "ku_output_hk": lambda n, ctx: list(n.ku_output_for_hk()),
    "ku_output_address": lambda n, ctx: list(n.ku_output_for_address()),
    "ku_output_public_pair": lambda n, ctx: list(n.ku_output_for_public_pair()),
    "sign": lambda n, ctx: n.sign(H32), "verify": lambda n, ctx: n.verify(H32, SIG),
    "dot_pub": lambda n, ctx: n.subkey_for_path(".pub"), "empty_path": lambda n, ctx: n.subkey_for_path(""),
    "children0": lambda n, ctx: list(n.children(max_level=0, include_hardened=False)),
    "children0H": lambda n, ctx: list(n.children(max_level=0, start_index=1)),
    "subkeys_one": lambda n, ctx: list(n.subkeys("0")),
    "subkey_default": lambda n, ctx: n.subkey(),
    "subkey_public_hardened": lambda n, ctx: n.subkey(1, is_hardened=True, as_private=False),
    "override_network": lambda n, ctx: n.override_network(_other_network(n, ctx)),
    # calls that fail (all of them, or on public-only nodes)
    "bad_negative": lambda n, ctx: n.subkey(-1), "bad_too_large": lambda n, ctx: n.subkey(1 << 31),
    "bad_too_large_hardened": lambda n, ctx: n.subkey(1 << 31, True),
    "bad_path_late": lambda n, ctx: n.subkey_for_path("0/x"), "bad_path_gap": lambda n, ctx: n.subkey_for_path("1//2"),
    "bad_path_hardened_late": lambda n, ctx: n.subkey_for_path("0/1H/x.pub"),
    "bad_path_negative": lambda n, ctx: n.subkey_for_path("0/-1"),
    "bad_path_too_large": lambda n, ctx: n.subkey_for_path("2147483648"),
    "bad_subkeys": lambda n, ctx: list(n.subkeys("0-1/x")),
    "bad_children": lambda n, ctx: list(n.children(max_level=1, start_index=(1 << 31) - 1)),
})
QNAMES = sorted(QUERIES)


def do_queries(node, names, rec, ctx):
    """issue the named queries on `node`, whatever they return or raise (names of another version are skipped)"""
    for name in names or ():
        fn = QUERIES.get(name)
        if fn is None:
            continue
        rec.ev("query")
        st, _ = observe(fn, node, ctx)
        rec.ev("query.ok" if st == "ok" else "query.raised")


def gen_queries(rng, sizes=(0, 1, 1, 2, 3)):
    return [rng.choice(QNAMES) for _ in range(rng.choice(sizes))]


def freeze(x):
    if isinstance(x, (list, tuple)):
        return tuple(freeze(y) for y in x)
    return x


# ---------------------------------------------------------------------------------------------------------
# kind "derive"

MARK_NAMES = {"H": "H", "p": "p", "'": "tick"}


def count_path_classes(path, marks, rec):
    """which regions of the quantified domain a derived path reaches (index classes, depth, hardened markers used)"""
    h = 0
    for i in path:
        low = i & (HARD - 1)
        rec.ev("index.hardened" if i >= HARD else "index.normal")
        if low >= 1 << 24:
            rec.ev("index.ge_2^24")          # the top byte of ser32(i) is in use
        if low == HARD - 1:
            rec.ev("index.max")
        if i >= HARD:
            rec.ev("marker." + MARK_NAMES.get(marks[h % len(marks)], "other"))
            h += 1
    if len(path) >= 255:
        rec.ev("depth.255")
    elif len(path) >= 2:
        rec.ev("depth.2..8")


def chk_derive(case, rec, ctx):
    code, seed, path = case["net"], case["seed"], list(case["path"])
    marks = case.get("marks", "H")
    net = ctx.nets[code]
    prv, pub = ctx.prefixes[code]["bip32"]
    q_master, q_step, q_pub = case.get("q_master", []), case.get("q_step", []), case.get("q_pub", [])
    rec.case(("derive", code, seed, tuple(path), marks, tuple(q_master), tuple(q_step), tuple(q_pub)), nontrivial=len(path) > 0)
    try:
        rm = RB.master(seed)
        rnodes = [rm]
        for i in path:
            rnodes.append(RB.ckd_priv(rnodes[-1], i))
    except RB.Invalid:
        rec.ev("reference_invalid_key")
        return
    rn = rnodes[-1]
    count_path_classes(path, marks, rec)

    def V(mech, observed, expected):
        rec.violation(mech, case, observed, expected)

    rec.ev("from_master_secret")
    st, m = observe(net.keys.bip32_seed, seed)
    if st != "ok":
        return V("bip32.master_raises", m, "a node")
    do_queries(m, q_master, rec, ctx)      # whatever is asked of the master first, it and its descendants are the same
    d = diff_fields(fields_of(m, rec), rm, True)
    if d:
        return V("bip32.master." + d[0], d[1], d[2])
    ptext = RB.path_text(path, marks)
    rec.ev("subkey_for_path")
    st, node = observe(m.subkey_for_path, ptext)
    if st != "ok":
        return V("bip32.subkey_for_path_raises", node, "a node")
    d = diff_fields(fields_of(node, rec), rn, True)
    if d:
        last = "master" if not path else ("hardened" if path[-1] >= HARD else "normal")
        return V("bip32.derive.%s.%s" % (d[0], last), {"field": d[0], "got": d[1], "path": ptext}, d[2])
    for private, ver in ((True, prv), (False, pub)):
        rec.ev("hwif")
        st, t = observe(node.hwif, as_private=private)
        exp = RB.to_text(rn, ver, private)
        if st != "ok" or t != exp:
            return V("bip32.hwif_mismatch.%s" % ("prv" if private else "pub"), t, exp)
    # step by step on a fresh master, and every intermediate node
    st, m2 = observe(net.keys.bip32_seed, seed)
    cur = m2
    for k, i in enumerate(path):
        do_queries(cur, q_step, rec, ctx)
        rec.ev("subkey")
        st, cur = observe(cur.subkey, i & (HARD - 1), i >= HARD)
        if st != "ok":
            return V("bip32.subkey_raises", cur, "a node")
        d = diff_fields(fields_of(cur, rec), rnodes[k + 1], True)
        if d:
            return V("bip32.step.%s.%s" % (d[0], "hardened" if i >= HARD else "normal"),
                     {"field": d[0], "got": d[1], "step": k, "index": i}, d[2])
    # .pub spelling
    rec.ev("subkey_for_path")
    st, pn = observe(m.subkey_for_path, ptext + ".pub")
    if st != "ok":
        return V("bip32.dot_pub_raises", pn, "a public node")
    d = diff_fields(fields_of(pn, rec), rn, False)
    if d:
        return V("bip32.dot_pub." + d[0], d[1], d[2])
    # commutation on the non-hardened tail
    cut = len(path)
    while cut > 0 and path[cut - 1] < HARD:
        cut -= 1
    tail = path[cut:]
    head_text, tail_text = RB.path_text(path[:cut], marks), RB.path_text(tail)
    st, P = observe(m.subkey_for_path, head_text)
    if st != "ok":
        return V("bip32.subkey_for_path_raises", P, "a node")
    rec.ev("public_copy")
    st, pubP = observe(P.public_copy)
    if st != "ok":
        return V("bip32.public_copy_raises", pubP, "a node")
    d = diff_fields(fields_of(pubP, rec), rnodes[cut], False)
    if d:
        return V("bip32.public_copy." + d[0], d[1], d[2])
    do_queries(P, q_pub, rec, ctx)
    do_queries(pubP, q_pub, rec, ctx)
    rec.ev("commutation")
    if tail:
        rec.ev("commutation.nonempty_tail")       # at least one CKDpub step from a public-only parent
        if cut:
            rec.ev("commutation.below_hardened")
    st, a = observe(lambda: P.subkey_for_path(tail_text).public_copy())
    st2, b = observe(pubP.subkey_for_path, tail_text)
    if st != "ok" or st2 != "ok":
        return V("bip32.commute.raises", [a if st != "ok" else None, b if st2 != "ok" else None], "two public nodes")
    fa, fb = fields_of(a, rec), fields_of(b, rec)
    for name in ("secret", "public_pair", "chain_code", "depth", "parent_fingerprint", "child_number"):
        if isinstance(fa[name], BaseException) or isinstance(fb[name], BaseException) or fa[name] != fb[name]:
            return V("bip32.commute." + name, {"private_then_public": fa[name], "public_then_derive": fb[name], "tail": tail_text},
                     "equal")
    try:
        rpub = RB.derive(rnodes[cut].neuter(), tail)
    except RB.Invalid:
        rpub = None
    if rpub is not None:
        d = diff_fields(fb, rpub, False)
        if d:
            return V("bip32.ckdpub." + d[0], {"field": d[0], "got": d[1], "tail": tail_text}, d[2])
    st, ta = observe(a.hwif)
    st2, tb = observe(b.hwif)
    if st != "ok" or st2 != "ok" or ta != tb or ta != RB.to_text(rn, pub, False):
        return V("bip32.commute.hwif", [ta, tb], RB.to_text(rn, pub, False))
    # hardened from public-only refused
    j = case.get("hard_index", 0)
    for how, fn in (("subkey", lambda: b.subkey(j, True)), ("subkey_as_public", lambda: b.subkey(j, True, False)),
                    ("subkey_as_private", lambda: b.subkey(j, is_hardened=True, as_private=True)),
                    ("path_H", lambda: b.subkey_for_path("%dH" % j)), ("path_p", lambda: b.subkey_for_path("%dp" % j)),
                    ("path_tick", lambda: b.subkey_for_path("%d'" % j)), ("path_deeper", lambda: b.subkey_for_path("1/%dH/2" % j)),
                    ("subkeys", lambda: list(b.subkeys("0-1/%dH" % j)))):
        rec.ev("hardened_from_public")
        st, r = observe(fn)
        if st == "ok":
            return V("bip32.hardened_from_public_accepted", {"how": how, "index": j, "returned": repr(r)[:120]}, "an exception")
    # text round trip, both texts
    for private in (True, False):
        src = node if private else b
        st, text = observe(src.hwif, as_private=private)
        st, back = node_from_text(ctx, code, "bip32", text, rec)
        if st != "ok" or back is None:
            return V("bip32.roundtrip.parse_failed", back, "a node for %s" % text)
        d = diff_fields(fields_of(back, rec), rn, private)
        if d:
            return V("bip32.roundtrip." + d[0], {"field": d[0], "got": d[1], "text": text}, d[2])
        st, again = observe(back.hwif, as_private=private)
        if st != "ok" or again != text:
            return V("bip32.roundtrip.text_changed", again, text)
    if len(path) >= 2:
        rec.sample({"kind": "derive", "net": code, "seed": seed, "path": ptext, "xpub": ta})


def gen_index(rng):
    r = rng.random()
    if r < 0.55:
        v = rng.choice(EDGE_INDICES)
    elif r < 0.75:
        v = rng.randrange(0, 1 << rng.choice([4, 8, 16, 24, 31]))
    else:
        v = rng.randrange(0, HARD)
    return v + (HARD if rng.random() < 0.45 else 0)


def gen_seed(rng, k):
    if k % 50 == 0:
        return bytes.fromhex(RB.VECTORS[(k // 50) % 2][0])
    n = rng.choice([16, 16, 32, 32, 64, rng.randrange(16, 65)])
    r = rng.random()
    if r < 0.05:
        return b"\0" * n
    if r < 0.1:
        return b"\xff" * n
    return bytes(rng.randrange(256) for _ in range(n))


def run_derive(spec, rec, ctx):
    rng = shard_rng(spec["seed"], PROPERTY, spec["tier"], spec["shard"])
    if spec["shard"] == 0:
        run_vectors(spec, rec, ctx)          # (draws nothing from the rng; no process of its own: start-up costs more than it)
    for k in range(spec["n"]):
        depth = rng.choice([0, 1, 1, 2, 2, 3, 3, 4, 5, 6, 7, 8])
        if k == 7 and spec["shard"] == 0:
            depth = 255
        path = [gen_index(rng) for _ in range(depth)]
        if k % 50 == 0:      # the BIP vector chains themselves
            path = RB.parse_path(rng.choice(RB.VECTORS[(k // 50) % 2][1])[0])
        code = rng.choice(["BTC", "BTC", "XTN", "LTC", rng.choice(ctx.codes)])
        if code not in ctx.nets:
            code = ctx.codes[0]
        marks = "".join(rng.choice("Hp'") for _ in range(3))
        case = {"kind": "derive", "net": code, "seed": gen_seed(rng, k), "path": path, "marks": marks,
                "hard_index": rng.choice([0, 1, (1 << 31) - 1, rng.randrange(HARD)])}
        if k % 3:       # two thirds of the cases: read-only queries / failing calls on the nodes derived from
            case.update({"q_master": gen_queries(rng), "q_step": gen_queries(rng), "q_pub": gen_queries(rng)})
        chk_derive(case, rec, ctx)


# ---------------------------------------------------------------------------------------------------------
# kind "nets": synthetic extended keys on every network / BIP flavour

def chk_synthetic(case, rec, ctx):
    code, bip, private = case["net"], case["bip"], case["private"]
    if code not in ctx.nets or bip not in ctx.prefixes[code]:
        return
    k = case["secret"]
    ref = RB.Node(k, RB.point(k), case["chain_code"], case["depth"], case["pfp"], case["child"])
    if not private:
        ref = ref.neuter()
    pre, pre_pub, via = case.get("pre", []), case.get("pre_pub", []), case.get("via")
    rec.case(("syn", code, bip, private, k, case["chain_code"], case["depth"], case["pfp"], case["child"],
              tuple(pre), tuple(pre_pub), via, tuple(case.get("text_ops", ()))))

    def V(mech, observed, expected):
        rec.violation(mech, case, observed, expected)
    rec.ev("nets.roundtrip.%s.%s" % (bip, "prv" if private else "pub"))
    st, node, text = make_node(ctx, code, bip, ref, private, rec)
    if st != "ok" or node is None:
        return V("%s.roundtrip.parse_failed" % bip, node, "a node for %s" % text)
    do_queries(node, pre, rec, ctx)
    d = diff_fields(fields_of(node, rec), ref, private)
    if d:
        return V("%s.roundtrip.%s" % (bip, d[0]), {"field": d[0], "got": d[1], "text": text}, d[2])
    prv, pub = ctx.prefixes[code][bip]
    for want_private in ((True, False) if private else (False,)):
        rec.ev("hwif")
        st, t = observe(node.hwif, as_private=want_private)
        exp = RB.to_text(ref, prv if want_private else pub, want_private)
        if st != "ok" or t != exp:
            return V("%s.hwif_mismatch.%s" % (bip, "prv" if want_private else "pub"), t, exp)
    # every other spelling of the text form on the same (boundary-field) node
    if case.get("text_ops") and not judge_text_ops(node, case["text_ops"], ref, private, (prv, pub), bip, rec, V, "synthetic node"):
        return
    # the flavour and every field survive derivation and going public; children checked against the reference
    if case["depth"] >= 255:
        return
    pubnode = None
    if private:
        rec.ev("public_copy")
        st, pubnode = observe(node.public_copy)
        if st != "ok":
            return V("%s.public_copy_raises" % bip, pubnode, "a node")
        do_queries(pubnode, pre_pub, rec, ctx)
    for i in case["children"]:
        rec.ev("subkey")
        hard = i >= HARD
        st, ch = observe(node.subkey, i & (HARD - 1), hard)
        if not private and hard:
            rec.ev("nets.hardened_from_public." + bip)
            if st == "ok":
                return V("%s.hardened_from_public_accepted" % bip, repr(ch)[:100], "an exception")
            continue
        try:
            rch = RB.ckd_priv(ref, i) if private else RB.ckd_pub(ref, i)
        except RB.Invalid:
            continue
        if st != "ok":
            return V("%s.subkey_raises" % bip, ch, "a node")
        d = diff_fields(fields_of(ch, rec), rch, private)
        if d:
            return V("%s.derive.%s.%s" % (bip, d[0], "hardened" if hard else "normal"), {"field": d[0], "got": d[1], "index": i}, d[2])
        for want_private in ((True, False) if private else (False,)):
            rec.ev("hwif")
            st, t = observe(ch.hwif, as_private=want_private)
            exp = RB.to_text(rch, prv if want_private else pub, want_private)
            if st != "ok" or t != exp:
                return V("%s.child_hwif_mismatch.%s" % (bip, "prv" if want_private else "pub"), t, exp)
            st, back = node_from_text(ctx, code, bip, exp, rec, via, want_private)
            if st != "ok" or back is None:
                return V("%s.roundtrip.parse_failed" % bip, {"via": via, "got": back}, "a node for %s" % exp)
            if not hasattr(back, "tree_depth"):
                return V("%s.roundtrip.parse_failed" % bip, {"via": via, "got": repr(back)[:100]}, "a node for %s" % exp)
            st, again = observe(back.hwif, as_private=want_private)
            if st != "ok" or again != exp:
                return V("%s.roundtrip.text_changed" % bip, {"via": via, "got": again}, exp)
            d = diff_fields(fields_of(back, rec), rch, want_private)
            if d:
                return V("%s.roundtrip.%s" % (bip, d[0]), {"field": d[0], "got": d[1], "text": exp}, d[2])
        if private and not hard:
            rec.ev("commutation")
            rec.ev("nets.commutation." + bip)
            st, viapub = observe(pubnode.subkey, i)
            if st != "ok":
                return V("%s.commute.raises" % bip, viapub, "a node")
            d = diff_fields(fields_of(viapub, rec), rch, False)
            if d:
                return V("%s.commute.%s" % (bip, d[0]), d[1], d[2])
            st, t = observe(viapub.hwif)
            if st != "ok" or t != RB.to_text(rch, pub, False):
                return V("%s.commute.hwif" % bip, t, RB.to_text(rch, pub, False))


def run_nets(spec, rec, ctx):
    rng = shard_rng(spec["seed"], PROPERTY, spec["tier"], spec["shard"])
    todo = [(c, b) for c in ctx.codes for b in BIPS if b in ctx.prefixes[c]]
    rec.note("network x flavour pairs: %d" % len(todo))
    for idx, (code, bip) in enumerate(todo):
        if idx % spec["parts"] != spec["part"]:
            continue
        rec.ev("network_flavour." + bip)
        for k in range(spec["per_net"] * (1 if bip == "bip32" else 6)):     # few networks define bip49/bip84
            secret = rng.choice([1, 2, RB.N - 1, RB.N - 2, 1 << 248, (1 << 128) - 1, rng.randrange(1, RB.N), rng.randrange(1, RB.N)])
            cc = rng.choice([b"\0" * 32, b"\xff" * 32, b"\0" * 31 + b"\1", bytes(rng.randrange(256) for _ in range(32)),
                             bytes(rng.randrange(256) for _ in range(32))])
            depth = rng.choice([0, 1, 2, 3, 127, 128, 254, 255, rng.randrange(256)])
            pfp = rng.choice([b"\0\0\0\0", b"\xff\xff\xff\xff", bytes(rng.randrange(256) for _ in range(4))])
            child = rng.choice([0, 1, HARD - 1, HARD, HARD + 1, (1 << 32) - 1, 1 << 24, rng.randrange(1 << 32)])
            case = {"kind": "nets", "net": code, "bip": bip, "private": k % 2 == 0, "secret": secret, "chain_code": cc,
                    "depth": depth, "pfp": pfp, "child": child,
                    "children": [gen_index(rng) for _ in range(2)]}
            if k % 4 >= 2:      # half of the cases: queries before deriving, another documented parse entry point
                case.update({"pre": gen_queries(rng), "pre_pub": gen_queries(rng), "via": rng.choice(VIAS)})
                case["text_ops"] = rng.sample(TEXT_OP_NAMES, len(TEXT_OP_NAMES))
            chk_synthetic(case, rec, ctx)
            if k == 0 and idx < 3:
                rec.sample({"kind": "nets", "net": code, "bip": bip, "depth": depth, "child": child})


# ---------------------------------------------------------------------------------------------------------
# kind "spell": marker spellings and range expressions

def chk_spell(case, rec, ctx):
    code, seed = case["net"], case["seed"]
    net = ctx.nets[code]
    prv, pub = ctx.prefixes[code]["bip32"]
    rec.case(("spell", code, seed, case.get("path"), case.get("range")))

    def V(mech, observed, expected):
        rec.violation(mech, case, observed, expected)
    rm = RB.master(seed)
    st, m = observe(net.keys.bip32_seed, seed)
    if st != "ok":
        return V("bip32.master_raises", m, "a node")
    if case.get("path") is not None:
        path = list(case["path"])
        try:
            exp = RB.to_text(RB.derive(rm, path), prv, True)
        except RB.Invalid:
            return
        nh = sum(1 for i in path if i >= HARD)
        for marks in itertools.product("Hp'", repeat=nh):
            text = RB.path_text(path, marks or "H")
            rec.ev("subkey_for_path")
            rec.ev("spelling")
            for mk in marks:
                rec.ev("spelling.marker." + MARK_NAMES[mk])
            st, node = observe(lambda: m.subkey_for_path(text).hwif(as_private=True))
            if st != "ok" or node != exp:
                return V("bip32.spelling_disagrees", {"spelling": text, "got": node}, exp)
            if case.get("fresh"):
                st, m = observe(net.keys.bip32_seed, seed)
    if case.get("range") is not None:
        rtext = case["range"]
        paths = RB.expand_ranges(rtext)
        try:
            exp = [RB.to_text(RB.derive(rm, p), prv, True) for p in paths]
        except RB.Invalid:
            return
        rec.ev("subkeys")
        for cls in range_classes(rtext):
            rec.ev("range." + cls)
        st, got = observe(lambda: [n.hwif(as_private=True) for n in m.subkeys(rtext)])
        if st != "ok" or got != exp:
            return V("bip32.subkeys_range_mismatch", {"range": rtext, "got": got if st != "ok" else [g for g in got][:8]}, exp[:8])
        # the same through a public-only root for ranges without hardened steps
        if all(i < HARD for p in paths for i in p):
            expp = [RB.to_text(RB.derive(rm.neuter(), p), pub, False) for p in paths]
            rec.ev("subkeys")
            rec.ev("subkeys.public_root")
            st, got = observe(lambda: [n.hwif() for n in m.public_copy().subkeys(rtext)])
            if st != "ok" or got != expp:
                return V("bip32.subkeys_range_mismatch.public", {"range": rtext, "got": got if st != "ok" else got[:8]}, expp[:8])


def range_classes(rtext):
    """syntactic classes of a range expression: A-B items, comma lists, hardened items (per marker), comma lists whose items
    do not all carry the same hardening"""
    out = set()
    for comp in rtext.split("/"):
        items = comp.split(",")
        if len(items) > 1:
            out.add("comma_list")
            if len({it[-1:] in ("H", "p", "'") for it in items}) > 1:
                out.add("mixed_hardening")
        for it in items:
            if it[-1:] in MARK_NAMES:
                out.add("hardened")
                out.add("marker." + MARK_NAMES[it[-1:]])
                if "-" in it:
                    out.add("hardened_dash")
            if "-" in it:
                out.add("dash")
    if "/" in rtext:
        out.add("multi_component")
    return sorted(out)


def gen_range(rng):
    comps = []
    for _ in range(rng.choice([1, 2, 2, 3])):
        items = []
        for _ in range(rng.choice([1, 1, 2, 3])):
            base = rng.choice([0, 1, 7, 254, 65534, (1 << 24) - 2, (1 << 31) - 3, rng.randrange(1 << 20)])
            if rng.random() < 0.5:
                item = "%d-%d" % (base, base + rng.choice([0, 1, 2]))
            else:
                item = "%d" % base
            if rng.random() < 0.35:
                item += rng.choice("Hp'")
            items.append(item)
        comps.append(",".join(items))
    return "/".join(comps)


def run_spell(spec, rec, ctx):
    rng = shard_rng(spec["seed"], PROPERTY, spec["tier"], spec["shard"])
    for k in range(spec["n"]):
        code = rng.choice(["BTC", "XTN", rng.choice(ctx.codes)])
        seed = gen_seed(rng, k + 1)
        if k % 2 == 0:
            path = [gen_index(rng) | (HARD if rng.random() < 0.5 else 0) for _ in range(rng.choice([1, 2, 3, 4]))]
            while sum(1 for i in path if i >= HARD) > 3:
                path[rng.randrange(len(path))] &= HARD - 1
            chk_spell({"kind": "spell", "net": code, "seed": seed, "path": path, "fresh": rng.random() < 0.5}, rec, ctx)
        else:
            r = gen_range(rng)
            chk_spell({"kind": "spell", "net": code, "seed": seed, "range": r}, rec, ctx)
            if k < 4:
                rec.sample({"kind": "spell", "range": r, "expands_to": len(RB.expand_ranges(r))})


# ---------------------------------------------------------------------------------------------------------
# kind "cache": call histories on one shared node

def chk_cache(case, rec, ctx):
    code, seed, base, public = case["net"], case["seed"], list(case["base"]), case["public"]
    net = ctx.nets[code]
    rec.case(("cache", code, seed, tuple(base), public, freeze(case["calls"]), freeze(case.get("q_first", [])),
              freeze(case.get("late_q", [])), freeze(case.get("children")), freeze(case.get("paths", []))))

    def V(mech, observed, expected):
        rec.violation(mech, case, observed, expected)
    try:
        rbase = RB.derive(RB.master(seed), base)
    except RB.Invalid:
        return
    st, shared = observe(lambda: net.keys.bip32_seed(seed).subkey_for_path(RB.path_text(base)))
    if st != "ok":
        return V("bip32.subkey_for_path_raises", shared, "a node")
    if public:
        shared = shared.public_copy()
        rbase = rbase.neuter()
    do_queries(shared, case.get("q_first", []), rec, ctx)
    st, own_text = observe(shared.hwif, as_private=not public)
    if st != "ok":
        return V("bip32.hwif_raises", own_text, "text")

    def summary(n):
        f = fields_of(n, rec)
        return [f["secret"], f["public_pair"], f["chain_code"], f["depth"], f["parent_fingerprint"], f["child_number"]]
    rec.ev("cache.public_parent" if public else "cache.private_parent")
    seen = set()
    for k, call in enumerate(case["calls"]):
        i, hard, ap = call[:3]
        q_before, q_child = (call[3], call[4]) if len(call) >= 5 else ([], [])
        as_private = None if ap is None else bool(ap)
        do_queries(shared, q_before, rec, ctx)
        rec.ev("subkey")
        rec.ev("cache_call")
        eff = (i, bool(hard), (not public) if as_private is None else as_private)
        if eff in seen:
            rec.ev("cache.repeat")                       # the very same request once more on the same node
        elif (eff[0], eff[1], not eff[2]) in seen:
            rec.ev("cache.same_child_other_half")        # same child number, other half asked before
        if as_private is None and (i, bool(hard), "explicit") in seen or as_private is not None and (i, bool(hard), "default") in seen:
            rec.ev("cache.default_vs_explicit")
        seen.add(eff)
        seen.add((i, bool(hard), "default" if as_private is None else "explicit"))
        st, got = observe(shared.subkey, i, bool(hard), as_private)
        st_f, fresh = node_from_text(ctx, code, "bip32", own_text, rec)
        if st_f != "ok" or fresh is None:
            return V("bip32.roundtrip.parse_failed", fresh, "a node")
        st_f, got_f = observe(fresh.subkey, i, bool(hard), as_private)
        if rbase.k is None and hard:
            if st == "ok":
                return V("bip32.hardened_from_public_accepted", {"call": k, "args": [i, hard, ap]}, "an exception")
            continue
        if rbase.k is None and as_private and st != "ok" and st_f != "ok":
            rec.ev("cache.public_parent_asked_private.refused")      # a public-only parent asked for a private child:
            continue                                                 # refusing (on both nodes alike) is not forbidden
        if st != "ok":
            return V("bip32.cache.call_raises" if st_f == "ok" else "bip32.subkey_raises", {"call": k, "exc": got}, "a node")
        if st_f != "ok":
            return V("bip32.subkey_raises", {"call": k, "exc": got_f, "on": "fresh node"}, "a node")
        s, sf = summary(got), summary(got_f)
        if s != sf:
            return V("bip32.cache_not_transparent", {"call": k, "args": [i, hard, ap], "shared_node": s, "fresh_node": sf}, "equal")
        ci = i + (HARD if hard else 0)
        try:
            rch = RB.ckd_priv(rbase, ci) if rbase.k is not None else RB.ckd_pub(rbase, ci)
        except RB.Invalid:
            continue
        want_private = rbase.k is not None and as_private is not False
        d = diff_fields(fields_of(got, rec), rch, want_private)
        if d:
            return V("bip32.history.%s" % d[0], {"call": k, "args": [i, hard, ap], "got": d[1]}, d[2])
        # the node handed out stays in the parent's cache: what the caller asks of it must not change what later
        # derivations THROUGH it give (the paths below, repeated calls)
        do_queries(got, q_child, rec, ctx)
    # the children() entry point: every node it yields is the child the standard defines for the child number it carries
    # (a public-only node may refuse as soon as a hardened child is due)
    if case.get("children"):
        max_level, start_index, include_hardened = case["children"]
        rec.ev("children")
        st, it = observe(lambda: iter(shared.children(max_level=max_level, start_index=start_index,
                                                      include_hardened=bool(include_hardened))))
        yielded = 0
        while st == "ok":
            st, n = observe(next, it)
            if st != "ok":
                if isinstance(n, StopIteration):
                    break
                if rbase.k is None and include_hardened:
                    break
                return V("bip32.children_raises", {"exc": n, "after": yielded, "args": case["children"]}, "child nodes")
            yielded += 1
            f = fields_of(n, rec)
            ci = f["child_number"]
            if not isinstance(ci, int) or not 0 <= ci < (1 << 32):
                return V("bip32.children.child_number", ci, "a child number")
            if rbase.k is None and ci >= HARD:
                return V("bip32.hardened_from_public_accepted", {"how": "children", "args": case["children"]}, "an exception")
            try:
                rch = RB.ckd_priv(rbase, ci) if rbase.k is not None else RB.ckd_pub(rbase, ci)
            except RB.Invalid:
                continue
            d = diff_fields(f, rch, rbase.k is not None)
            if d:
                return V("bip32.children.%s" % d[0], {"args": case["children"], "child_number": ci, "got": d[1]}, d[2])
        if yielded:
            rec.ev("children.yielded")      # which (and how many) numbers children() hands out is not judged; that the
                                            # workload reached at least one judged child is required of the run
    # a public copy taken AFTER the history (whatever the node cached so far must not leak into it): every hardened call
    # must be refused, every normal call must equal the reference public derivation
    if rbase.k is not None:
        st, late_pub = observe(shared.public_copy)
        if st != "ok":
            return V("bip32.public_copy_raises", late_pub, "a node")
        rpub = rbase.neuter()
        do_queries(late_pub, case.get("late_q", []), rec, ctx)
        for k, call in enumerate(case["calls"]):
            i, hard, ap = call[:3]
            rec.ev("late_public_copy_call")
            st, got = observe(late_pub.subkey, i, bool(hard), None if ap is None else False)
            if hard:
                if st == "ok":
                    return V("bip32.hardened_from_public_accepted.after_history", {"call": k, "args": [i, hard, ap]}, "an exception")
                continue
            if st != "ok":
                return V("bip32.subkey_raises", {"call": k, "exc": got, "on": "late public copy"}, "a node")
            try:
                rch = RB.ckd_pub(rpub, i)
            except RB.Invalid:
                continue
            d = diff_fields(fields_of(got, rec), rch, False)
            if d:
                return V("bip32.late_public_copy.%s" % d[0], {"call": k, "args": [i, hard, ap], "got": d[1]}, d[2])
    # grandchildren through cached children, in two orders; the same path with and without the documented '.pub' suffix, in
    # either order, on the same node (the fresh node sees each request as its first)
    asked = set()
    for text in case.get("paths", []):
        rec.ev("subkey_for_path")
        force_public = text.endswith(".pub")
        plain = text[:-4] if force_public else text
        if rbase.k is not None:
            if force_public and (plain, False) in asked:
                rec.ev("cache.path_then_dot_pub")
            if not force_public and (plain, True) in asked:
                rec.ev("cache.dot_pub_then_path")
        asked.add((plain, force_public))
        st, a = observe(lambda: shared.subkey_for_path(text))
        st_f, fresh = node_from_text(ctx, code, "bip32", own_text, rec)
        st_f, b = observe(lambda: fresh.subkey_for_path(text))
        if st != st_f:
            return V("bip32.cache_not_transparent", {"path": text, "shared": a if st != "ok" else "ok", "fresh": b if st_f != "ok" else "ok"}, "same outcome")
        if st == "ok" and summary(a) != summary(b):
            return V("bip32.cache_not_transparent", {"path": text, "shared_node": summary(a), "fresh_node": summary(b)}, "equal")
        if st == "ok":
            try:
                rp = RB.derive(rbase, RB.parse_path(plain))
            except (RB.Invalid, RB.Refused):
                rp = None
            if rp is not None:
                d = diff_fields(fields_of(a, rec), rp, rbase.k is not None and not force_public)
                if d:
                    return V("bip32.history.path.%s" % d[0], {"path": text, "got": d[1]}, d[2])
    # nothing that was asked changed the node itself
    d = diff_fields(fields_of(shared, rec), rbase, not public)
    if d:
        return V("bip32.history.node_changed.%s" % d[0], d[1], d[2])
    st, t = observe(shared.hwif, as_private=not public)
    if st != "ok" or t != own_text:
        return V("bip32.history.node_changed.text", t, own_text)


def run_cache(spec, rec, ctx):
    rng = shard_rng(spec["seed"], PROPERTY, spec["tier"], spec["shard"])
    rng2 = shard_rng(spec["seed"], PROPERTY, spec["tier"], spec["shard"], "dot-pub")     # later additions draw here: the first stream stays
    for k in range(spec["n"]):
        pool = [rng.choice(EDGE_INDICES) for _ in range(2)] + [rng.randrange(HARD)]
        calls = []
        with_q = k % 3 != 0
        for _ in range(rng.choice([4, 8, 14])):
            call = [rng.choice(pool), rng.random() < 0.45, rng.choice([None, None, 0, 1])]
            if with_q:       # queries on the shared node before the call, on the (cached) child after it
                call += [gen_queries(rng, (0, 0, 0, 1, 2)), gen_queries(rng, (0, 0, 1, 1, 2))]
            calls.append(call)
        if rng.random() < 0.5:       # the same calls again in another order
            again = list(calls)
            rng.shuffle(again)
            calls += again
        paths = []
        for _ in range(rng.choice([0, 2, 4])):
            p = [rng.choice(pool) + (HARD if rng.random() < 0.3 else 0), rng.choice(pool)]
            paths.append(RB.path_text(p, rng.choice("Hp'")))
        for _ in range(rng2.choice([0, 1, 1, 2])):      # one path asked with and without '.pub', in either order
            p = RB.path_text([rng2.choice(pool) + (HARD if rng2.random() < 0.3 else 0), rng2.choice(pool)], rng2.choice("Hp'"))
            pair = [p, p + ".pub"]
            if rng2.random() < 0.5:
                pair.reverse()
            paths = paths + pair + ([pair[0]] if rng2.random() < 0.3 else [])
        case = {"kind": "cache", "net": rng.choice(["BTC", "XTN", rng.choice(ctx.codes)]), "seed": gen_seed(rng, k + 1),
                "base": [gen_index(rng) for _ in range(rng.choice([0, 0, 1, 2]))], "public": rng.random() < 0.4,
                "calls": calls, "paths": paths}
        if with_q:
            case.update({"q_first": gen_queries(rng), "late_q": gen_queries(rng)})
            if rng.random() < 0.5:
                ml = rng.choice([0, 1, 2])
                case["children"] = [ml, rng.choice([0, 1, rng.choice(pool) % (HARD - 3), HARD - 1 - ml]), rng.random() < 0.6]
        chk_cache(case, rec, ctx)
        if k < 2:
            rec.sample({"kind": "cache", "base": RB.path_text(case["base"]), "public": case["public"], "calls": calls[:6],
                        "children": case.get("children")})


# ---------------------------------------------------------------------------------------------------------
# kind "electrum"

def chk_electrum(case, rec, ctx):
    net = ctx.nets[case["net"]]
    rec.case(("electrum", case["net"], case.get("secret"), case.get("seed"), tuple(case["paths"]),
              tuple(case.get("q_w", [])), tuple(case.get("q_pw", []))))

    def V(mech, observed, expected):
        rec.violation(mech, case, observed, expected)
    rec.ev("electrum.wallet")
    rec.ev("electrum.from_seed" if case.get("seed") is not None else "electrum.from_master_private_key")
    if case.get("seed") is not None:
        st, w = observe(net.keys.electrum_seed, seed=case["seed"][5:])      # "seed:" + 32 hex digits
    else:
        st, w = observe(net.keys.electrum_private, master_private_key=case["secret"])
    if st != "ok":
        return V("electrum.construct_raises", w, "a wallet")
    do_queries(w, case.get("q_w", []), rec, ctx)       # the catalogue entries a wallet does not have just raise
    st, pw = observe(w.public_copy)
    if st != "ok":
        return V("electrum.public_copy_raises", pw, "a wallet")
    do_queries(pw, case.get("q_pw", []), rec, ctx)
    if pw.secret_exponent() is not None:
        return V("electrum.public_copy_keeps_secret", "secret present", None)
    st, mpk = observe(w.master_public_key)
    st2, mpk2 = observe(pw.master_public_key)
    if st != "ok" or st2 != "ok" or mpk != mpk2:
        return V("electrum.master_public_key_differs", [mpk, mpk2], "equal")
    # also a wallet rebuilt from the 64-byte master public key alone
    st, pw2 = observe(net.keys.electrum_public, master_public_key=mpk)
    if st != "ok":
        return V("electrum.construct_raises", pw2, "a wallet")
    for path in case["paths"]:
        rec.ev("electrum.subkey")
        rec.ev("electrum.path.change" if path.endswith("/1") else "electrum.path.receiving" if (path.endswith("/0") or "/" not in path)
               else "electrum.path.other_branch")
        st, a = observe(lambda: tuple(w.subkey(path).public_pair()))
        for which, pub in (("public_copy", pw), ("from_master_public_key", pw2)):
            st2, b = observe(lambda: tuple(pub.subkey(path).public_pair()))
            rec.ev("electrum.commutation")
            if st != "ok" or st2 != "ok" or a != b:
                return V("electrum.commute_mismatch", {"path": path, "private_side": a, "public_side": b, "public_wallet": which}, "equal")
        st3, c = observe(lambda: tuple(w.subkey_for_path(path).public_copy().public_pair()))
        if st3 != "ok" or c != a:
            return V("electrum.commute_mismatch", {"path": path, "private_side": a, "via_subkey_for_path": c}, "equal")
        st4, sec = observe(lambda: pw.subkey(path).secret_exponent())
        if st4 != "ok" or sec is not None:
            return V("electrum.public_child_has_secret", sec, None)
    r = case.get("range")
    if r:
        rec.ev("electrum.subkeys")
        st, a = observe(lambda: [tuple(x.public_pair()) for x in w.subkeys(r)])
        st2, b = observe(lambda: [tuple(x.public_pair()) for x in pw.subkeys(r)])
        if st == "ok" and st2 == "ok" and a:
            rec.ev("electrum.subkeys.nonempty")
        if st != "ok" or st2 != "ok" or a != b:
            return V("electrum.commute_mismatch.subkeys", {"range": r, "private_side": a if st != "ok" else len(a), "public_side": b if st2 != "ok" else len(b)}, "equal")


def run_electrum(spec, rec, ctx):
    rng = shard_rng(spec["seed"], PROPERTY, spec["tier"], spec["shard"])
    for k in range(spec["n"]):
        paths = []
        for _ in range(4):
            n = rng.choice([0, 1, 2, 9, 10, 255, 65536, 10**9, rng.randrange(1 << 31)])
            paths.append(rng.choice(["%d" % n, "%d/0" % n, "%d/1" % n, "%d/%d" % (n, rng.choice([2, 7, 1000]))]))
        case = {"kind": "electrum", "net": rng.choice(["BTC", "BTC", "XTN", rng.choice(ctx.codes)]), "paths": paths,
                "range": rng.choice([None, "0-3", "0-2/0,1", "5,9-10/1"])}
        if k % 40 == 0:
            case["seed"] = "seed:%032x" % rng.choice([1, 0, rng.randrange(1 << 128)])
        else:
            case["secret"] = rng.choice([1, 2, RB.N - 1, RB.N - 2, rng.randrange(1, RB.N), rng.randrange(1, RB.N), rng.randrange(1, 1 << 64)])
        if k % 2:
            case.update({"q_w": gen_queries(rng), "q_pw": gen_queries(rng)})
        chk_electrum(case, rec, ctx)
        if k < 2:
            rec.sample(case)


# ---------------------------------------------------------------------------------------------------------
# kind "text": EVERY public way of obtaining the text form of an extended key (hwif / its alias as_text with each
# spelling of as_private, the texts embedded in repr / str and in the ku_output helpers, the 74-byte serialize() blob),
# on every flavour (bip32/49/84) and every origin of node (seed, <bip>_deserialize, each parse entry point, children by
# path / steps / subkeys() / children(), public copies, '.pub', public child of a private parent, child of a public-only
# parent that was itself read from text, nodes read back from any of those texts), as one history per node (all
# spellings in a shuffled order with repeats).  Each text must be the reference text of that flavour and must come
# back, through every documented parse entry point for it, as a node of the same flavour (judged by the texts it hands out) with every field.

_B58RUN = re.compile("[%s]{100,120}" % B58.ALPHABET)


def embedded_texts(s):
    """extended-key texts (Base58Check strings carrying 78 bytes) occurring in string s"""
    out = []
    for m in _B58RUN.findall(s):
        raw = B58.decode_check(m)
        if raw is not None and len(raw) == 78:
            out.append(m)
    return out


def _ku_items(gen):
    """what a ku_output* generator yields, up to the first exception (the address part may not exist on a network)"""
    out = []
    it = iter(gen)
    while True:
        try:
            out.append(next(it))
        except StopIteration:
            return out
        except Exception:
            return out


# name -> (family, how judged, as_private the spelling asks for (None: embedded / default), call)
TEXT_OPS = {
    "hwif": ("hwif", "exact", False, lambda n: n.hwif()),
    "hwif_kw_pub": ("hwif", "exact", False, lambda n: n.hwif(as_private=False)),
    "hwif_kw_prv": ("hwif", "exact", True, lambda n: n.hwif(as_private=True)),
    "hwif_pos_pub": ("hwif", "exact", False, lambda n: n.hwif(False)),
    "hwif_pos_prv": ("hwif", "exact", True, lambda n: n.hwif(True)),
    "as_text": ("as_text", "exact", False, lambda n: n.as_text()),
    "as_text_kw_pub": ("as_text", "exact", False, lambda n: n.as_text(as_private=False)),
    "as_text_kw_prv": ("as_text", "exact", True, lambda n: n.as_text(as_private=True)),
    "as_text_pos_pub": ("as_text", "exact", False, lambda n: n.as_text(False)),
    "as_text_pos_prv": ("as_text", "exact", True, lambda n: n.as_text(True)),
    "repr": ("repr", "embed", None, lambda n: repr(n)),
    "str": ("str", "embed", None, lambda n: str(n)),
    "format": ("str", "embed", None, lambda n: "{}".format(n)),
    "ku_output": ("ku_output", "ku", None, lambda n: _ku_items(n.ku_output())),
    "ku_output_for_hk": ("ku_output", "ku", None, lambda n: _ku_items(n.ku_output_for_hk())),
    "serialize": ("serialize", "blob", None, lambda n: n.serialize()),
    "serialize_kw_prv": ("serialize", "blob", True, lambda n: n.serialize(as_private=True)),
    "serialize_kw_pub": ("serialize", "blob", False, lambda n: n.serialize(as_private=False)),
    "serialize_pos_pub": ("serialize", "blob", False, lambda n: n.serialize(False)),
}
TEXT_OP_NAMES = sorted(TEXT_OPS)
BACK_OPS = ("hwif", "as_text", "hwif_kw_prv", "as_text_kw_prv", "as_text_pos_pub", "repr", "ku_output_for_hk", "serialize_kw_pub")


def judge_text_ops(node, names, ref, private, vers, bip, rec, V, where):
    """Issue the named spellings on `node` in order.  ref: reference node; private: does the node hold the secret;
    vers = (prv version, pub version) of the flavour.  -> False after reporting the first disagreement."""
    pub_text = RB.to_text(ref, vers[1], False)
    prv_text = RB.to_text(ref, vers[0], True) if private else None
    own = [t for t in (pub_text, prv_text) if t]
    for pos, name in enumerate(names):
        op = TEXT_OPS.get(name)
        if op is None:
            continue
        family, how, want_private, fn = op
        rec.ev("text." + family)
        st, got = observe(fn, node)
        if want_private and not private:
            continue          # a public-only node asked for its private form: whatever happens is not judged
        what = {"on": where, "op": name, "position": pos}
        if st != "ok":
            V("%s.text.%s_raises" % (bip, family), dict(what, exc=got), "a value")
            return False
        if how == "exact":
            exp = prv_text if want_private else pub_text
            if got != exp:
                V("%s.text.%s_mismatch.%s" % (bip, family, "prv" if want_private else "pub"), dict(what, got=got), exp)
                return False
        elif how == "embed":
            if not isinstance(got, str):
                V("%s.text.%s_not_a_string" % (bip, family), dict(what, got=repr(got)[:80]), "a string")
                return False
            for t in embedded_texts(got):
                if t not in own:
                    V("%s.text.%s_embeds_other_key" % (bip, family), dict(what, got=got), own)
                    return False
        elif how == "ku":
            for item in got:
                if not isinstance(item, tuple) or len(item) < 2 or not isinstance(item[1], str):
                    continue
                if item[0] == "public_version" and item[1] != pub_text:
                    V("%s.text.ku_output_mismatch.public_version" % bip, dict(what, got=item[1]), pub_text)
                    return False
                if item[0] == "wallet_key" and item[1] not in own:
                    V("%s.text.ku_output_mismatch.wallet_key" % bip, dict(what, got=item[1]), own)
                    return False
                for t in embedded_texts(item[1]):
                    if t not in own:
                        V("%s.text.ku_output_embeds_other_key" % bip, dict(what, item=item[0], got=item[1]), own)
                        return False
        else:
            allowed = [RB.payload(ref, False)] + ([RB.payload(ref, True)] if private else [])
            if want_private is not None:
                allowed = [RB.payload(ref, want_private)]
            if isinstance(got, (bytearray, memoryview)):
                got = bytes(got)          # "a 74-byte binary blob": the octets are fixed, the type carrying them is not
            if not isinstance(got, bytes) or got not in allowed:
                V("%s.text.serialize_mismatch" % bip, dict(what, got=got), allowed[-1])
                return False
    return True


class _NotYielded(Exception):
    """children() ended without handing out the child number looked for"""


def chk_text(case, rec, ctx):
    code, bip, seed, path = case["net"], case["bip"], case["seed"], list(case["path"])
    if code not in ctx.nets or bip not in ctx.prefixes[code]:
        return
    net = ctx.nets[code]
    vers = ctx.prefixes[code][bip]
    prv, pub = vers
    ops = list(case["ops"])
    rec.case(("text", code, bip, seed, tuple(path), case["source"], case.get("root_via"), case["how"], case.get("pub_source"),
              tuple(ops), tuple(case.get("q", [])), case.get("via"), case.get("child", 0)), nontrivial=True)

    def V(mech, observed, expected):
        rec.violation(mech, case, observed, expected)
    try:
        rnodes = [RB.master(seed)]
        for i in path:
            rnodes.append(RB.ckd_priv(rnodes[-1], i))
    except RB.Invalid:
        rec.ev("reference_invalid_key")
        return
    rm, rn = rnodes[0], rnodes[-1]
    deser = getattr(net.keys, "%s_deserialize" % bip)

    # the root, by origin
    source = case["source"]
    if source == "seed" and bip == "bip32":
        rec.ev("from_master_secret")
        st, root = observe(net.keys.bip32_seed, seed)
    elif source == "seed_text" and bip == "bip32":      # "H:<hex>": the documented text form of a master secret
        entry = {"hierarchical_key": net.parse.hierarchical_key, "secret": net.parse.secret, "call": net.parse}.get(
            case.get("root_via"), net.parse.bip32_seed)
        rec.ev("parse.bip32_seed")
        st, root = observe(entry, "H:" + seed.hex())
    elif source == "deserialize":
        rec.ev("deserialize")
        st, root = observe(deser, prv + RB.payload(rm, True))
    else:
        st, root = node_from_text(ctx, code, bip, RB.to_text(rm, prv, True), rec, case.get("root_via"), True)
    if st != "ok" or root is None or not hasattr(root, "tree_depth"):
        return V("%s.text.root_failed" % bip, {"source": source, "via": case.get("root_via"), "got": root}, "a node")
    do_queries(root, case.get("q", []), rec, ctx)

    # the node, by way of derivation
    how = case["how"] if path else "path"
    ptext = RB.path_text(path, case.get("marks", "H"))
    if how == "steps":
        st, node = "ok", root
        for i in path:
            rec.ev("subkey")
            st, node = observe(node.subkey, i & (HARD - 1), i >= HARD)
            if st != "ok":
                break
    elif how == "subkeys":
        rec.ev("subkeys")
        st, node = observe(lambda: list(root.subkeys(ptext))[0])
    elif how == "children":
        rec.ev("children")
        i = path[-1]

        def via_children():
            parent = root.subkey_for_path(RB.path_text(path[:-1]))
            for ch in parent.children(max_level=0, start_index=i & (HARD - 1), include_hardened=i >= HARD):
                if ch.child_index() == i:
                    return ch
            raise _NotYielded()
        st, node = observe(via_children)
        if st != "ok" and isinstance(node, _NotYielded):
            # which child numbers children() hands out is not judged (see ASSUMPTIONS): take the ordinary route instead
            rec.ev("children.not_yielded")
            how = "path"
            st, node = observe(root.subkey_for_path, ptext)
        elif st == "ok":
            rec.ev("children.yielded")
    else:
        rec.ev("subkey_for_path")
        st, node = observe(root.subkey_for_path, ptext)
    if st != "ok":
        return V("%s.text.derive_raises" % bip, {"how": how, "exc": node}, "a node")

    sites = [("node", node, rn, True)]
    if path:
        sites.append(("root", root, rm, True))
    rec.ev("public_copy")
    st, pc = observe(node.public_copy)
    if st != "ok":
        return V("%s.public_copy_raises" % bip, pc, "a node")
    sites.append(("public_copy", pc, rn, False))
    rec.ev("subkey_for_path")
    st, dp = observe(root.subkey_for_path, ptext + ".pub")
    if st != "ok":
        return V("%s.text.derive_raises" % bip, {"how": ".pub", "exc": dp}, "a node")
    sites.append(("dot_pub", dp, rn, False))
    if path:
        i = path[-1]
        rec.ev("subkey")
        st, ap = observe(lambda: root.subkey_for_path(RB.path_text(path[:-1])).subkey(i & (HARD - 1), i >= HARD, as_private=False))
        if st != "ok":
            return V("%s.text.derive_raises" % bip, {"how": "as_private=False", "exc": ap}, "a node")
        sites.append(("public_child_of_private", ap, rn, False))
        # a public-only ancestor that is itself read from text / from a blob, then the non-hardened tail
        cut = len(path)
        while cut > 0 and path[cut - 1] < HARD:
            cut -= 1
        if cut < len(path):
            if case.get("pub_source") == "deserialize":
                rec.ev("deserialize")
                st, anc = observe(deser, pub + RB.payload(rnodes[cut], False))
            else:
                st, anc = node_from_text(ctx, code, bip, RB.to_text(rnodes[cut], pub, False), rec, case.get("pub_source"), False)
            if st != "ok" or anc is None:
                return V("%s.text.root_failed" % bip, {"source": case.get("pub_source"), "public": True, "got": anc}, "a node")
            rec.ev("subkey_for_path")
            st, fp = observe(anc.subkey_for_path, RB.path_text(path[cut:]))
            if st != "ok":
                return V("%s.text.derive_raises" % bip, {"how": "public ancestor", "exc": fp}, "a node")
            sites.append(("child_of_public_ancestor", fp, rn, False))

    j = case.get("child", 0)
    for idx, (label, n, ref, private) in enumerate(sites):
        d = diff_fields(fields_of(n, rec), ref, private)
        if d:
            return V("%s.text.site.%s" % (bip, d[0]), {"on": label, "got": d[1]}, d[2])
        rot = ops[idx % len(ops):] + ops[:idx % len(ops)] if ops else []
        if not judge_text_ops(n, rot, ref, private, vers, bip, rec, V, label):
            return
        # every text of the node comes back as the same kind of node, through every entry point that reads it
        for want_private in ((True, False) if private else (False,)):
            text = RB.to_text(ref, prv if want_private else pub, want_private)
            backs = []
            for via in VIAS:
                if via in ("secret", "call") and not want_private:
                    continue
                st, back = node_from_text(ctx, code, bip, text, rec, via, want_private)
                backs.append((via or bip, st, back))
            rec.ev("deserialize")
            st, back = observe(deser, (prv if want_private else pub) + RB.payload(ref, want_private))
            backs.append(("deserialize", st, back))
            for via, st, back in backs:
                rec.ev("text.roundtrip")
                where = {"on": label, "via": via, "private": want_private}
                if st != "ok" or back is None or not hasattr(back, "tree_depth"):
                    return V("%s.roundtrip.parse_failed" % bip, dict(where, got=back if st != "ok" else repr(back)[:100]), "a node for %s" % text)
                # the variant (flavour) of the node read back is judged by what the statement names: the texts it hands out
                # (BACK_OPS below, both halves) and the texts of a child derived from it; not by the identity of its Python class
                rback = ref if want_private else ref.neuter()
                d = diff_fields(fields_of(back, rec), rback, want_private)
                if d:
                    return V("%s.roundtrip.%s" % (bip, d[0]), dict(where, field=d[0], got=d[1], text=text), d[2])
                if not judge_text_ops(back, BACK_OPS, rback, want_private, vers, bip, rec, V, "read back from %s via %s" % (label, via)):
                    return
                # ... and goes on deriving in its flavour
                if via == (case.get("via") or bip) and ref.depth < 255:
                    try:
                        rch = RB.ckd_priv(ref, j) if want_private else RB.ckd_pub(ref.neuter(), j)
                    except RB.Invalid:
                        continue
                    rec.ev("subkey")
                    st, ch = observe(back.subkey, j)
                    if st != "ok":
                        return V("%s.subkey_raises" % bip, dict(where, exc=ch), "a node")
                    if not judge_text_ops(ch, BACK_OPS, rch, want_private, vers, bip, rec, V, "child %d of the node read back from %s via %s" % (j, label, via)):
                        return
    # the history of spellings changed nothing on the nodes themselves
    for label, n, ref, private in sites:
        d = diff_fields(fields_of(n, rec), ref, private)
        if d:
            return V("%s.history.node_changed.%s" % (bip, d[0]), {"on": label, "got": d[1]}, d[2])


def run_text(spec, rec, ctx):
    rng = shard_rng(spec["seed"], PROPERTY, spec["tier"], spec["shard"])
    by_bip = {b: [c for c in ctx.codes if b in ctx.prefixes[c]] for b in BIPS}
    for k in range(spec["n"]):
        bip = rng.choice(["bip49", "bip84", "bip49", "bip84", "bip32"])
        if not by_bip[bip]:
            bip = "bip32"
        code = rng.choice(by_bip[bip])
        if bip == "bip32" and rng.random() < 0.6:
            code = rng.choice([c for c in ("BTC", "XTN", "LTC") if c in ctx.nets] or by_bip[bip])
        path = [gen_index(rng) for _ in range(rng.choice([0, 1, 1, 2, 2, 3, 4, 6]))]
        ops = list(TEXT_OP_NAMES)
        rng.shuffle(ops)
        ops += [rng.choice(TEXT_OP_NAMES) for _ in range(rng.choice([0, 3, 8]))]
        case = {"kind": "text", "net": code, "bip": bip, "seed": gen_seed(rng, k + 1), "path": path,
                "marks": "".join(rng.choice("Hp'") for _ in range(2)),
                "source": rng.choice(["parse", "parse", "deserialize"] + (["seed", "seed_text"] if bip == "bip32" else ["deserialize"])),
                "root_via": rng.choice(VIAS), "how": rng.choice(["path", "path", "steps", "subkeys", "children"]),
                "pub_source": rng.choice([None, "split", "hierarchical_key", "deserialize"]),
                "ops": ops, "via": rng.choice(VIAS), "child": rng.choice([0, 1, (1 << 31) - 1, rng.randrange(HARD)])}
        if k % 2:
            case["q"] = gen_queries(rng)
        chk_text(case, rec, ctx)
        if k < 2:
            rec.sample({"kind": "text", "net": code, "bip": bip, "path": RB.path_text(path), "source": case["source"],
                        "how": case["how"], "ops": ops[:6]})


# ---------------------------------------------------------------------------------------------------------
# kind "vectors": the published BIP32 test vectors as LITERAL texts on the network they were published for (BTC), and the
# version bytes the BIP assigns to testnet (XTN).  Everywhere else the 4 version bytes are read from the network's own
# configuration, so a wrong constant there would be consistent between hwif and parse and go unnoticed.

def chk_vectors(case, rec, ctx):
    code, vi = case["net"], case["vector"]
    if code not in ctx.nets:
        return
    net = ctx.nets[code]
    seed_hex, chains = RB.VECTORS[vi]
    seed = bytes.fromhex(seed_hex)
    rec.case(("vectors", code, vi), nontrivial=True)

    def V(mech, observed, expected):
        rec.violation(mech, case, observed, expected)
    st, m = observe(net.keys.bip32_seed, seed)
    if st != "ok":
        return V("bip32.master_raises", m, "a node")
    rm = RB.master(seed)
    for ptxt, xpub, xprv in chains:
        rn = RB.derive(rm, RB.parse_path(ptxt))
        if code == "XTN":
            xprv, xpub = RB.to_text(rn, RB.TESTNET_PRV, True), RB.to_text(rn, RB.TESTNET_PUB, False)
        rec.ev("vector_node." + code)
        st, node = observe(m.subkey_for_path, ptxt)
        if st != "ok":
            return V("bip32.subkey_for_path_raises", node, "a node")
        for private, lit in ((True, xprv), (False, xpub)):
            half = "prv" if private else "pub"
            st, t = observe(node.hwif, as_private=private)
            if st != "ok" or t != lit:
                return V("bip32.vector.text_mismatch." + half, {"path": ptxt, "got": t}, lit)
            rec.ev("parse.bip32")
            st, back = observe(net.parse.bip32, lit)
            if st != "ok" or back is None or not hasattr(back, "tree_depth"):
                return V("bip32.vector.parse_failed." + half, {"path": ptxt, "got": back}, "a node for %s" % lit)
            d = diff_fields(fields_of(back, rec), rn, private)
            if d:
                return V("bip32.vector.parse.%s" % d[0], {"path": ptxt, "text": lit, "got": d[1]}, d[2])
            st, t = observe(back.hwif, as_private=private)
            if st != "ok" or t != lit:
                return V("bip32.vector.roundtrip.text_changed." + half, {"path": ptxt, "got": t}, lit)


def run_vectors(spec, rec, ctx):
    for code in ("BTC", "XTN"):
        for vi in range(len(RB.VECTORS)):
            chk_vectors({"kind": "vectors", "net": code, "vector": vi}, rec, ctx)


# ---------------------------------------------------------------------------------------------------------
# kind "longrun": the N-th operation.  ONE node object is asked for more than 2^16 + 100 DISTINCT children (its sub-key cache
# holds one entry per (index, hardened, as_private); the process performs as many generator multiplications), with repeats of
# earlier requests in between.  Every child is judged: secret, chain code, depth, parent fingerprint and child number directly
# (the hash step of CKDpriv / CKDpub costs no curve arithmetic), the public pair of every child through a running point sum
# that is compared once per block with ONE reference multiplication (sum point(k_j) = point(sum k_j); for a public-only parent
# sum K_j = point(sum I_L,j) + count * K_parent); a sample and the window around 2^16 get the full reference and both texts.
# A block whose sum disagrees is re-judged child by child with the full reference to name the first wrong child.

LONG_BLOCK = 512
LONG_MARK = 1 << 16


def longrun_op(case, t):
    """request number t of the run -> (index, hardened, as_private argument); a function of the case alone (replayable).
    Distinct t give distinct (index, hardened, as_private) as long as step is odd and the kinds are distinct lookups."""
    kinds = case["kinds"]
    u, w = divmod(t, len(kinds))
    hard, ap = kinds[w]
    return (case["start"] + u * case["step"]) % HARD, bool(hard), (None if ap is None else bool(ap))


def chk_longrun(case, rec, ctx):
    code, seed, base, public, n = case["net"], case["seed"], list(case["base"]), case["public"], case["n"]
    net = ctx.nets[code]
    prv, pub = ctx.prefixes[code]["bip32"]
    C = RB.C

    def V(mech, observed, expected, upto=None):
        rec.violation(mech, dict(case, n=upto) if upto is not None else case, observed, expected)
    try:
        rbase = RB.derive(RB.master(seed), base)
    except RB.Invalid:
        rec.ev("reference_invalid_key")
        return
    st, shared = observe(lambda: net.keys.bip32_seed(seed).subkey_for_path(RB.path_text(base)))
    if st != "ok":
        return V("bip32.subkey_for_path_raises", shared, "a node")
    if public:
        # a public-only account node read from its text, as a watch-only scanner holds it
        st, shared = node_from_text(ctx, code, "bip32", RB.to_text(rbase, pub, False), rec)
        if st != "ok" or shared is None:
            return V("bip32.roundtrip.parse_failed", shared, "a node")
        rbase = rbase.neuter()
    rec.ev("longrun.public_parent" if public else "longrun.private_parent")
    st, own_text = observe(shared.hwif, as_private=not public)
    if st != "ok":
        return V("bip32.hwif_raises", own_text, "text")
    serK, fp, depth1 = RB.serP(rbase.K), rbase.fingerprint(), rbase.depth + 1
    pairs = []                     # public pair handed out for request t (first time)
    acc, ssum, cnt = RB.PointSum(), 0, 0
    block = []                     # (t, child) of the current block, kept for the child-by-child fallback
    distinct = 0

    def tweak(t):
        i, hard, ap = longrun_op(case, t)
        ci = i + (HARD if hard else 0)
        il, cc = RB.ckd_tweak(rbase.c, serK, rbase.k, ci)
        want_private = rbase.k is not None and ap is not False
        ki = None
        if rbase.k is not None:
            ki = (il + rbase.k) % RB.N
            if ki == 0:
                raise RB.Invalid("zero key")
        return i, hard, ap, ci, il, cc, ki, want_private

    def direct(ch, tw):
        """the fields that need no curve arithmetic; -> (field, got, expected) or None, and the public pair"""
        i, hard, ap, ci, il, cc, ki, want_private = tw
        sec = ch.secret_exponent()
        if sec != (ki if want_private else None):
            return ("secret", sec, ki if want_private else None), None
        g = ch.chain_code()
        if bytes(g) != cc or not isinstance(g, (bytes, bytearray, memoryview)):
            return ("chain_code", g, cc), None
        if ch.tree_depth() != depth1:
            return ("depth", ch.tree_depth(), depth1), None
        g = ch.parent_fingerprint()
        if bytes(g) != fp or not isinstance(g, (bytes, bytearray, memoryview)):
            return ("parent_fingerprint", g, fp), None
        if ch.child_index() != ci:
            return ("child_number", ch.child_index(), ci), None
        P = ch.public_pair()
        P = tuple(P) if P is not None else None
        if P is None or len(P) != 2 or not all(isinstance(v, int) for v in P) or not C.on_curve(P):
            return ("public_pair", P, "a point of the curve"), None
        return None, (int(P[0]), int(P[1]))

    def full(ch, tw, t, texts):
        """full reference for one child (one multiplication), optionally both texts; -> True when it agrees"""
        i, hard, ap, ci, il, cc, ki, want_private = tw
        rec.ev("longrun.full_reference")
        try:
            rch = RB.ckd_priv(rbase, ci) if rbase.k is not None else RB.ckd_pub(rbase, ci)
        except RB.Invalid:
            return True
        d = diff_fields(fields_of(ch, rec), rch, want_private)
        if d:
            V("bip32.longrun.%s" % d[0], {"request": t, "args": [i, hard, ap], "got": d[1]}, d[2], t + 1)
            return False
        if texts:
            for half in ((True, False) if want_private else (False,)):
                rec.ev("longrun.text")
                st, txt = observe(ch.hwif, as_private=half)
                exp = RB.to_text(rch, prv if half else pub, half)
                if st != "ok" or txt != exp:
                    V("bip32.longrun.hwif_mismatch.%s" % ("prv" if half else "pub"), {"request": t, "args": [i, hard, ap], "got": txt}, exp, t + 1)
                    return False
        return True

    def close_block(upto):
        """compare the running sum of the block's public pairs with one reference multiplication"""
        nonlocal acc, ssum, cnt, block
        if not block:
            return True
        rec.ev("longrun.block_sum")
        rec.case(("longrun", code, seed, tuple(base), public, case["start"], case["step"], freeze(case["kinds"]), upto), n=len(block))
        exp = RB.point(ssum)
        if rbase.k is None:
            exp = C.add(exp, C.mul(cnt, rbase.K))
        ok = acc.value() == exp
        if not ok:
            for t, ch in block:
                if not full(ch, tweak(t), t, False):
                    return False
            rec.ev("inconclusive:longrun_block_sum_disagrees_but_every_child_agrees")
            rec.note("longrun: block ending at request %d: running sum differs from the reference, children agree one by one" % upto)
            return False
        acc, ssum, cnt, block = RB.PointSum(), 0, 0, []
        return True

    for t in range(n):
        try:
            tw = tweak(t)
        except RB.Invalid:
            pairs.append(None)
            continue
        i, hard, ap = tw[:3]
        st, ch = observe(shared.subkey, i, hard, ap)
        distinct += 1
        if st != "ok":
            return V("bip32.longrun.subkey_raises", {"request": t, "distinct_requests_so_far": distinct, "args": [i, hard, ap], "exc": ch},
                     "a node", t + 1)
        try:
            d, P = direct(ch, tw)
        except Exception as e:
            return V("bip32.longrun.accessor_raises", {"request": t, "args": [i, hard, ap], "exc": e}, "values", t + 1)
        if d:
            return V("bip32.longrun.%s" % d[0], {"request": t, "args": [i, hard, ap], "got": d[1]}, d[2], t + 1)
        pairs.append(P)
        acc.add(P)
        ssum = (ssum + (tw[6] if rbase.k is not None else tw[4])) % RB.N
        cnt += 1
        block.append((t, ch))
        near = distinct >= LONG_MARK - 6 and (distinct % LONG_MARK >= LONG_MARK - 6 or distinct % LONG_MARK <= 40)    # around each multiple of 2^16
        if near or t % 128 == 17:
            if not full(ch, tw, t, near or t % 1024 == 17):
                return
        elif tw[7] and t % 8 == 1:
            # the private text needs no curve arithmetic
            rec.ev("longrun.text")
            st, txt = observe(ch.hwif, as_private=True)
            exp = RB.to_text(RB.Node(tw[6], None, tw[5], depth1, fp, tw[3]), prv, True)
            if st != "ok" or txt != exp:
                return V("bip32.longrun.hwif_mismatch.prv", {"request": t, "args": [i, hard, ap], "got": txt}, exp, t + 1)
        # an earlier request once more (a hit of the cache, or a re-derivation if the library dropped the entry)
        if t and (near or t % 61 == 7):
            for r in ((t - 1, 0, (t * 7919) % t) if near else ((t * 7919) % t,)):
                if pairs[r] is None:
                    continue
                rec.ev("longrun.repeat")
                twr = tweak(r)
                st, again = observe(shared.subkey, twr[0], twr[1], twr[2])
                if st != "ok":
                    return V("bip32.longrun.repeat_raises", {"request": t, "repeated": r, "args": list(twr[:3]), "exc": again}, "a node", t + 1)
                try:
                    d, P = direct(again, twr)
                except Exception as e:
                    return V("bip32.longrun.accessor_raises", {"request": t, "repeated": r, "exc": e}, "values", t + 1)
                if d is None and P != pairs[r]:
                    d = ("public_pair", P, pairs[r])
                if d:
                    return V("bip32.longrun.repeat_differs.%s" % d[0], {"request": t, "repeated": r, "args": list(twr[:3]), "got": d[1]}, d[2], t + 1)
        if len(block) >= LONG_BLOCK:
            if not close_block(t + 1):
                return
        if distinct == LONG_MARK + 100:
            rec.ev("longrun.beyond_2^16")
        if distinct == 2 * LONG_MARK + 100:
            rec.ev("longrun.beyond_2^17")
    if not close_block(n):
        return
    rec.ev("longrun.requests", n)
    # nothing that was asked changed the node itself; it still derives a path
    d = diff_fields(fields_of(shared, rec), rbase, not public)
    if d:
        return V("bip32.history.node_changed.%s" % d[0], d[1], d[2])
    st, txt = observe(shared.hwif, as_private=not public)
    if st != "ok" or txt != own_text:
        return V("bip32.history.node_changed.text", txt, own_text)
    tail = [longrun_op(case, 0)[0], 1, 2] if public else [longrun_op(case, 0)[0], HARD + 1, 2]
    rec.ev("subkey_for_path")
    st, deep = observe(shared.subkey_for_path, RB.path_text(tail))
    if st != "ok":
        return V("bip32.subkey_for_path_raises", deep, "a node")
    d = diff_fields(fields_of(deep, rec), RB.derive(rbase, tail), not public)
    if d:
        return V("bip32.history.path.%s" % d[0], {"path": RB.path_text(tail), "got": d[1]}, d[2])


def run_longrun(spec, rec, ctx):
    rng = shard_rng(spec["seed"], PROPERTY, spec["tier"], spec["shard"])
    public = spec.get("public")
    if public is None:
        public = rng.random() < 0.5
    kinds = [[0, None]] if public else rng.choice([[[0, None]], [[0, None], [1, None]], [[0, None], [0, 0], [1, 1], [1, 0]]])
    case = {"kind": "longrun", "net": rng.choice(["BTC", "XTN"]), "seed": gen_seed(rng, 1),
            "base": [gen_index(rng) for _ in range(rng.choice([0, 1, 3]))], "public": bool(public), "kinds": kinds,
            "start": rng.choice([0, 0, (1 << 24) - 20000, HARD - 9000, rng.randrange(HARD)]),
            "step": rng.choice([1, 1, 1, rng.randrange(HARD) | 1]), "n": spec["n"]}
    if public:      # the account node of a watch-only wallet sits below hardened steps
        case["base"] = [HARD + 84, HARD, HARD + rng.randrange(4), rng.randrange(2)][:rng.choice([0, 3, 4])]
    rec.sample({k: v for k, v in case.items()})
    chk_longrun(case, rec, ctx)


# ---------------------------------------------------------------------------------------------------------
# kind "objs": ONE history over SEVERAL related node objects in one process: a node, the nodes override_network() makes of
# it on other networks (and of those, back again), cached children taken as nodes in their own right and moved, public
# copies.  The same child is requested on both sides of every move, in both orders, by subkey() and by path, private and
# public-only; between the judged requests: calls the library refuses part-way (an index that is a float / str / None /
# 2^31 / 2^32 / negative, the SAME index the next judged request uses; paths failing late; texts and blobs that do not
# parse; a private form asked of a public-only node), after each of which the object must be what it was; caller-owned
# mutable arguments (bytearray seed / blob / Electrum master public key, reused by the caller afterwards) and returned
# mutable containers scribbled over by the caller.
# Judged: every child against the reference; its texts must be texts of the network of the node it was asked of (the
# node's own flavour for a node that was never moved; any flavour the destination defines for a moved one) and read back
# there; a refused call leaves fields and text of the node as they were.  Whether a call is refused is not judged.

def _own_text(n, private=None):
    return n.hwif(as_private=n.secret_exponent() is not None if private is None else private)


def _net_of(nd, ctx):
    return ctx.nets[nd["code"]]


def _flip_last(text):
    return text[:-1] + ("2" if text[-1] != "2" else "3")


# name -> call(node record, ctx, i): a call that today's library refuses (raises, or answers None) - or not: not judged
REFUSALS = {
    "idx_float": lambda nd, ctx, i: nd["py"].subkey(float(i)),
    "idx_float_hardened": lambda nd, ctx, i: nd["py"].subkey(float(i), True),
    "idx_float_public": lambda nd, ctx, i: nd["py"].subkey(float(i), False, False),
    "idx_str": lambda nd, ctx, i: nd["py"].subkey(str(i)),
    "idx_none": lambda nd, ctx, i: nd["py"].subkey(None),
    "idx_bytes": lambda nd, ctx, i: nd["py"].subkey(b"\0"),
    "idx_2^31": lambda nd, ctx, i: nd["py"].subkey(1 << 31),
    "idx_plus_2^31": lambda nd, ctx, i: nd["py"].subkey(i + (1 << 31)),
    "idx_plus_2^32": lambda nd, ctx, i: nd["py"].subkey(i + (1 << 32)),
    "idx_plus_2^32_hardened": lambda nd, ctx, i: nd["py"].subkey(i + (1 << 32), True),
    "idx_negative": lambda nd, ctx, i: nd["py"].subkey(i - (1 << 31)),
    "idx_minus_1": lambda nd, ctx, i: nd["py"].subkey(-1, True),
    "hardened_public": lambda nd, ctx, i: nd["py"].subkey(i, True, False) if nd["ref"].k is None else nd["py"].public_copy().subkey(i, True),
    "path_late_float": lambda nd, ctx, i: nd["py"].subkey_for_path("%d/1.5" % i),
    "path_late_2^31": lambda nd, ctx, i: nd["py"].subkey_for_path("%d/2147483648" % i),
    "path_late_2^32": lambda nd, ctx, i: nd["py"].subkey_for_path("%d/%d" % (i, (1 << 32) + i)),
    "path_late_empty": lambda nd, ctx, i: nd["py"].subkey_for_path("%d/" % i),
    "path_late_marker_only": lambda nd, ctx, i: nd["py"].subkey_for_path("%d/H" % i),
    "path_late_negative": lambda nd, ctx, i: nd["py"].subkey_for_path("%d/-5" % i),
    "path_late_pub": lambda nd, ctx, i: nd["py"].subkey_for_path("%d/x.pub" % i),
    "path_bytes": lambda nd, ctx, i: nd["py"].subkey_for_path(b"%d" % i),
    "path_none": lambda nd, ctx, i: nd["py"].subkey_for_path(None),
    "path_int": lambda nd, ctx, i: nd["py"].subkey_for_path(i),
    "subkeys_late": lambda nd, ctx, i: list(nd["py"].subkeys("%d-%d/x" % (i, i + 1))),
    "subkeys_2^31": lambda nd, ctx, i: list(nd["py"].subkeys("%d/2147483647-2147483648" % i)),
    "children_none": lambda nd, ctx, i: list(nd["py"].children(max_level=None)),
    "children_past_end": lambda nd, ctx, i: list(nd["py"].children(max_level=1, start_index=(1 << 31) - 1, include_hardened=False)),
    "children_float": lambda nd, ctx, i: list(nd["py"].children(max_level=0, start_index=float(i))),
    "hwif_private_of_public": lambda nd, ctx, i: nd["py"].public_copy().hwif(as_private=True) if nd["ref"].k is not None else nd["py"].hwif(as_private=True),
    "serialize_private_of_public": lambda nd, ctx, i: nd["py"].serialize(as_private=True) if nd["ref"].k is None else nd["py"].public_copy().serialize(True),
    "parse_bad_checksum": lambda nd, ctx, i: _net_of(nd, ctx).parse.bip32(_flip_last(_own_text(nd["py"]))),
    "parse_bad_checksum_generic": lambda nd, ctx, i: _net_of(nd, ctx).parse.hierarchical_key(_flip_last(_own_text(nd["py"]))),
    "parse_truncated": lambda nd, ctx, i: _net_of(nd, ctx).parse.bip32(_own_text(nd["py"])[:-3]),
    "parse_none": lambda nd, ctx, i: _net_of(nd, ctx).parse.bip32(None),
    "parse_bytes": lambda nd, ctx, i: _net_of(nd, ctx).parse.bip32(_own_text(nd["py"]).encode()),
    "parse_int": lambda nd, ctx, i: _net_of(nd, ctx).parse.hierarchical_key(i),
    "parse_seed_text_odd": lambda nd, ctx, i: _net_of(nd, ctx).parse.bip32_seed("H:abc"),
    "parse_child_text_bad": lambda nd, ctx, i: _net_of(nd, ctx).parse.bip32(_flip_last(_own_text(nd["py"].subkey(i)))),
    "deser_short": lambda nd, ctx, i: _net_of(nd, ctx).keys.bip32_deserialize(b"\0\0\0\0" + nd["py"].serialize()[:-1]),
    "deser_long": lambda nd, ctx, i: _net_of(nd, ctx).keys.bip32_deserialize(b"\0\0\0\0" + nd["py"].serialize() + b"\0"),
    "deser_str": lambda nd, ctx, i: _net_of(nd, ctx).keys.bip32_deserialize(_own_text(nd["py"])),
    "deser_none": lambda nd, ctx, i: _net_of(nd, ctx).keys.bip32_deserialize(None),
    "deser_zero_key": lambda nd, ctx, i: _net_of(nd, ctx).keys.bip32_deserialize(b"\0\0\0\0" + bytes(nd["py"].serialize())[:41] + b"\0" * 33),
    "deser_key_ge_n": lambda nd, ctx, i: _net_of(nd, ctx).keys.bip32_deserialize(b"\0\0\0\0" + bytes(nd["py"].serialize())[:41] + b"\0" + b"\xff" * 32),
    "deser_bad_point": lambda nd, ctx, i: _net_of(nd, ctx).keys.bip32_deserialize(b"\0\0\0\0" + bytes(nd["py"].serialize())[:41] + b"\2" + b"\0" * 31 + b"\5"),
    "deser_bytearray": lambda nd, ctx, i: _net_of(nd, ctx).keys.bip32_deserialize(bytearray(b"\0\0\0\0" + nd["py"].serialize())),
    "seed_none": lambda nd, ctx, i: _net_of(nd, ctx).keys.bip32_seed(None),
    "seed_str": lambda nd, ctx, i: _net_of(nd, ctx).keys.bip32_seed("00" * 16),
    "seed_int": lambda nd, ctx, i: _net_of(nd, ctx).keys.bip32_seed(i),
    "move_none": lambda nd, ctx, i: nd["py"].override_network(None),
    "move_str": lambda nd, ctx, i: nd["py"].override_network("XTN"),
    "sign_none": lambda nd, ctx, i: nd["py"].sign(None),
    "verify_garbage": lambda nd, ctx, i: nd["py"].verify(H32, b"\x30\x00"),
    "fingerprint_bad_arg": lambda nd, ctx, i: nd["py"].subkey(i).fingerprint(is_compressed="x" * i),
}
RNAMES = sorted(REFUSALS)
SAME_INDEX_REFUSALS = ("idx_float", "idx_float_hardened", "idx_float_public", "idx_str", "idx_plus_2^32", "idx_plus_2^32_hardened",
                       "idx_plus_2^31", "idx_negative")


def _scribble(v, rec):
    """the caller edits a container the library handed out (if it is a mutable one)"""
    rec.ev("mutret.looked")
    if isinstance(v, bytearray):
        for j in range(len(v)):
            v[j] ^= 0xFF
        rec.ev("mutret.scribbled")
    elif isinstance(v, list):
        del v[:]
        rec.ev("mutret.scribbled")
    elif isinstance(v, dict):
        v.clear()
        rec.ev("mutret.scribbled")


SCRIBBLES = {
    "serialize": lambda n: n.serialize(), "serialize_pub": lambda n: n.serialize(as_private=False),
    "serialize_pos_pub": lambda n: n.serialize(False), "chain_code": lambda n: n.chain_code(),
    "parent_fingerprint": lambda n: n.parent_fingerprint(), "fingerprint": lambda n: n.fingerprint(), "sec": lambda n: n.sec(),
    "hash160": lambda n: n.hash160(), "public_pair": lambda n: n.public_pair(), "ku_output": lambda n: n.ku_output(),
    "child_serialize": lambda n: n.subkey(0).serialize(as_private=False), "child_chain_code": lambda n: n.subkey(0).chain_code(),
}
SNAMES = sorted(SCRIBBLES)


def chk_objs(case, rec, ctx):
    code0, bip, seed, base, public = case["net"], case["bip"], case["seed"], list(case["base"]), case["public"]
    if code0 not in ctx.nets or bip not in ctx.prefixes[code0] or any(op[0] == "move" and op[2] not in ctx.nets for op in case["ops"]):
        return
    rec.case(("objs", code0, bip, seed, tuple(base), public, case.get("root_arg"), freeze(case["ops"]), freeze(case.get("electrum"))))

    def V(mech, observed, expected):
        rec.violation(mech, case, observed, expected)
    try:
        rroot = RB.derive(RB.master(seed), base)
    except RB.Invalid:
        rec.ev("reference_invalid_key")
        return
    net0 = ctx.nets[code0]
    prv0, pub0 = ctx.prefixes[code0][bip]
    # the root: from the seed (bip32; the seed possibly in a caller-owned bytearray the caller goes on using), or read from text
    ba = None
    if bip == "bip32" and case.get("root_arg") == "bytearray":
        rec.ev("mutarg.seed_bytearray")
        ba = bytearray(seed)
        st, m = observe(net0.keys.bip32_seed, ba)
        if st == "ok":
            if bytes(ba) != seed:
                return V("bip32.argument_modified.seed", bytes(ba), seed)
            st2, m2 = observe(net0.keys.bip32_seed, ba)
            t1, t2 = observe(lambda: m.hwif(as_private=True)), observe(lambda: m2.hwif(as_private=True))
            if st2 != "ok" or t1 != t2:
                return V("bip32.same_argument_other_answer.seed", [t1[1], m2 if st2 != "ok" else t2[1]], "equal")
            for j in range(len(ba)):      # the caller reuses its buffer
                ba[j] = 0xA5
            rec.ev("mutarg.accepted")
        else:
            rec.ev("mutarg.refused")      # not accepted (today it is): not judged
            st, m = observe(net0.keys.bip32_seed, seed)
    elif bip == "bip32":
        st, m = observe(net0.keys.bip32_seed, seed)
    else:
        st, m = node_from_text(ctx, code0, bip, RB.to_text(RB.master(seed), prv0, True), rec)
    if st != "ok" or m is None:
        return V("%s.master_raises" % bip, m, "a node")
    st, root = observe(m.subkey_for_path, RB.path_text(base))
    if st != "ok":
        return V("bip32.subkey_for_path_raises", root, "a node")
    if public:
        if case.get("root_arg") == "deserialize_bytearray":
            # a blob in a caller-owned bytearray (refused today: not judged; when accepted the caller's edits must not reach the node)
            rec.ev("mutarg.blob_bytearray")
            blob = bytearray(pub0 + RB.payload(rroot, False))
            st, r2 = observe(getattr(net0.keys, "%s_deserialize" % bip), blob)
            if st == "ok" and r2 is not None:
                if bytes(blob) != pub0 + RB.payload(rroot, False):
                    return V("bip32.argument_modified.blob", bytes(blob), "unchanged")
                for j in range(4, len(blob)):
                    blob[j] ^= 0xFF
                rec.ev("mutarg.accepted")
                root = r2
            else:
                rec.ev("mutarg.refused")
                root = root.public_copy()
        else:
            st, root = observe(root.public_copy)
            if st != "ok":
                return V("bip32.public_copy_raises", root, "a node")
        rroot = rroot.neuter()
    rec.ev("objs.public" if public else "objs.private")

    nodes = [{"py": root, "ref": rroot, "code": code0, "flavours": [bip], "moved": False, "from": None, "seen": set()}]
    memo = {}

    def rchild(ref, ci):
        key = (ref.k, ref.K, ref.c, ci)
        if key not in memo:
            try:
                memo[key] = RB.ckd_priv(ref, ci) if ref.k is not None else RB.ckd_pub(ref, ci)
            except RB.Invalid:
                memo[key] = None
        return memo[key]

    def role(nd):
        return "moved_node" if nd["moved"] else "source_node"

    def texts_of(nd, ref, half):
        out = {}
        for f in nd["flavours"]:
            vp = ctx.prefixes[nd["code"]].get(f)
            if vp:
                out[RB.to_text(ref, vp[0] if half else vp[1], half)] = f
        return out

    def judge(nd, got, ref, private, what):
        """a node handed out by node record nd (or nd's own node): fields, texts of nd's network, read back there"""
        d = diff_fields(fields_of(got, rec), ref, private)
        if d:
            V("bip32.objs.%s.%s" % (d[0], role(nd)), dict(what, field=d[0], got=d[1]), d[2])
            return False
        for half in ((True, False) if private else (False,)):
            rec.ev("hwif")
            allowed = texts_of(nd, ref, half)
            st, t = observe(got.hwif, as_private=half)
            if st != "ok" or t not in allowed:
                V("bip32.objs.text_not_of_the_nodes_network.%s" % role(nd), dict(what, network=nd["code"], half="prv" if half else "pub", got=t),
                  sorted(allowed))
                return False
            st, back = node_from_text(ctx, nd["code"], allowed[t], t, rec)
            if st != "ok" or back is None or not hasattr(back, "tree_depth"):
                V("bip32.objs.text_not_read_back.%s" % role(nd), dict(what, network=nd["code"], text=t, got=back), "a node")
                return False
            st, again = observe(back.hwif, as_private=half)
            d = diff_fields(fields_of(back, rec), ref if half else ref.neuter(), half)
            if st != "ok" or again != t or d:
                V("bip32.objs.text_roundtrip.%s" % role(nd), dict(what, network=nd["code"], text=t, again=again, field=d and d[0]), "same")
                return False
        return True

    def unchanged(nd, what):
        private = nd["ref"].k is not None
        d = diff_fields(fields_of(nd["py"], rec), nd["ref"], private)
        if d:
            V("bip32.objs.node_changed.%s" % d[0], dict(what, got=d[1]), d[2])
            return False
        st, t = observe(nd["py"].hwif, as_private=private)
        if st != "ok" or t != nd["text"]:
            V("bip32.objs.node_changed.text", dict(what, got=t), nd["text"])
            return False
        return True

    def linked(k):
        """nodes on the other side of a move from node k -> [(index, 'src_then_moved' when k is the moved one)]"""
        out = []
        if nodes[k]["from"] is not None:
            out.append((nodes[k]["from"], "src_then_moved"))
        for j, o in enumerate(nodes):
            if o is not None and o["from"] == k:
                out.append((j, "moved_then_src"))
        return out

    def note_request(k, req):
        nd = nodes[k]
        if req not in nd["seen"]:
            for j, order in linked(k):
                if req in nodes[j]["seen"]:
                    rec.ev("move." + order)
                    rec.ev("move.%s.%s" % (order, "public" if nd["ref"].k is None else "private"))
                    if req[0] == "path":
                        rec.ev("move.path_request")
        nd["seen"].add(req)

    st, t0 = observe(_own_text, root)
    if st != "ok":
        return V("bip32.hwif_raises", t0, "text")
    nodes[0]["text"] = t0
    if not judge(nodes[0], root, rroot, not public, {"op": "root"}):
        return
    refused_index = {}          # node -> index of the last refused call that used the pool index

    for pos, op in enumerate(case["ops"]):
        name, k = op[0], op[1]
        nd = nodes[k] if k < len(nodes) else None
        if name in ("move", "child", "pub") and nd is None:
            nodes.append(None)
            continue
        if nd is None:
            continue
        what = {"op": list(op), "position": pos, "node": k, "network": nd["code"]}
        private = nd["ref"].k is not None
        if name == "move":
            code = op[2]
            rec.ev("move")
            st, mv = observe(nd["py"].override_network, ctx.nets[code])
            if st != "ok" or mv is None or not hasattr(mv, "tree_depth"):
                rec.ev("move.refused")          # the statement does not say a node can be moved: not judged
                nodes.append(None)
                continue
            rec.ev("move.moved")
            if ctx.prefixes[code]["bip32"] != ctx.prefixes[nd["code"]].get("bip32"):
                rec.ev("move.prefix_differs")
            if nd["moved"]:
                rec.ev("move.again")
            if code == nodes[0]["code"] and nd["moved"]:
                rec.ev("move.back")
            mprivate = observe(mv.secret_exponent)[1] is not None
            new = {"py": mv, "ref": nd["ref"] if mprivate or not private else nd["ref"].neuter(), "code": code,
                   "flavours": [b for b in BIPS if b in ctx.prefixes[code]], "moved": True, "from": k, "seen": set()}
            if private and not mprivate:
                rec.ev("move.became_public")
            nodes.append(new)
            if not judge(new, mv, new["ref"], new["ref"].k is not None, what):
                return
            st, new["text"] = observe(_own_text, mv)
            # the flavour the moved node shows is the flavour its children show
            new["flavours"] = [f for f in new["flavours"] if new["text"] in texts_of(dict(new, flavours=[f]), new["ref"], new["ref"].k is not None)] or new["flavours"]
            if not unchanged(nd, dict(what, after="move")):
                return
        elif name == "pub":
            rec.ev("public_copy")
            st, pc = observe(nd["py"].public_copy)
            if st != "ok":
                return V("bip32.public_copy_raises", pc, "a node")
            new = dict(nd, py=pc, ref=nd["ref"].neuter(), seen=set(), **{"from": None})
            nodes.append(new)
            if not judge(new, pc, new["ref"], False, what):
                return
            new["text"] = observe(_own_text, pc)[1]
        elif name in ("ask", "child"):
            i, hard = op[2], bool(op[3])
            ap = None if name == "child" or op[4] is None else bool(op[4])
            rec.ev("subkey")
            rec.ev("objs.ask")
            if refused_index.get(k) == i:
                rec.ev("refuse.then_same_index")
            note_request(k, ("ask", i, hard, private if ap is None else ap))
            st, got = observe(nd["py"].subkey, i, hard, ap)
            if not private and hard:
                rec.ev("hardened_from_public")
                if st == "ok":
                    return V("bip32.hardened_from_public_accepted", dict(what, returned=repr(got)[:100]), "an exception")
                if name == "child":
                    nodes.append(None)
                continue
            if not private and ap and st != "ok":
                rec.ev("cache.public_parent_asked_private.refused")
                continue
            rch = rchild(nd["ref"], i + (HARD if hard else 0))
            if rch is None:
                if name == "child":
                    nodes.append(None)
                continue
            if st != "ok" or not hasattr(got, "tree_depth"):
                return V("bip32.objs.subkey_raises.%s" % role(nd) if st != "ok" else "bip32.objs.subkey_returned_no_node",
                         dict(what, exc=got) if st != "ok" else dict(what, returned=repr(got)[:100]), "a node")
            want_private = private and ap is not False
            if not judge(nd, got, rch, want_private, what):
                return
            if name == "child":
                new = dict(nd, py=got, ref=rch, seen=set(), **{"from": None})
                new["text"] = observe(_own_text, got)[1]
                nodes.append(new)
                rec.ev("objs.child_as_node")
                if nd["moved"]:
                    rec.ev("move.child_of_moved_as_node")
        elif name == "path":
            text = op[2]
            force_public = text.endswith(".pub")
            plain = text[:-4] if force_public else text
            rec.ev("subkey_for_path")
            note_request(k, ("path", plain))
            try:
                rp = RB.derive(nd["ref"], RB.parse_path(plain))
            except RB.Refused:
                rec.ev("hardened_from_public")
                st, got = observe(nd["py"].subkey_for_path, text)
                if st == "ok":
                    return V("bip32.hardened_from_public_accepted", dict(what, returned=repr(got)[:100]), "an exception")
                continue
            except RB.Invalid:
                continue
            st, got = observe(nd["py"].subkey_for_path, text)
            if st != "ok" or not hasattr(got, "tree_depth"):
                return V("bip32.objs.subkey_for_path_raises.%s" % role(nd) if st != "ok" else "bip32.objs.subkey_returned_no_node",
                         dict(what, exc=got) if st != "ok" else dict(what, returned=repr(got)[:100]), "a node")
            if not judge(nd, got, rp, private and not force_public, what):
                return
        elif name == "refuse":
            fn = REFUSALS.get(op[2])
            if fn is None:
                continue
            rec.ev("refuse.call")
            rec.ev("refuse." + op[2].split("_")[0])
            st, r = observe(fn, nd, ctx, op[3])
            rec.ev("refuse.raised" if st != "ok" else "refuse.answered_none" if r is None else "refuse.answered")
            if op[2] in SAME_INDEX_REFUSALS:
                refused_index[k] = op[3]
            if not unchanged(nd, dict(what, after="a refused call")):
                return
        elif name == "scribble":
            fn = SCRIBBLES.get(op[2])
            if fn is None:
                continue
            st, v = observe(fn, nd["py"])
            if st == "ok":
                _scribble(v, rec)
            if not unchanged(nd, dict(what, after="the caller edited what the call returned")):
                return
        elif name == "q":
            do_queries(nd["py"], op[2], rec, ctx)
    for k, nd in enumerate(nodes):
        if nd is not None and not unchanged(nd, {"node": k, "network": nd["code"], "after": "the whole history"}):
            return
    if ba is not None and bytes(ba) != b"\xa5" * len(seed):
        rec.ev("inconclusive:objs_caller_buffer_changed_by_harness")

    # Electrum: the master public key handed over in a caller-owned bytearray; refused calls between the judged ones
    el = case.get("electrum")
    if el:
        net = ctx.nets[code0]
        rec.ev("electrum.wallet")
        st, w = observe(net.keys.electrum_private, master_private_key=el["secret"])
        if st != "ok":
            return V("electrum.construct_raises", w, "a wallet")
        st, mpk = observe(w.master_public_key)
        if st != "ok":
            return V("electrum.master_public_key_raises", mpk, "64 bytes")
        buf = bytearray(mpk)
        rec.ev("mutarg.electrum_mpk_bytearray")
        st, pw = observe(net.keys.electrum_public, master_public_key=buf)
        if st != "ok":
            rec.ev("mutarg.refused")
            st, pw = observe(net.keys.electrum_public, master_public_key=bytes(mpk))
            if st != "ok":
                return V("electrum.construct_raises", pw, "a wallet")
        else:
            rec.ev("mutarg.accepted")
            if bytes(buf) != bytes(mpk):
                return V("electrum.argument_modified.master_public_key", bytes(buf), bytes(mpk))
        for rnd in (0, 1):
            for path in el["paths"]:
                for bad in el.get("bad", []):
                    rec.ev("refuse.call")
                    rec.ev("refuse.electrum")
                    for wallet in (w, pw):
                        stb, _ = observe(wallet.subkey, bad)
                        rec.ev("refuse.raised" if stb != "ok" else "refuse.answered")
                rec.ev("electrum.subkey")
                rec.ev("electrum.commutation")
                st, a = observe(lambda: tuple(w.subkey(path).public_pair()))
                st2, b = observe(lambda: tuple(pw.subkey(path).public_pair()))
                if st != "ok" or st2 != "ok" or a != b:
                    return V("electrum.commute_mismatch", {"path": path, "private_side": a, "public_side": b, "round": rnd,
                                                           "public_wallet": "from a bytearray the caller reused" if rnd else "from a bytearray"}, "equal")
            for j in range(len(buf)):      # the caller reuses its buffer; the second round must give what the first gave
                buf[j] = 0x11


def gen_objs_case(rng, ctx, k):
    by_bip = {b: [c for c in ctx.codes if b in ctx.prefixes[c]] for b in BIPS}
    bip = rng.choice(["bip32", "bip32", "bip32", "bip49", "bip84"])
    if not by_bip[bip]:
        bip = "bip32"
    main = [c for c in ("BTC", "XTN", "LTC") if c in by_bip[bip]] or by_bip[bip]
    src = rng.choice(main) if rng.random() < 0.6 else rng.choice(by_bip[bip])
    others = [c for c in ctx.codes if c != src]
    differing = [c for c in others if ctx.prefixes[c]["bip32"] != ctx.prefixes[src].get("bip32")]
    r = rng.random()
    dst = rng.choice([c for c in ("BTC", "XTN", "LTC") if c in differing] or differing or others) if r < 0.5 else \
        rng.choice(differing or others) if r < 0.8 else rng.choice(others)
    third = rng.choice(others)
    public = rng.random() < 0.45
    pool = [rng.choice(EDGE_INDICES) for _ in range(2)] + [rng.randrange(HARD)]

    def ask(kk, same=None):
        if same is not None:
            return ["ask", kk] + same[2:]
        return ["ask", kk, rng.choice(pool), rng.random() < (0.08 if public else 0.35), rng.choice([None, None, 0, 1])]

    def path(kk):
        p = [rng.choice(pool) + (HARD if (not public) and rng.random() < 0.3 else 0), rng.choice(pool)]
        return ["path", kk, RB.path_text(p, rng.choice("Hp'")) + (".pub" if rng.random() < 0.25 else "")]

    def noise(kk):
        r = rng.random()
        if r < 0.45:
            nm = rng.choice(RNAMES) if rng.random() < 0.6 else rng.choice(SAME_INDEX_REFUSALS)
            i = rng.choice(pool)
            out = [["refuse", kk, nm, i]]
            if nm in SAME_INDEX_REFUSALS:       # ... then the same index, validly
                out.append(["ask", kk, i, "hardened" in nm and not public, 0 if "public" in nm else None])
            return out
        if r < 0.6:
            return [["scribble", kk, rng.choice(SNAMES)]]
        if r < 0.7:
            return [["q", kk, gen_queries(rng, (1, 1, 2))]]
        return []
    A = [ask(0) for _ in range(rng.choice([1, 2, 3]))] + [path(0) for _ in range(rng.choice([0, 1]))]
    B = [ask(1) for _ in range(rng.choice([1, 2, 3]))] + [path(1) for _ in range(rng.choice([0, 1]))]
    ops = []
    for o in A:                                   # before the move, on the source
        ops += noise(0) + [o]
    ops.append(["move", 0, dst])                  # node 1
    for o in A + B:                               # on the moved node: what the source has derived, and new children
        ops += noise(1) + [[o[0], 1] + o[2:]]
    for o in B + A:                               # back on the source: what the moved node derived first, and its own again
        ops += noise(0) + [[o[0], 0] + o[2:]]
    n = 2
    r = rng.random()
    if r < 0.35:                                  # moved once more (back home, or on to a third network)
        ops.append(["move", 1, src if rng.random() < 0.6 else third])
        for o in rng.sample(A + B, min(3, len(A + B))):
            ops += noise(n) + [[o[0], n] + o[2:]]
        for o in rng.sample(A + B, 2):
            ops.append([o[0], 1] + o[2:])
        n += 1
    elif r < 0.65:                                # a cached child taken as a node, used, moved, asked on both sides
        i, hard = rng.choice(pool), (not public) and rng.random() < 0.3
        ops.append(["child", rng.choice([0, 1]), i, hard])
        c = n
        n += 1
        C = [ask(c) for _ in range(2)]
        ops += [list(o) for o in C[:1]]
        ops.append(["move", c, rng.choice([dst, src, third])])
        m = n
        n += 1
        for o in C:
            ops += noise(m) + [[o[0], m] + o[2:]]
        for o in C:
            ops += noise(c) + [[o[0], c] + o[2:]]
    elif r < 0.85 and not public:                 # a public copy taken late, moved, asked what the private side derived
        ops.append(["pub", rng.choice([0, 1])])
        c = n
        n += 1
        asks = [["ask", c, o[2], False, None] for o in A + B if o[0] == "ask"][:3]
        ops += asks[:1]
        ops.append(["move", c, rng.choice([dst, src, third])])
        for o in asks:
            ops.append(["ask", n, o[2], False, 0])
        for o in asks:
            ops.append(["ask", c, o[2], False, None])
        n += 1
    case = {"kind": "objs", "net": src, "bip": bip, "seed": gen_seed(rng, k + 1), "base": [gen_index(rng) for _ in range(rng.choice([0, 0, 1, 2]))],
            "public": public, "ops": ops}
    if bip == "bip32" and rng.random() < 0.4:
        case["root_arg"] = "bytearray"
    elif public and rng.random() < 0.3:
        case["root_arg"] = "deserialize_bytearray"
    if k % 4 == 0:
        case["electrum"] = {"secret": rng.choice([1, RB.N - 1, rng.randrange(1, RB.N)]),
                            "paths": ["%d/%d" % (rng.choice([0, 1, 65536, rng.randrange(1 << 31)]), rng.choice([0, 1])) for _ in range(2)],
                            "bad": rng.sample(["x", "1/2/3", "", "1.5", None, 5, "0/0/"], 2)}
    return case


def run_objs(spec, rec, ctx):
    rng = shard_rng(spec["seed"], PROPERTY, spec["tier"], spec["shard"])
    for k in range(spec["n"]):
        case = gen_objs_case(rng, ctx, k)
        chk_objs(case, rec, ctx)
        if k < 2:
            rec.sample({"kind": "objs", "net": case["net"], "bip": case["bip"], "public": case["public"], "ops": case["ops"][:10]})


# ---------------------------------------------------------------------------------------------------------
# kind "shared": ONE text object with a history.  pycoin hands out network.parseable_str_type (a str subclass that carries a
# cache of what parsers learnt about the text) so that a caller can wrap a text once and offer the same object to several
# parsers and several networks (pycoin.cmds.ku.parse_key does so).  The round trip through the text form is demanded "on every
# network that defines them" whatever was done with the text object before: a history of parse calls (any entry point of any
# network, the owning one included) is issued on the one object; every call of the OWNING network through an entry point that
# reads this flavour and half must hand out the reference node.  What the other calls return is not judged.

SHARED_ATTRS = ("bip32", "bip49", "bip84", "bip32_prv", "bip32_pub", "bip49_prv", "bip49_pub", "bip84_prv", "bip84_pub",
                "hierarchical_key", "secret", "__call__", "private_key", "public_key", "address", "wif", "electrum_prv", "electrum_pub",
                "bip32_seed", "payable")
SHARED_CARRIERS = ("own", "own", "other", "other", "module", "rewrap", "str")


def shared_judged_attrs(bip, private):
    """parse entry points that the round trip is demanded through for a text of this flavour and half -> counter suffix"""
    out = {bip: "bip", "%s_%s" % (bip, "prv" if private else "pub"): "split", "hierarchical_key": "hierarchical_key"}
    if private:
        out.update({"secret": "secret", "__call__": "call"})
    return out


def shared_carrier(ctx, how, code, other, text, rec):
    """the one text object of the history; None when this tree has no such type"""
    if how == "str":
        return str(text)
    net = ctx.nets[other if how == "other" and other in ctx.nets else code]
    cls = None if how == "module" else getattr(net, "parseable_str_type", None)
    if cls is None:
        try:
            from pycoin.networks.parseable_str import parseable_str as cls
        except Exception:
            return None
    st, ps = observe(cls, text)
    if st == "ok" and how == "rewrap":
        st, ps = observe(cls, ps)
    if st != "ok" or not isinstance(ps, str) or ps != text:
        return None
    return ps


def chk_shared(case, rec, ctx):
    code, bip, private = case["net"], case["bip"], case["private"]
    if code not in ctx.nets or bip not in ctx.prefixes[code]:
        return
    k = case["secret"]
    ref = RB.Node(k, RB.point(k), case["chain_code"], case["depth"], case["pfp"], case["child"])
    if not private:
        ref = ref.neuter()
    ops = [tuple(o) for o in case["ops"]]
    rec.case(("shared", code, bip, private, k, case["chain_code"], case["depth"], case["pfp"], case["child"], case["carrier"],
              case.get("other"), tuple(ops), case["index"]))
    prv, pub = ctx.prefixes[code][bip]
    text = RB.to_text(ref, prv if private else pub, private)
    pubtext = RB.to_text(ref, pub, False)
    ps = shared_carrier(ctx, case["carrier"], code, case.get("other"), text, rec)
    if ps is None:
        rec.ev("shared.no_carrier")
        return
    rec.ev("shared.carrier." + ("str" if case["carrier"] == "str" else "parseable_str"))
    judged = shared_judged_attrs(bip, private)
    mine = (prv if private else pub)
    seen_other = seen_differs = seen_same_net = False
    last_judged = max([i for i, (c, a) in enumerate(ops) if c == code and a in judged] or [-1])
    for pos, (c, attr) in enumerate(ops):
        if c not in ctx.nets:
            continue
        fn = getattr(ctx.nets[c].parse, attr, None)
        if fn is None:
            rec.ev("shared.entry_absent")
            continue
        if not (c == code and attr in judged):
            rec.ev("shared.probe")
            observe(fn, ps)             # not judged: the statement does not say what another network / entry point makes of the text
            if c == code:
                seen_same_net = True
                rec.ev("shared.probe.same_network")
            else:
                seen_other = True
                theirs = ctx.prefixes[c].get(bip, (None, None))[0 if private else 1]
                if theirs != mine:
                    seen_differs = True
                rec.ev("shared.probe.other_network.prefix_%s" % ("differs" if theirs != mine else "same"))
            continue
        hist = "after_other_network" if seen_other else "after_same_network" if seen_same_net else "first_use"
        rec.ev("shared.judged")
        rec.ev("shared.judged." + hist)
        rec.ev("shared.judged." + bip)
        rec.ev("shared.via." + judged[attr])
        if seen_differs:
            rec.ev("shared.judged.after_other_network.prefix_differs")
        if case["carrier"] != "str":      # the object carries a cache: the histories the required counters speak about
            rec.ev("shared.cached_object.judged." + hist)
            if seen_differs:
                rec.ev("shared.cached_object.judged.after_other_network.prefix_differs")
        rec.ev({"bip": "parse." + bip, "split": "parse.%s.split" % bip, "hierarchical_key": "parse.hierarchical_key",
                "secret": "parse.secret", "call": "parse.call"}[judged[attr]])

        def V(mech, observed, expected):
            rec.violation("%s.shared_text.%s.%s" % (bip, mech, hist), case, observed, expected)
        st, back = observe(fn, ps)
        if st != "ok" or back is None or not hasattr(back, "tree_depth"):
            return V("parse_failed", {"op": pos, "entry": attr, "got": back if st != "ok" or back is None else repr(back)[:100]},
                     "a node for %s" % text)
        d = diff_fields(fields_of(back, rec), ref, private)
        if d:
            return V(d[0], {"op": pos, "entry": attr, "field": d[0], "got": d[1], "text": text}, d[2])
        rec.ev("hwif")
        st, t = observe(back.hwif, as_private=private)
        if st != "ok" or t != text:
            return V("text_changed", {"op": pos, "entry": attr, "got": t}, text)
        if private:
            st, t = observe(back.hwif, as_private=False)
            if st != "ok" or t != pubtext:
                return V("public_text_changed", {"op": pos, "entry": attr, "got": t}, pubtext)
        seen_same_net = True
        if pos != last_judged or case["depth"] >= 255:
            continue
        # a child of the node read last: the fields the standard defines and the text of this network and flavour
        i = case["index"]
        if not private:
            i &= HARD - 1
        try:
            rch = RB.ckd_priv(ref, i) if private else RB.ckd_pub(ref, i)
        except RB.Invalid:
            continue
        rec.ev("subkey")
        rec.ev("shared.child")
        st, ch = observe(back.subkey, i & (HARD - 1), i >= HARD)
        if st != "ok":
            return V("child_raises", {"op": pos, "entry": attr, "index": i, "got": ch}, "a node")
        d = diff_fields(fields_of(ch, rec), rch, private)
        if d:
            return V("child." + d[0], {"op": pos, "entry": attr, "index": i, "field": d[0], "got": d[1]}, d[2])
        exp = RB.to_text(rch, prv if private else pub, private)
        st, t = observe(ch.hwif, as_private=private)
        if st != "ok" or t != exp:
            return V("child_text", {"op": pos, "entry": attr, "index": i, "got": t}, exp)


def run_shared(spec, rec, ctx):
    rng = shard_rng(spec["seed"], PROPERTY, spec["tier"], spec["shard"])
    by_bip = {b: [c for c in ctx.codes if b in ctx.prefixes[c]] for b in BIPS}
    for k in range(spec["n"]):
        bip = rng.choice(["bip32", "bip32", "bip49", "bip84"])
        if not by_bip[bip]:
            bip = "bip32"
        code = rng.choice(by_bip[bip])
        if rng.random() < 0.5:
            code = rng.choice([c for c in ("BTC", "XTN", "LTC") if c in by_bip[bip]] or by_bip[bip])
        private = rng.random() < 0.5
        mine = ctx.prefixes[code][bip][0 if private else 1]
        differs = [c for c in ctx.codes if c != code and ctx.prefixes[c].get(bip, (None, None))[0 if private else 1] != mine]
        others = [c for c in ctx.codes if c != code]
        judged = sorted(shared_judged_attrs(bip, private))
        hot = judged + [bip, "hierarchical_key", "secret", "__call__", "%s_prv" % bip, "%s_pub" % bip]
        ops = []
        for _ in range(rng.choice([0, 1, 1, 2, 2, 3, 5, 8])):
            r = rng.random()
            c = code if r < 0.25 or not others else rng.choice(differs) if r < 0.75 and differs else rng.choice(others)
            ops.append([c, rng.choice(hot) if rng.random() < 0.7 else rng.choice(SHARED_ATTRS)])
        ops.append([code, rng.choice(judged)])
        if rng.random() < 0.3:       # and once more after the owning network has answered
            ops.append([rng.choice(others) if others else code, rng.choice(hot)])
            ops.append([code, rng.choice(judged)])
        case = {"kind": "shared", "net": code, "bip": bip, "private": private,
                "secret": rng.choice([1, RB.N - 1, rng.randrange(1, RB.N), rng.randrange(1, RB.N), rng.randrange(1, RB.N)]),
                "chain_code": rng.choice([b"\0" * 32, b"\xff" * 32, bytes(rng.randrange(256) for _ in range(32)),
                                          bytes(rng.randrange(256) for _ in range(32))]),
                "depth": rng.choice([0, 1, 2, 3, 128, 254, 255, rng.randrange(256)]),
                "pfp": rng.choice([b"\0\0\0\0", b"\xff\xff\xff\xff", bytes(rng.randrange(256) for _ in range(4))]),
                "child": rng.choice([0, 1, HARD - 1, HARD, (1 << 32) - 1, rng.randrange(1 << 32)]),
                "carrier": rng.choice(SHARED_CARRIERS), "other": rng.choice(others) if others else code,
                "ops": ops, "index": gen_index(rng)}
        chk_shared(case, rec, ctx)
        if k < 2:
            rec.sample({"kind": "shared", "net": code, "bip": bip, "private": private, "carrier": case["carrier"], "ops": ops[:8]})


# ---------------------------------------------------------------------------------------------------------

KINDS = {"shared": (run_shared, chk_shared), "derive": (run_derive, chk_derive), "nets": (run_nets, chk_synthetic), "spell": (run_spell, chk_spell),
         "cache": (run_cache, chk_cache), "electrum": (run_electrum, chk_electrum), "text": (run_text, chk_text),
         "vectors": (run_vectors, chk_vectors), "longrun": (run_longrun, chk_longrun), "objs": (run_objs, chk_objs)}
REQUIRED = {
    "derive": ["from_master_secret", "subkey_for_path", "subkey", "hwif", "public_copy", "commutation", "hardened_from_public",
               "parse.bip32", "accessor.secret", "accessor.public_pair", "accessor.chain_code", "accessor.depth",
               "accessor.parent_fingerprint", "accessor.child_number", "query",
               # the regions of the quantified domain ("indices 0..2^31-1 hardened or not", "any depth", spellings H p ')
               "index.hardened", "index.normal", "index.ge_2^24", "index.max", "depth.2..8", "marker.H", "marker.p", "marker.tick",
               "commutation.nonempty_tail", "commutation.below_hardened"],
    "nets": ["parse.bip32", "parse.bip49", "parse.bip84", "hwif", "subkey", "query", "network_flavour.bip32",
             "nets.roundtrip.bip32.prv", "nets.roundtrip.bip32.pub", "nets.hardened_from_public.bip32", "nets.commutation.bip32",
             "nets.roundtrip.bip49.prv", "nets.roundtrip.bip49.pub", "nets.hardened_from_public.bip49", "nets.commutation.bip49",
             "nets.roundtrip.bip84.prv", "nets.roundtrip.bip84.pub", "nets.hardened_from_public.bip84", "nets.commutation.bip84"],
    "spell": ["spelling", "subkeys", "spelling.marker.H", "spelling.marker.p", "spelling.marker.tick", "subkeys.public_root",
              "range.dash", "range.comma_list", "range.hardened", "range.hardened_dash", "range.mixed_hardening",
              "range.multi_component", "range.marker.H", "range.marker.p", "range.marker.tick"],
    "cache": ["cache_call", "query", "children", "children.yielded", "cache.repeat", "cache.same_child_other_half",
              "cache.default_vs_explicit", "cache.public_parent", "cache.private_parent", "late_public_copy_call",
              "cache.path_then_dot_pub", "cache.dot_pub_then_path"],
    "electrum": ["electrum.subkey", "electrum.commutation", "electrum.subkeys", "electrum.subkeys.nonempty", "electrum.from_seed",
                 "electrum.from_master_private_key", "electrum.path.change", "electrum.path.receiving"],
    "vectors": ["vector_node.BTC", "vector_node.XTN"],
    "objs": ["move.moved", "move.prefix_differs", "move.src_then_moved", "move.moved_then_src", "move.src_then_moved.private",
             "move.src_then_moved.public", "move.moved_then_src.private", "move.moved_then_src.public", "move.path_request",
             "move.again", "move.back", "move.child_of_moved_as_node", "objs.child_as_node", "objs.public", "objs.private", "objs.ask",
             "refuse.call", "refuse.raised", "refuse.then_same_index", "refuse.idx", "refuse.path", "refuse.parse", "refuse.deser",
             "refuse.seed", "refuse.subkeys", "refuse.children", "refuse.hwif", "refuse.electrum",
             "mutarg.seed_bytearray", "mutarg.electrum_mpk_bytearray", "mutarg.blob_bytearray", "mutarg.accepted", "mutret.looked",
             "hardened_from_public", "electrum.commutation"],
    "shared": ["shared.judged", "shared.carrier.parseable_str", "shared.carrier.str", "shared.probe", "shared.probe.same_network",
               "shared.probe.other_network.prefix_differs", "shared.probe.other_network.prefix_same",
               "shared.cached_object.judged.first_use", "shared.cached_object.judged.after_same_network",
               "shared.cached_object.judged.after_other_network", "shared.cached_object.judged.after_other_network.prefix_differs",
               "shared.judged.bip32", "shared.judged.bip49", "shared.judged.bip84", "shared.via.bip", "shared.via.split",
               "shared.via.hierarchical_key", "shared.via.secret", "shared.via.call", "shared.child"],
    "longrun": ["longrun.beyond_2^16", "longrun.block_sum", "longrun.full_reference", "longrun.repeat", "longrun.text", "longrun.requests"],
    "text": ["text.hwif", "text.as_text", "text.repr", "text.str", "text.ku_output", "text.serialize", "text.roundtrip", "deserialize",
             "parse.bip32", "parse.bip49", "parse.bip84", "parse.bip49.split", "parse.bip84.split", "parse.hierarchical_key",
             "parse.secret", "parse.call", "parse.bip32_seed", "public_copy", "subkeys", "children"],
}


def run_shard(spec, rec):
    ctx = Ctx(rec)
    kind = spec["kind"]
    need = list(REQUIRED[kind])
    if kind == "nets":      # a part may hold no bip49/bip84 pair
        todo = [(c, b) for c in ctx.codes for b in BIPS if b in ctx.prefixes[c]]
        have = {b for i, (c, b) in enumerate(todo) if i % spec["parts"] == spec["part"]}
        need = [n for n in need if not set(n.split(".")) & (set(BIPS) - have)]
    if kind == "derive" and spec["shard"] == 0:
        need.append("depth.255")         # the one path of 255 steps is driven by the first shard
        need += REQUIRED["vectors"]      # and so are the published vectors
    if kind == "longrun" and spec["tier"] != "quick":
        need.append("longrun.beyond_2^17")
    rec.require(*need)
    KINDS[kind][0](spec, rec, ctx)


def replay_case(case, rec):
    ctx = Ctx(rec)
    KINDS[case["kind"]][1](case, rec, ctx)
