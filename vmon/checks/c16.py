"""C16 — P2P messages round-trip through pack and parse for every message type, bytes equal the wire encoding."""
from vmon.probe import shard_rng, observe
from vmon.refs import p2p as P2P, txser as RT, blockser as RB, merkle as RM, pmt as RP
from vmon.gen import blockgen as G

PROPERTY = "C16"
PRELOAD_NETWORK_ORDERS = [["btc", "xtn", "ltc", "bch", "grs", "doge", "dash", "btg"], ["btg", "grs", "bch", "doge", "ltc", "xtn", "btc"]]
LEVEL = "exploration"
TECHNIQUE = "differential runtime monitor: network.message.pack/parse vs independent per-message wire encoders, boundary-biased field values"
RULE = ("cases: (network BTC/LTC, message name, field values) for every key of STANDARD_P2P_MESSAGES enumerated at run time; values "
        "are per declared type boundary values (u32 0/1/2^31/2^32-1, u64 to 2^64-1, 6-byte ids to 2^48-1, u8 0/255, booleans, "
        "compact-size boundaries), arrays of length 0/1/2/252/253/1000, IPv4-mapped and IPv6 addresses, ports 0/1/255/256/8333/65535, "
        "embedded transactions (with and without witness), headers, blocks, honest merkle proofs, well-formed alert payloads, "
        "optional relay True/False/absent. Distinct by (message, reference bytes, relay presence); non-trivial when the message has fields.")
ASSUMPTIONS = [
    "reference encoders in vmon/refs/p2p.py (with txser, blockser) follow the protocol documents; self-tested on every run against "
    "hand-assembled byte strings, documented examples (address 198.27.100.9:8333, feefilter 48508, filterload b50f/11) and "
    "decode(encode(x)) = x",
    "the field set of a message is the one the library declares; where it departs from the documents (cmpctblock `header_hash` "
    "is 32 bytes, filterload `flags` is a boolean, reject `data` is a fixed 32-byte hash) the declared fields are encoded",
    "an absent optional field is passed as relay=None; parse may report it as any falsy value (no distinct representation)",
    "`alert` payloads are well-formed alert structures (parse post-processes the payload and raises otherwise); `block` "
    "messages carry blocks whose transactions hash to the header root; transactions have >= 1 input",
    "sequence container types are not compared (a list packed may come back as a tuple)",
]
EXPLANATION = ("for each value set: pack(name, **values) must equal the reference bytes; parse(name, reference bytes) must return equal "
               "field values (InvItem, PeerAddress, Tx, Block compared field-wise). A table key without a generator aborts the run")
TIMEOUT = {"quick": 600, "thorough": 3 * 3600}

N_SHARDS = 16


def plan(tier, seed):
    sets = 6000 if tier == "quick" else 600000
    return [{"part": p, "parts": N_SHARDS, "sets": sets, "label": "messages-%d" % p} for p in range(N_SHARDS)]


def configurations(tier):
    return ["BTC network.message", "LTC network.message (LTCBlock/LTCTx)"]


def selftest(rec):
    return {"p2p": P2P.selftest(), "txser": RT.selftest(), "blockser": RB.selftest(), "merkle": RM.selftest(),
            "pmt": RP.selftest()["closure_cases"]}


# ------------------------------------------------------------------------------------------- value generators

ARRAY_EDGE = [0, 1, 2, 252, 253, 1000]
U48_EDGE = [0, 1, 0xffffffff, 0x100000000, 0x7fffffffffff, 0x800000000000, 0xffffffffffff, 0x010203040506]
CSIZE_EDGE = [0, 1, 252, 253, 254, 255, 256, 0xffff, 0x10000, 0xffffffff, 0x100000000, 0xffffffffffffffff]
PORT_EDGE = [0, 1, 255, 256, 8333, 0x8000, 65535]
U8_EDGE = [0, 1, 0x7f, 0x80, 255]


def alen(rng, k, heavy=False):
    """array length for value set k: the boundary lengths first, then small with occasional boundary"""
    if k < len(ARRAY_EDGE):
        return ARRAY_EDGE[k]
    r = rng.random()
    if r < 0.04 and not heavy:
        return rng.choice([252, 253, 254, 300])
    if r < 0.012:
        return rng.choice([252, 253])
    return rng.choice([0, 1, 1, 2, 3, 5, 8])


def pick(rng, edge, bits):
    return rng.choice(edge) if rng.random() < 0.5 else rng.getrandbits(bits)


def u32(rng, k=99):
    return G.U32_EDGE[k % len(G.U32_EDGE)] if k < 7 else G.pick_u32(rng)


def u64(rng, k=99):
    return G.U64_EDGE[k % len(G.U64_EDGE)] if k < 7 else G.pick_u64(rng)


def var_bytes(rng, k):
    n = alen(rng, k)
    r = rng.random()
    if r < 0.2:
        return bytes([rng.choice([0, 0xff, 0x80])]) * n
    if r < 0.5:
        return bytes(rng.randrange(32, 127) for _ in range(n))
    return G.rbytes(rng, n)


def address(rng, k=99):
    r = k % 5 if k < 10 else rng.randrange(5)
    if r == 0:
        ip = P2P.ipv4(*(rng.randrange(256) for _ in range(4)))
    elif r == 1:
        ip = G.rbytes(rng, 16)                              # IPv6
    elif r == 2:
        ip = b"\0" * 16
    elif r == 3:
        ip = b"\xff" * 16
    else:
        ip = bytes.fromhex("fd87d87eeb43") + G.rbytes(rng, 10)   # onioncat range
    return {"services": u64(rng, k), "ip": ip, "port": PORT_EDGE[k % len(PORT_EDGE)] if k < 14 else pick(rng, PORT_EDGE, 16)}


def inv_item(rng):
    return {"type": rng.choice([1, 2, 3, 4, 0x40000001, 0x40000002, 0, 0xffffffff, rng.getrandbits(32)]), "hash": G.rand_hash(rng)}


def g_version(rng, k):
    return {"version": u32(rng, k), "services": u64(rng, k), "timestamp": u64(rng, k + 3), "remote_address": address(rng, k),
            "local_address": address(rng, k + 1), "nonce": u64(rng, k + 5), "subversion": var_bytes(rng, k),
            "last_block_index": u32(rng, k + 2), "relay": [True, False, None][k % 3]}


def g_empty(rng, k):
    return {}


def g_addr(rng, k):
    return {"date_address_tuples": [{"time": u32(rng, i if k == 5 else 99), "addr": address(rng, i if k in (4, 5) else 99)}
                                    for i in range(alen(rng, k))]}


def g_inv(rng, k):
    return {"items": [inv_item(rng) for _ in range(alen(rng, k))]}


def g_reject(rng, k):
    return {"message": var_bytes(rng, k + 1), "code": U8_EDGE[k % 5] if k < 10 else rng.randrange(256), "reason": var_bytes(rng, k),
            "data": G.rand_hash(rng)}


def g_locator(rng, k):
    return {"version": u32(rng, k), "hashes": [G.rand_hash(rng) for _ in range(alen(rng, k))], "hash_stop": G.rand_hash(rng)}


def g_tx(rng, k):
    return {"tx": G.rand_tx(rng, segwit=(k % 2 == 1) if k < 8 else None)}


def g_block(rng, k):
    n = [1, 2, 3, 4, 5, 7, 8, 33][k] if k < 8 else rng.choice([1, 1, 2, 3, 6, 9])
    if k == 8:
        n = 253
    header, txs = G.rand_block(rng, n, small=n > 20)
    return {"block": {"header": header, "txs": txs}}


def g_headers(rng, k):
    n = alen(rng, k, heavy=True) if k != 5 else 1000
    return {"headers": [{"header": G.rand_header(rng, edge=(G.U32_EDGE[i % 7] if k == 4 else None)),
                         "txn_count": CSIZE_EDGE[i % len(CSIZE_EDGE)] if k in (3, 4, 6) else rng.choice([0, 0, 0, 1, rng.choice(CSIZE_EDGE)])}
                        for i in range(n)]}


def g_feefilter(rng, k):
    return {"fee_filter_value": u64(rng, k)}


def g_sendcmpct(rng, k):
    return {"enabled": bool(k & 1) if k < 14 else rng.random() < 0.5, "version": u64(rng, k // 2)}


def g_cmpctblock(rng, k):
    # half of the value sets carry no short ids, so the rest of the layout is exercised on its own as well
    n_ids = alen(rng, k // 2) if k % 2 == 0 else 0
    ids = [U48_EDGE[i % len(U48_EDGE)] if (k < 12 or rng.random() < 0.3) else rng.getrandbits(48) for i in range(n_ids)]
    n_pre = [0, 1, 2, 3, 253, 0][k % 6] if k < 12 else alen(rng, 99, heavy=True)
    pre = [{"index": CSIZE_EDGE[i % len(CSIZE_EDGE)] if k % 3 == 0 else rng.choice([0, 1, rng.randrange(300)]),
            "tx": G.rand_tx(rng, small=n_pre > 20)} for i in range(n_pre)]
    return {"header_hash": G.rand_hash(rng), "nonce": u64(rng, k), "short_ids": ids, "prefilled_txs": pre}


def g_getblocktxn(rng, k):
    n = alen(rng, k)
    return {"header_hash": G.rand_hash(rng), "indices": [CSIZE_EDGE[i % len(CSIZE_EDGE)] if k % 2 == 0 else rng.randrange(2000) for i in range(n)]}


def g_blocktxn(rng, k):
    n = alen(rng, k, heavy=True) if k != 5 else 1000
    return {"header_hash": G.rand_hash(rng), "txs": [G.rand_tx(rng, small=n > 20, segwit=None if n <= 20 else (i % 3 == 0)) for i in range(n)]}


def g_nonce(rng, k):
    return {"nonce": u64(rng, k)}


def g_filterload(rng, k):
    n = alen(rng, k) if k != 6 else 36000
    return {"filter": list(G.rbytes(rng, n)) if k % 4 else [U8_EDGE[i % 5] for i in range(n)], "hash_function_count": u32(rng, k),
            "tweak": u32(rng, k + 3), "flags": bool(k & 1) if k < 14 else rng.random() < 0.5}


def g_filteradd(rng, k):
    n = alen(rng, k) if k != 6 else 520
    return {"data": list(G.rbytes(rng, n)) if k % 4 else [U8_EDGE[i % 5] for i in range(n)]}


def g_merkleblock(rng, k):
    n = [1, 2, 3, 5, 7, 8, 9, 33, 1000][k] if k < 9 else rng.choice([1, 2, 3, 4, 5, 6, 7, 11, 12, 13, 17, 31, 64, 100])
    txids = G.fake_txids("mb%d" % k, n)
    d = rng.choice([0.0, 0.1, 0.5, 1.0])
    matches = [i for i in range(n) if rng.random() < d]
    total, hashes, fb = RP.build(txids, matches)
    return {"header": G.rand_header(rng, root=RM.root(txids)), "total_transactions": total, "hashes": hashes, "flags": list(fb)}


def g_alert(rng, k):
    a = {"version": u32(rng, k), "relayUntil": u64(rng, k), "expiration": u64(rng, k + 1), "id": u32(rng, k + 1), "cancel": u32(rng, k + 2),
         "setCancel": [u32(rng) for _ in range(alen(rng, k))], "minVer": u32(rng, k + 3), "maxVer": u32(rng, k + 4),
         "setSubVer": [var_bytes(rng, 99) for _ in range(alen(rng, k + 1) if k < 5 else alen(rng, 99))], "priority": u32(rng, k + 5),
         "comment": var_bytes(rng, 99), "statusBar": var_bytes(rng, k + 2), "reserved": var_bytes(rng, 99)}
    return {"payload": P2P.enc_alert_payload(a), "signature": var_bytes(rng, k)}


GENERATORS = {
    "version": g_version, "verack": g_empty, "addr": g_addr, "inv": g_inv, "getdata": g_inv, "notfound": g_inv, "reject": g_reject,
    "getblocks": g_locator, "getheaders": g_locator, "sendheaders": g_empty, "tx": g_tx, "block": g_block, "headers": g_headers,
    "getaddr": g_empty, "mempool": g_empty, "feefilter": g_feefilter, "sendcmpct": g_sendcmpct, "cmpctblock": g_cmpctblock,
    "getblocktxn": g_getblocktxn, "blocktxn": g_blocktxn, "sendaddrv2": g_empty, "ping": g_nonce, "pong": g_nonce,
    "filterload": g_filterload, "filteradd": g_filteradd, "filterclear": g_empty, "merkleblock": g_merkleblock, "alert": g_alert,
}
# the field names each generator produces (the keyword arguments of pack); checked against the library's table at run time
FIELD_NAMES = {
    "version": {"version", "services", "timestamp", "remote_address", "local_address", "nonce", "subversion", "last_block_index", "relay"},
    "addr": {"date_address_tuples"}, "inv": {"items"}, "getdata": {"items"}, "notfound": {"items"},
    "reject": {"message", "code", "reason", "data"}, "getblocks": {"version", "hashes", "hash_stop"},
    "getheaders": {"version", "hashes", "hash_stop"}, "tx": {"tx"}, "block": {"block"}, "headers": {"headers"},
    "feefilter": {"fee_filter_value"}, "sendcmpct": {"enabled", "version"},
    "cmpctblock": {"header_hash", "nonce", "short_ids", "prefilled_txs"}, "getblocktxn": {"header_hash", "indices"},
    "blocktxn": {"header_hash", "txs"}, "ping": {"nonce"}, "pong": {"nonce"},
    "filterload": {"filter", "hash_function_count", "tweak", "flags"}, "filteradd": {"data"},
    "merkleblock": {"header", "total_transactions", "hashes", "flags"}, "alert": {"payload", "signature"},
}


# ------------------------------------------------------------------------------------------- library side

_NETS = {}


def _net(sym):
    if sym not in _NETS:
        if sym == "BTC":
            from pycoin.symbols.btc import network
        elif sym == "LTC":
            from pycoin.symbols.ltc import network
        else:
            raise ValueError(sym)
        _NETS[sym] = network
    return _NETS[sym]


def table_names():
    from pycoin.message.make_parser_and_packer import STANDARD_P2P_MESSAGES
    return dict(STANDARD_P2P_MESSAGES)


def check_table(table):
    """every key of the library's table needs a generator and the field names the generator knows: otherwise the
    run cannot claim to have monitored that message -> exception -> INCONCLUSIVE."""
    for name, layout in table.items():
        if name not in GENERATORS or name not in P2P.MESSAGES:
            raise RuntimeError("message %r of STANDARD_P2P_MESSAGES has no generator/reference encoder in C16: not monitored" % name)
        declared = {item.split(":")[0] for item in layout.split()}
        if declared != FIELD_NAMES.get(name, set()):
            raise RuntimeError("message %r declares fields %s, C16 generates %s: not monitored" % (
                name, sorted(declared), sorted(FIELD_NAMES.get(name, set()))))


def mk_tx(N, t):
    Tx = N.tx
    ins = []
    for i in t["ins"]:
        ti = Tx.TxIn(i["prev"], i["index"], i["script"], i["sequence"])
        ti.witness = list(i["witness"])
        ins.append(ti)
    return Tx(t["version"], ins, [Tx.TxOut(o["value"], o["script"]) for o in t["outs"]], t["lock_time"])


def mk_header(N, h):
    return N.block(h["version"], h["prev"], h["root"], h["time"], h["bits"], h["nonce"])


def mk_block(N, b):
    blk = mk_header(N, b["header"])
    blk.set_txs([mk_tx(N, t) for t in b["txs"]])
    return blk


def mk_addr(a):
    from pycoin.message.PeerAddress import PeerAddress
    return PeerAddress(a["services"], a["ip"], a["port"])


def mk_inv(i):
    from pycoin.message.InvItem import InvItem
    return InvItem(i["type"], i["hash"], dont_check=True)


def to_lib(N, v):
    """reference value -> the object pycoin's pack takes, directed by the value's shape"""
    if isinstance(v, dict):
        keys = set(v)
        if keys == {"services", "ip", "port"}:
            return mk_addr(v)
        if keys == {"type", "hash"}:
            return mk_inv(v)
        if "ins" in keys:
            return mk_tx(N, v)
        if keys == {"version", "prev", "root", "time", "bits", "nonce"}:
            return mk_header(N, v)
        if keys == {"header", "txs"}:
            return mk_block(N, v)
        if keys == {"header", "txn_count"}:
            return (mk_header(N, v["header"]), v["txn_count"])
        if keys == {"index", "tx"}:
            return (v["index"], mk_tx(N, v["tx"]))
        if keys == {"time", "addr"}:
            return (v["time"], mk_addr(v["addr"]))
        raise ValueError("unknown value shape %s" % sorted(keys))
    if isinstance(v, list):
        return [to_lib(N, x) for x in v]
    return v


def cmp_tx(N, got, want):
    if not isinstance(got, N.tx):
        return "not a Tx"
    if got.version != want["version"] or got.lock_time != want["lock_time"]:
        return "version/lock_time"
    if len(got.txs_in) != len(want["ins"]) or len(got.txs_out) != len(want["outs"]):
        return "input/output count"
    for g, w in zip(got.txs_in, want["ins"]):
        if bytes(g.previous_hash) != w["prev"] or g.previous_index != w["index"] or bytes(g.script) != w["script"] or g.sequence != w["sequence"]:
            return "input"
        if [bytes(x) for x in g.witness] != list(w["witness"]):
            return "witness"
    for g, w in zip(got.txs_out, want["outs"]):
        if g.coin_value != w["value"] or bytes(g.script) != w["script"]:
            return "output"
    return None


def cmp_header(N, got, want):
    if not isinstance(got, N.block):
        return "not a Block"
    g = {"version": got.version, "prev": bytes(got.previous_block_hash), "root": bytes(got.merkle_root), "time": got.timestamp,
         "bits": got.difficulty, "nonce": got.nonce}
    return None if g == want else "header fields"


def cmp_value(N, got, want):
    """None when equal, else a short reason"""
    if want is None:
        return None if not got else "absent optional reported truthy"
    if isinstance(want, bool):
        return None if (got == want and isinstance(got, (bool, int))) else "bool"
    if isinstance(want, int):
        return None if (isinstance(got, int) and not isinstance(got, bool) and got == want) else "int"
    if isinstance(want, bytes):
        return None if (isinstance(got, bytes) and bytes(got) == want) else "bytes"
    if isinstance(want, list):
        if not isinstance(got, (list, tuple)) or len(got) != len(want):
            return "array length"
        for g, w in zip(got, want):
            r = cmp_value(N, g, w)
            if r:
                return "element: " + r
        return None
    keys = set(want)
    if keys == {"services", "ip", "port"}:
        ok = (hasattr(got, "ip_bin") and got.services == want["services"] and bytes(got.ip_bin) == want["ip"] and got.port == want["port"])
        return None if ok else "PeerAddress"
    if keys == {"type", "hash"}:
        ok = hasattr(got, "item_type") and got.item_type == want["type"] and bytes(got.data) == want["hash"]
        return None if ok else "InvItem"
    if "ins" in keys:
        return cmp_tx(N, got, want)
    if keys == {"version", "prev", "root", "time", "bits", "nonce"}:
        return cmp_header(N, got, want)
    if keys == {"header", "txs"}:
        r = cmp_header(N, got, want["header"])
        if r:
            return r
        if len(got.txs) != len(want["txs"]):
            return "block tx count"
        for g, w in zip(got.txs, want["txs"]):
            r = cmp_tx(N, g, w)
            if r:
                return "block tx " + r
        return None
    pair = {frozenset(("header", "txn_count")): ("header", "txn_count"), frozenset(("index", "tx")): ("index", "tx"),
            frozenset(("time", "addr")): ("time", "addr")}.get(frozenset(keys))
    if pair:
        if not isinstance(got, (list, tuple)) or len(got) != 2:
            return "tuple"
        return cmp_value(N, got[0], want[pair[0]]) or cmp_value(N, got[1], want[pair[1]])
    return "unknown shape"


# ------------------------------------------------------------------------------------------- judgement

def _pack(N, name, fields):
    return observe(lambda: N.message.pack(name, **{k: to_lib(N, v) for k, v in fields.items()}))


def _without_short_ids_ok(N, name, fields, op):
    """differential predicate for the 6-byte codec: the same message without short ids passes the same operation"""
    f2 = dict(fields, short_ids=[])
    want = P2P.encode(name, f2)
    if op == "pack":
        st, got = _pack(N, name, f2)
        return st == "ok" and got == want
    st, d = observe(N.message.parse, name, want)
    return st == "ok" and all(cmp_value(N, d.get(k), v) is None for k, v in f2.items())


def judge(net, name, fields, rec, sample=False):
    N = _net(net)
    case = {"net": net, "name": name, "fields": fields}
    want = P2P.encode(name, fields)
    if P2P.decode(name, want) != P2P.normalise(name, fields):
        raise RuntimeError("reference encoder/decoder disagree on %s (oracle error)" % name)
    rec.case((net, name, want, fields.get("relay", 0)), nontrivial=bool(fields))
    rec.ev("pack")
    rec.ev("pack:" + name)
    st, got = _pack(N, name, fields)
    int6 = name == "cmpctblock" and len(fields.get("short_ids", ())) > 0
    if st != "ok":
        if int6 and _without_short_ids_ok(N, name, fields, "pack"):
            rec.violation("p2p.int6.codec_raises", case, got, want)
        else:
            rec.violation("p2p.pack_raises.%s" % name, case, got, want)
    elif got != want:
        if int6 and _without_short_ids_ok(N, name, fields, "pack"):
            rec.violation("p2p.int6.wrong_bytes", case, got, want)
        else:
            rec.violation("p2p.pack_bytes_mismatch.%s" % name, case, got, want)
    rec.ev("parse")
    rec.ev("parse:" + name)
    st, d = observe(N.message.parse, name, want)
    if st != "ok":
        if int6 and _without_short_ids_ok(N, name, fields, "parse"):
            rec.violation("p2p.int6.codec_raises", case, d, fields)
        else:
            rec.violation("p2p.parse_raises.%s" % name, case, d, fields)
        return
    if not isinstance(d, dict):
        rec.violation("p2p.parse_not_a_dict.%s" % name, case, d, fields)
        return
    bad = []
    for k, v in fields.items():
        if k not in d:
            bad.append((k, "missing"))
            continue
        r = cmp_value(N, d[k], v)
        if r:
            bad.append((k, r))
    if "relay" in fields:
        rec.ev("relay:" + {True: "true", False: "false", None: "absent"}[fields["relay"]])
    for k, why in bad:
        if name == "version" and k == "relay" and fields["relay"] is False and d.get("relay") is True and len(bad) == 1:
            rec.violation("p2p.optional_bool.false_parsed_as_true", case, d.get("relay"), False)
        elif int6 and k == "short_ids":
            rec.violation("p2p.int6.wrong_values", case, d.get(k), fields[k])
        else:
            rec.violation("p2p.parse_field_mismatch.%s.%s" % (name, k), case, {"why": why, "got": d.get(k)}, v)
    if name == "alert" and not bad:
        info = d.get("alert_info")
        ref = P2P.dec_alert_payload(fields["payload"])
        if not isinstance(info, dict) or any(cmp_value(N, info.get(k), v) for k, v in ref.items()):
            rec.note("alert_info (derived, not a packed field) differs from the reference decoding of the payload")
        else:
            rec.ev("alert_info_agrees")
    if sample:
        rec.sample({"op": "pack/parse", "net": net, "name": name, "bytes": want[:120], "n_bytes": len(want)})


def run_shard(spec, rec):
    table = table_names()
    check_table(table)
    rec.require("pack", "parse", "relay:true", "relay:false", "relay:absent")
    for name in table:
        rec.require("pack:" + name, "parse:" + name)
    part, parts, sets = spec["part"], spec["parts"], spec["sets"]
    for name in table:
        rng = shard_rng(spec["seed"], PROPERTY, spec["tier"], spec["shard"], salt=name)
        gen = GENERATORS[name]
        if gen is g_empty:
            ks = [part] if part < 2 else []
        else:
            ks = range(part, sets, parts)
        for k in ks:
            net = "LTC" if k % 5 == 4 else "BTC"
            fields = gen(rng, k)
            judge(net, name, fields, rec, sample=(k == part and part < 3 and name in ("version", "cmpctblock", "addr")))
    if part == 0:
        # omitting the optional keyword altogether is not a representation the statement fixes: observed, noted
        N = _net("BTC")
        f = g_version(shard_rng(spec["seed"], PROPERTY, "omit", 0), 2)
        f.pop("relay")
        st, got = _pack(N, "version", f)
        if st != "ok":
            rec.note("pack('version') without a `relay` keyword raises %s (absence must be passed as relay=None)" % type(got).__name__)
        for n in P2P.DECLARED_NOTES:
            rec.note("declared layout: " + n)


def replay_case(case, rec):
    check_table(table_names())
    judge(case["net"], case["name"], case["fields"], rec)
