"""C16 — P2P messages round-trip through pack and parse for every message type, bytes equal the wire encoding."""
from vmon.probe import shard_rng, observe
from vmon.refs import p2p as P2P, txser as RT, blockser as RB, merkle as RM, pmt as RP, btgser as RBTG
from vmon.gen import blockgen as G

PROPERTY = "C16"
PRELOAD_NETWORK_ORDERS = [["btc", "xtn", "ltc", "bch", "grs", "doge", "dash", "btg"], ["btg", "grs", "bch", "doge", "ltc", "xtn", "btc"]]
LEVEL = "exploration"
TECHNIQUE = ("differential runtime monitor: network.message.pack/parse vs independent per-message wire encoders, boundary-biased field "
             "values; every value set also in a second call spelling (keyword order, undeclared keys, container types, input buffer "
             "type, re-pack of the parsed dict); plus call histories on one network with long-lived, in-place changed and shared "
             "objects, a reused receive buffer and interleaved failing calls; every second value set once more in another value-TYPE "
             "spelling (text / bytes-likes / int subclasses / 0-1 flags / other constructors) with the caller's arguments compared before "
             "and after; string and array lengths 254/255/256/65535/65536 for every field; one long run of > 2^16 judged calls; "
             "the messages embedding a transaction / header / block also on the networks with their own Tx / Block classes "
             "(BCH, GRS, DOGE, XTN, BTG), BTG headers against an independent encoder of the BTG header layout")
RULE = ("cases: (network BTC/LTC, message name, field values) for every key of STANDARD_P2P_MESSAGES enumerated at run time; values "
        "are per declared type boundary values (u32 0/1/2^31/2^32-1, u64 to 2^64-1, 6-byte ids to 2^48-1, u8 0/255, booleans, "
        "compact-size boundaries), arrays of length 0/1/2/252/253/1000, IPv4-mapped and IPv6 addresses, ports 0/1/255/256/8333/65535, "
        "embedded transactions (with and without witness), headers, blocks, honest merkle proofs, well-formed alert payloads, "
        "optional relay True/False/absent; an IPv4 address is handed over every second time as PeerAddress(services, 4 bytes, port), an "
        "inventory item of type 1-3 every second time through the checking InvItem constructor. Per (message, field) the value "
        "classes reached are counted (zero / maximum of the integer type, compact-size width, array length 0 / 1 / >= 253, empty / long "
        "string, IPv4-mapped or not, port whose two bytes differ, witness or not, ...) and the classes of every declared field are "
        "required. Distinct by (message, reference bytes, relay presence); non-trivial when the message has fields. "
        "Call spellings (one per value set, all classes come round in every shard, recorded in the case): after the pack with keywords in "
        "declared order the same argument objects are packed again with the keywords reversed / sorted by name / shuffled / rotated, with "
        "1-2 undeclared keys at rng-chosen positions, with arrays as tuples, pairs as lists, byte arrays (filter, data, flags) as bytes / "
        "bytearray; parse gets the payload as bytes, a bytes-subclass instance, a bytearray or memoryview of one that the caller overwrites "
        "right after the call; every second value set the dict parse returned (all its keys, incl. tx_hashes / alert_info, in returned / "
        "reversed / sorted / shuffled order) is packed again; when pack returns, it must return the payload (when it refuses the keys "
        "parse added, the declared keys alone are packed in the same order). "
        "Histories (per shard, from the shard rng): 6-12 steps on one network (BTC or LTC) over a pool of live objects - new message "
        "(object slots filled from the pool: the same Block/Tx/PeerAddress/InvItem object in several messages and several times in one "
        "array), read-only calls on an object (hash/id/as_bin/as_hex/str/stream/...), in-place change then re-send (Block.set_nonce, "
        "Block.set_txs on a header whose transactions arrive later, Tx.set_witness, TxIn.script, TxIn.sequence, TxOut.coin_value), edit of "
        "the caller-owned argument list (pop/duplicate/reverse/clear) then re-send, pack with one invalid value at a late field or late "
        "array element / missing keyword / unknown name followed by a valid pack (half of the time the corrected same message), parse of "
        "cut-off bytes followed by valid calls, objects and containers returned by parse sent on (and changed), the same bytes parsed "
        "again later. Each message's keyword dict is built once in an rng-chosen order (70% not the declared one; 12% with an undeclared "
        "key), adopted parse results keep every key parse returned; payloads are parsed from bytes / subclass / bytearray / memoryview / "
        "one per-history receive buffer (bytearray, also through a memoryview) that is refilled for the next payload. Every valid pack/parse in a history is a case, distinct by (network, message, reference bytes, preceding step class). "
        "The refused pack calls are counted by how they come to be refused (unknown name, missing keyword incl. the optional relay, None / str / "
        "float / negative / too large a value at the first or at a later field, an object with a field out of range, an object of the other "
        "network) and each kind is required. "
        "Value-type spellings (every second value set, one dimension each, all required): string fields as text (12 classes: empty, ASCII, "
        "2/3/4-byte characters, fewer than 253 / 65536 characters but more bytes, exactly 252 / 253 bytes, BOM first, NUL) / bytearray / "
        "memoryview / bytes subclass, hashes and byte arrays alike; integers as int subclass, IntEnum member, bool for 0 / 1 (also inside "
        "PeerAddress and InvItem); flags as 1 / 0; addresses in the other constructor spelling or as a PeerAddress subclass instance, "
        "inventory items through the other constructor, Tx / header / Block parsed from bytes instead of constructed. "
        "Length boundaries: every string and array field once per run with 254, 255, 256, 65535 and 65536 bytes / elements (quick: one "
        "of three transaction arrays and one message of each same-layout group at 2^16, by seed). "
        "Long run: one shard with 2^16+100 (thorough 2^17+100) rounds on the BTC packer/parser, each a ping with a running nonce plus one "
        "other small message around long-lived objects, every call judged. "
        "Other networks: every network object has its own packer / parser around its Block and Tx classes, so tx, block, headers, "
        "merkleblock, blocktxn and cmpctblock value sets are also packed and parsed on BCH, GRS (a one-transaction block whose root is the "
        "single-SHA-256 transaction id), DOGE, XTN and BTG, each (network, message) pair required. On BTG the header-carrying messages "
        "(headers, merkleblock, block) get eight-field headers: height 0 / 1 / fork-2 / fork-1 / fork (491407) / fork+1 / 2^31 / 2^32-1 / "
        "random on either side of the fork height, 32-byte nonce (random / zero / four bytes then zeros), solution of 0 / 1 / 36 / 100 / "
        "252 / 253 / 400 / 1344 / random < 600 bytes, header arrays of 0-5 and 253 entries; the height and solution-length classes reached "
        "are counted and required (altnet.btg.*). Distinct by (network, message, reference bytes).")
ASSUMPTIONS = [
    "reference encoders in vmon/refs/p2p.py (with txser, blockser) follow the protocol documents; self-tested on every run against "
    "hand-assembled byte strings, documented examples (address 198.27.100.9:8333, feefilter 48508, filterload b50f/11) and "
    "decode(encode(x)) = x",
    "the field set of a message is the one the library declares; where it departs from the documents (cmpctblock `header_hash` "
    "is 32 bytes, filterload `flags` is a boolean, reject `data` is a fixed 32-byte hash) the declared fields are encoded",
    "an absent optional field is passed as relay=None; parse may report it as any falsy value (no distinct representation)",
    "`alert` payloads are well-formed alert structures (parse post-processes the payload and raises otherwise); `block` "
    "messages carry blocks whose transactions hash to the header root; transactions have >= 1 input",
    "sequence container types are not compared (a list packed may come back as a tuple)",
    "call spellings: keyword arguments are unordered (a name/value mapping), so every order names the same message; tuples and lists are "
    "the array / pair spellings pack itself distinguishes, bytes / bytearray are what BloomFilter.filter_load_params hands out for "
    "`filter`. pack(name, **parse(name, payload)) = payload is read as part of 'round-trip' WHEN pack returns; an absent `relay` "
    "(reported falsy) is passed on as None. The statement does not say that pack takes keys the message does not declare (made up "
    "by the caller or added by parse to its result: tx_hashes, alert_info), that it takes back what parse returned, or that parse "
    "takes a bytearray / memoryview: an exception in these spellings is counted, not reported; only a returned wrong result is a "
    "violation. A parse result that was right when returned and changes when the caller later overwrites the bytearray it passed is "
    "counted, not reported. A bytes-subclass instance is a bytes object and must be parsed",
    "field values are compared by value: a byte string may come back in any bytes-like type, True == 1",
    "value types: the table declares S as 'unicode string encoded using utf-8', so a str handed to an S field stands for its utf-8 "
    "bytes; an instance of an int subclass (IntEnum member, bool) stands for its integer value, 1 / 0 for True / False; bytearray / "
    "memoryview / bytes-subclass instances stand for their bytes. None of these spellings has to be accepted: a refusal (also by the "
    "PeerAddress / InvItem constructor) is counted, never reported; only bytes RETURNED that are not the wire encoding of the value are a "
    "violation. A pack call (returning or refusing) that leaves a caller-owned bytearray / list argument changed is reported: the values "
    "the caller passed would otherwise not be the ones a second pack of the same arguments encodes",
    "histories: 'the fields of a message' are the values its argument objects have when pack is called; objects are changed between "
    "calls only through what the library defines or does itself (Block.set_nonce, Block.set_txs with transactions matching the header "
    "root, Tx.set_witness, assignment to TxIn.script / TxIn.sequence / TxOut.coin_value as Solver, SolutionChecker and tx_utils do, list "
    "operations on lists the caller built); Block fields other than the nonce are never assigned. Calls with invalid values and "
    "parses of damaged bytes are not judged (they may raise or not); only the valid calls after them are. Damaged bytes are "
    "limited to cut-off / empty / trailing-garbage encodings (arbitrary bytes can carry a 2^64 array count that the parser walks)",
    "other networks: 'the Bitcoin wire encoding' of a header on a network whose header is not Bitcoin's is read as that network's "
    "documented header layout - for BTG (BTCGPU Technical Spec) version, previous hash, merkle root, height, 28 zero bytes, time, bits, "
    "32-byte nonce, compact-size prefixed solution (vmon/refs/btgser.py, self-tested on a hand-assembled 1487-byte header) - at EVERY "
    "height: the fields of a BTG header include height and solution, an 80-byte encoding carries neither, so packing then parsing "
    "could not return them. The field values of a BTG header are the eight constructor arguments, read back as the attributes of the "
    "same names; the reserved bytes are not a field. The fork height is only used to choose heights and to name the class of a witness "
    "in the mechanism key. BCH / GRS / DOGE / XTN / BTG transactions and the GRS / DOGE / XTN headers have Bitcoin's layout; a value "
    "set the network's own constructors refuse is counted, not judged",
]
EXPLANATION = ("for each value set: pack(name, **values) must equal the reference bytes; parse(name, reference bytes) must return equal "
               "field values (InvItem, PeerAddress, Tx, Block compared field-wise). A table key without a generator aborts the run. "
               "In a history the same two demands hold at every valid call, against the reference encoding of the CURRENT values of the "
               "argument objects; a failing pack is re-tried once and once with freshly built objects to name the mechanism "
               "(wrong once = state left by an earlier call; right with fresh objects = state kept on the reused object). A wrong answer "
               "to a second call spelling is narrowed by repeating the plain call and the spelling one dimension at a time "
               "(not repeatable / keyword order / container spelling / undeclared keyword / input spelling). On BTG the same two "
               "demands are made of headers / merkleblock / block against refs/btgser; when pack returns other bytes, these bytes are "
               "also parsed back (p2p.altnet.btg.parse_of_packed_raises / pack_then_parse_field_mismatch), the keys carry "
               "`.below_fork_height` when a header of the message lies below the BTG fork height")
TIMEOUT = {"quick": 1800, "thorough": 3 * 3600}

N_SHARDS = 16


def plan(tier, seed):
    sets = 20000 if tier == "quick" else 1200000
    histories = 1000 if tier == "quick" else 60000
    shards = [{"part": p, "parts": N_SHARDS, "sets": sets, "histories": histories, "label": "messages-%d" % p} for p in range(N_SHARDS)]
    # one more process for the long run: > 2^16 (2^17) judged operations on one packer / parser
    return shards + [{"longrun": ((1 << 16) if tier == "quick" else (1 << 17)) + 100, "label": "longrun"}]


def configurations(tier):
    return ["BTC network.message", "LTC network.message (LTCBlock/LTCTx)",
            "BCH / GRS / DOGE / XTN network.message (tx, block, headers, merkleblock, blocktxn, cmpctblock)",
            "BTG network.message (eight-field header: headers, merkleblock, block; and tx, blocktxn, cmpctblock)"]


def selftest(rec):
    return {"p2p": P2P.selftest(), "txser": RT.selftest(), "blockser": RB.selftest(), "merkle": RM.selftest(),
            "pmt": RP.selftest()["closure_cases"], "btgser": RBTG.selftest()}


# ------------------------------------------------------------------------------------------- value generators

ARRAY_EDGE = [0, 1, 2, 252, 253, 1000]
U48_EDGE = [0, 1, 0xffffffff, 0x100000000, 0x7fffffffffff, 0x800000000000, 0xffffffffffff, 0x010203040506]
CSIZE_EDGE = [0, 1, 252, 253, 254, 255, 256, 0xffff, 0x10000, 0xffffffff, 0x100000000, 0xffffffffffffffff]
PORT_EDGE = [0, 1, 255, 256, 8333, 0x8000, 65535]
U8_EDGE = [0, 1, 0x7f, 0x80, 255]


def alen(rng, k, heavy=False):
    """array length for value set k: the boundary lengths first, then small with occasional boundary"""
    if k < len(ARRAY_EDGE):
        return ARRAY_EDGE[k]
    r = rng.random()
    if r < 0.04 and not heavy:
        return rng.choice([252, 253, 254, 300])
    if r < 0.012:
        return rng.choice([252, 253])
    return rng.choice([0, 1, 1, 2, 3, 5, 8])


def pick(rng, edge, bits):
    return rng.choice(edge) if rng.random() < 0.5 else rng.getrandbits(bits)


def u32(rng, k=99):
    return G.U32_EDGE[k % len(G.U32_EDGE)] if k < 7 else G.pick_u32(rng)


def u64(rng, k=99):
    return G.U64_EDGE[k % len(G.U64_EDGE)] if k < 7 else G.pick_u64(rng)


def var_bytes(rng, k):
    n = alen(rng, k)
    r = rng.random()
    if r < 0.2:
        return bytes([rng.choice([0, 0xff, 0x80])]) * n
    if r < 0.5:
        return bytes(rng.randrange(32, 127) for _ in range(n))
    return G.rbytes(rng, n)


def address(rng, k=99):
    r = k % 5 if k < 10 else rng.randrange(5)
    if r == 0:
        ip = P2P.ipv4(*(rng.randrange(256) for _ in range(4)))
    elif r == 1:
        ip = G.rbytes(rng, 16)                              # IPv6
    elif r == 2:
        ip = b"\0" * 16
    elif r == 3:
        ip = b"\xff" * 16
    else:
        ip = bytes.fromhex("fd87d87eeb43") + G.rbytes(rng, 10)   # onioncat range
    return {"services": u64(rng, k), "ip": ip, "port": PORT_EDGE[k % len(PORT_EDGE)] if k < 14 else pick(rng, PORT_EDGE, 16)}


def inv_item(rng):
    return {"type": rng.choice([1, 2, 3, 4, 0x40000001, 0x40000002, 0, 0xffffffff, rng.getrandbits(32)]), "hash": G.rand_hash(rng)}


def g_version(rng, k):
    return {"version": u32(rng, k), "services": u64(rng, k), "timestamp": u64(rng, k + 3), "remote_address": address(rng, k),
            "local_address": address(rng, k + 1), "nonce": u64(rng, k + 5), "subversion": var_bytes(rng, k),
            "last_block_index": u32(rng, k + 2), "relay": [True, False, None][k % 3]}


def g_empty(rng, k):
    return {}


def g_addr(rng, k):
    return {"date_address_tuples": [{"time": u32(rng, i if k == 5 else 99), "addr": address(rng, i if k in (4, 5) else 99)}
                                    for i in range(alen(rng, k))]}


def g_inv(rng, k):
    return {"items": [inv_item(rng) for _ in range(alen(rng, k))]}


def g_reject(rng, k):
    return {"message": var_bytes(rng, k + 1), "code": U8_EDGE[k % 5] if k < 10 else rng.randrange(256), "reason": var_bytes(rng, k),
            "data": G.rand_hash(rng)}


def g_locator(rng, k):
    return {"version": u32(rng, k), "hashes": [G.rand_hash(rng) for _ in range(alen(rng, k))], "hash_stop": G.rand_hash(rng)}


def g_tx(rng, k):
    return {"tx": G.rand_tx(rng, segwit=(k % 2 == 1) if k < 8 else None)}


def g_block(rng, k):
    n = [1, 2, 3, 4, 5, 7, 8, 33][k] if k < 8 else rng.choice([1, 1, 2, 3, 6, 9])
    if k == 8:
        n = 253
    header, txs = G.rand_block(rng, n, small=n > 20)
    return {"block": {"header": header, "txs": txs}}


def g_headers(rng, k):
    n = alen(rng, k, heavy=True) if k != 5 else 1000
    return {"headers": [{"header": G.rand_header(rng, edge=(G.U32_EDGE[i % 7] if k == 4 else None)),
                         "txn_count": CSIZE_EDGE[i % len(CSIZE_EDGE)] if k in (3, 4, 6) else rng.choice([0, 0, 0, 1, rng.choice(CSIZE_EDGE)])}
                        for i in range(n)]}


def g_feefilter(rng, k):
    return {"fee_filter_value": u64(rng, k)}


def g_sendcmpct(rng, k):
    return {"enabled": bool(k & 1) if k < 14 else rng.random() < 0.5, "version": u64(rng, k // 2)}


def g_cmpctblock(rng, k):
    # half of the value sets carry no short ids, so the rest of the layout is exercised on its own as well
    n_ids = alen(rng, k // 2) if k % 2 == 0 else 0
    ids = [U48_EDGE[i % len(U48_EDGE)] if (k < 12 or rng.random() < 0.3) else rng.getrandbits(48) for i in range(n_ids)]
    n_pre = [0, 1, 2, 3, 253, 0][k % 6] if k < 12 else alen(rng, 99, heavy=True)
    pre = [{"index": CSIZE_EDGE[i % len(CSIZE_EDGE)] if k % 3 == 0 else rng.choice([0, 1, rng.randrange(300)]),
            "tx": G.rand_tx(rng, small=n_pre > 20)} for i in range(n_pre)]
    return {"header_hash": G.rand_hash(rng), "nonce": u64(rng, k), "short_ids": ids, "prefilled_txs": pre}


def g_getblocktxn(rng, k):
    n = alen(rng, k)
    return {"header_hash": G.rand_hash(rng), "indices": [CSIZE_EDGE[i % len(CSIZE_EDGE)] if k % 2 == 0 else rng.randrange(2000) for i in range(n)]}


def g_blocktxn(rng, k):
    n = alen(rng, k, heavy=True) if k != 5 else 1000
    return {"header_hash": G.rand_hash(rng), "txs": [G.rand_tx(rng, small=n > 20, segwit=None if n <= 20 else (i % 3 == 0)) for i in range(n)]}


def g_nonce(rng, k):
    return {"nonce": u64(rng, k)}


def g_filterload(rng, k):
    n = alen(rng, k) if k != 6 else 36000
    return {"filter": list(G.rbytes(rng, n)) if k % 4 else [U8_EDGE[i % 5] for i in range(n)], "hash_function_count": u32(rng, k),
            "tweak": u32(rng, k + 3), "flags": bool(k & 1) if k < 14 else rng.random() < 0.5}


def g_filteradd(rng, k):
    n = alen(rng, k) if k != 6 else 520
    return {"data": list(G.rbytes(rng, n)) if k % 4 else [U8_EDGE[i % 5] for i in range(n)]}


def g_merkleblock(rng, k):
    n = [1, 2, 3, 5, 7, 8, 9, 33, 1000][k] if k < 9 else rng.choice([1, 2, 3, 4, 5, 6, 7, 11, 12, 13, 17, 31, 64, 100])
    txids = G.fake_txids("mb%d" % k, n)
    d = rng.choice([0.0, 0.1, 0.5, 1.0])
    matches = [i for i in range(n) if rng.random() < d]
    total, hashes, fb = RP.build(txids, matches)
    return {"header": G.rand_header(rng, root=RM.root(txids)), "total_transactions": total, "hashes": hashes, "flags": list(fb)}


def g_alert(rng, k):
    a = {"version": u32(rng, k), "relayUntil": u64(rng, k), "expiration": u64(rng, k + 1), "id": u32(rng, k + 1), "cancel": u32(rng, k + 2),
         "setCancel": [u32(rng) for _ in range(alen(rng, k))], "minVer": u32(rng, k + 3), "maxVer": u32(rng, k + 4),
         "setSubVer": [var_bytes(rng, 99) for _ in range(alen(rng, k + 1) if k < 5 else alen(rng, 99))], "priority": u32(rng, k + 5),
         "comment": var_bytes(rng, 99), "statusBar": var_bytes(rng, k + 2), "reserved": var_bytes(rng, 99)}
    return {"payload": P2P.enc_alert_payload(a), "signature": var_bytes(rng, k)}


GENERATORS = {
    "version": g_version, "verack": g_empty, "addr": g_addr, "inv": g_inv, "getdata": g_inv, "notfound": g_inv, "reject": g_reject,
    "getblocks": g_locator, "getheaders": g_locator, "sendheaders": g_empty, "tx": g_tx, "block": g_block, "headers": g_headers,
    "getaddr": g_empty, "mempool": g_empty, "feefilter": g_feefilter, "sendcmpct": g_sendcmpct, "cmpctblock": g_cmpctblock,
    "getblocktxn": g_getblocktxn, "blocktxn": g_blocktxn, "sendaddrv2": g_empty, "ping": g_nonce, "pong": g_nonce,
    "filterload": g_filterload, "filteradd": g_filteradd, "filterclear": g_empty, "merkleblock": g_merkleblock, "alert": g_alert,
}
# the field names each generator produces (the keyword arguments of pack); checked against the library's table at run time
FIELD_NAMES = {
    "version": {"version", "services", "timestamp", "remote_address", "local_address", "nonce", "subversion", "last_block_index", "relay"},
    "addr": {"date_address_tuples"}, "inv": {"items"}, "getdata": {"items"}, "notfound": {"items"},
    "reject": {"message", "code", "reason", "data"}, "getblocks": {"version", "hashes", "hash_stop"},
    "getheaders": {"version", "hashes", "hash_stop"}, "tx": {"tx"}, "block": {"block"}, "headers": {"headers"},
    "feefilter": {"fee_filter_value"}, "sendcmpct": {"enabled", "version"},
    "cmpctblock": {"header_hash", "nonce", "short_ids", "prefilled_txs"}, "getblocktxn": {"header_hash", "indices"},
    "blocktxn": {"header_hash", "txs"}, "ping": {"nonce"}, "pong": {"nonce"},
    "filterload": {"filter", "hash_function_count", "tweak", "flags"}, "filteradd": {"data"},
    "merkleblock": {"header", "total_transactions", "hashes", "flags"}, "alert": {"payload", "signature"},
}


# ------------------------------------------------------------------------------------------- library side

_NETS = {}


def _net(sym):
    if sym not in _NETS:
        if sym == "BTC":
            from pycoin.symbols.btc import network
        elif sym == "LTC":
            from pycoin.symbols.ltc import network
        elif sym in ALT_NETWORKS:
            import importlib
            network = importlib.import_module("pycoin.symbols." + sym.lower()).network
        else:
            raise ValueError(sym)
        _NETS[sym] = network
    return _NETS[sym]


def table_names():
    from pycoin.message.make_parser_and_packer import STANDARD_P2P_MESSAGES
    return dict(STANDARD_P2P_MESSAGES)


def check_table(table):
    """every key of the library's table needs a generator and the field names the generator knows: otherwise the
    run cannot claim to have monitored that message -> exception -> INCONCLUSIVE."""
    for name, layout in table.items():
        if name not in GENERATORS or name not in P2P.MESSAGES:
            raise RuntimeError("message %r of STANDARD_P2P_MESSAGES has no generator/reference encoder in C16: not monitored" % name)
        declared = {item.split(":")[0] for item in layout.split()}
        if declared != FIELD_NAMES.get(name, set()):
            raise RuntimeError("message %r declares fields %s, C16 generates %s: not monitored" % (
                name, sorted(declared), sorted(FIELD_NAMES.get(name, set()))))


def mk_tx(N, t):
    Tx = N.tx
    ins = []
    for i in t["ins"]:
        ti = Tx.TxIn(i["prev"], i["index"], i["script"], i["sequence"])
        ti.witness = list(i["witness"])
        ins.append(ti)
    return Tx(t["version"], ins, [Tx.TxOut(o["value"], o["script"]) for o in t["outs"]], t["lock_time"])


def mk_header(N, h):
    return N.block(h["version"], h["prev"], h["root"], h["time"], h["bits"], h["nonce"])


def mk_block(N, b):
    blk = mk_header(N, b["header"])
    blk.set_txs([mk_tx(N, t) for t in b["txs"]])
    return blk


IPV4_PREFIX = b"\0" * 10 + b"\xff\xff"


def addr_in_4_bytes(a):
    return a["ip"][:12] == IPV4_PREFIX and bool((a["ip"][15] ^ a["port"]) & 1)


def inv_checked(i):
    return i["type"] in (1, 2, 3) and bool(i["hash"][0] & 1)


def mk_addr(a):
    """the address as a PeerAddress; an IPv4 one every second time in the constructor's 4-byte spelling (which of the
    two follows from the value, so a replay builds the same object)"""
    from pycoin.message.PeerAddress import PeerAddress
    if addr_in_4_bytes(a):
        return PeerAddress(a["services"], a["ip"][12:], a["port"])
    return PeerAddress(a["services"], a["ip"], a["port"])


def mk_inv(i):
    from pycoin.message.InvItem import InvItem
    if inv_checked(i):
        return InvItem(i["type"], i["hash"])              # the checking constructor takes the three classic types
    return InvItem(i["type"], i["hash"], dont_check=True)


OBJECT_KINDS = ("addr", "inv", "tx", "header", "block")


def kind_of(v):
    """shape of a reference value: one of OBJECT_KINDS, a pair name, or None"""
    keys = set(v)
    if keys == {"services", "ip", "port"}:
        return "addr"
    if keys == {"type", "hash"}:
        return "inv"
    if "ins" in keys:
        return "tx"
    if keys == {"version", "prev", "root", "time", "bits", "nonce"}:
        return "header"
    if keys == {"header", "txs"}:
        return "block"
    if keys == {"header", "txn_count"}:
        return "pair:header,txn_count"
    if keys == {"index", "tx"}:
        return "pair:index,tx"
    if keys == {"time", "addr"}:
        return "pair:time,addr"
    return None


def to_lib(N, v, live=None):
    """reference value -> the object pycoin's pack takes, directed by the value's shape.
    `live` (histories): id(reference dict) -> library object already standing for it; such objects are reused, new ones
    are entered (the caller keeps the reference dicts alive)."""
    if isinstance(v, dict):
        if live is not None and id(v) in live:
            return live[id(v)]
        kind = kind_of(v)
        if kind == "addr":
            o = mk_addr(v)
        elif kind == "inv":
            o = mk_inv(v)
        elif kind == "tx":
            o = mk_tx(N, v)
        elif kind == "header":
            o = mk_header(N, v)
        elif kind == "block":
            o = to_lib(N, v["header"], live)
            o.set_txs([to_lib(N, t, live) for t in v["txs"]])
        elif kind and kind.startswith("pair:"):
            a, b = kind[5:].split(",")
            return (to_lib(N, v[a], live), to_lib(N, v[b], live))
        else:
            raise ValueError("unknown value shape %s" % sorted(v))
        if live is not None:
            live[id(v)] = o
        return o
    if isinstance(v, list):
        return [to_lib(N, x, live) for x in v]
    return v


def cmp_tx(N, got, want):
    if not isinstance(got, N.tx):
        return "not a Tx"
    if got.version != want["version"] or got.lock_time != want["lock_time"]:
        return "version/lock_time"
    if len(got.txs_in) != len(want["ins"]) or len(got.txs_out) != len(want["outs"]):
        return "input/output count"
    for g, w in zip(got.txs_in, want["ins"]):
        if bytes(g.previous_hash) != w["prev"] or g.previous_index != w["index"] or bytes(g.script) != w["script"] or g.sequence != w["sequence"]:
            return "input"
        if [bytes(x) for x in g.witness] != list(w["witness"]):
            return "witness"
    for g, w in zip(got.txs_out, want["outs"]):
        if g.coin_value != w["value"] or bytes(g.script) != w["script"]:
            return "output"
    return None


def cmp_header(N, got, want):
    if not isinstance(got, N.block):
        return "not a Block"
    g = {"version": got.version, "prev": bytes(got.previous_block_hash), "root": bytes(got.merkle_root), "time": got.timestamp,
         "bits": got.difficulty, "nonce": got.nonce}
    return None if g == want else "header fields"


def cmp_value(N, got, want):
    """None when equal, else a short reason"""
    if want is None:
        return None if not got else "absent optional reported truthy"
    if isinstance(want, bool):
        return None if (got == want and isinstance(got, (bool, int))) else "bool"
    if isinstance(want, int):
        return None if (isinstance(got, int) and got == want) else "int"
    if isinstance(want, bytes):
        # the same byte string in any bytes-like type (b"ab" == bytearray(b"ab")): the statement fixes the value
        return None if (isinstance(got, (bytes, bytearray, memoryview)) and bytes(got) == want) else "bytes"
    if isinstance(want, list):
        if not isinstance(got, (list, tuple)) or len(got) != len(want):
            return "array length"
        for g, w in zip(got, want):
            r = cmp_value(N, g, w)
            if r:
                return "element: " + r
        return None
    keys = set(want)
    if keys == {"services", "ip", "port"}:
        ok = (hasattr(got, "ip_bin") and got.services == want["services"] and bytes(got.ip_bin) == want["ip"] and got.port == want["port"])
        return None if ok else "PeerAddress"
    if keys == {"type", "hash"}:
        ok = hasattr(got, "item_type") and got.item_type == want["type"] and bytes(got.data) == want["hash"]
        return None if ok else "InvItem"
    if "ins" in keys:
        return cmp_tx(N, got, want)
    if keys == {"version", "prev", "root", "time", "bits", "nonce"}:
        return cmp_header(N, got, want)
    if keys == {"header", "txs"}:
        r = cmp_header(N, got, want["header"])
        if r:
            return r
        if len(got.txs) != len(want["txs"]):
            return "block tx count"
        for g, w in zip(got.txs, want["txs"]):
            r = cmp_tx(N, g, w)
            if r:
                return "block tx " + r
        return None
    pair = {frozenset(("header", "txn_count")): ("header", "txn_count"), frozenset(("index", "tx")): ("index", "tx"),
            frozenset(("time", "addr")): ("time", "addr")}.get(frozenset(keys))
    if pair:
        if not isinstance(got, (list, tuple)) or len(got) != 2:
            return "tuple"
        return cmp_value(N, got[0], want[pair[0]]) or cmp_value(N, got[1], want[pair[1]])
    return "unknown shape"


# ------------------------------------------------------------------------------------------- call spellings
#
# The same message can be handed to pack in many spellings that all name the same field values: keyword arguments in any
# order (the caller's dict need not be built in the declared order), a dict that carries more keys than the message
# declares (what parse itself returns for merkleblock / alert), arrays as tuples (what parse returns) or lists, pairs as
# lists or tuples, byte arrays as bytes / bytearray (BloomFilter.filter_load_params returns a bytearray).  The same
# payload can be handed to parse as bytes, an instance of a bytes subclass, a bytearray or a memoryview (also of a
# receive buffer the caller overwrites afterwards).  A variant names one such spelling; it is part of the stored case.

ORDER_KINDS = ("reversed", "sorted", "shuffled", "rotated")
PACK_KINDS = ("reversed", "sorted", "shuffled", "extra", "rotated", "containers", "shuffled+extra", "reversed+containers")
DATA_KINDS = ("bytes", "bytes", "subclass", "bytes", "bytearray", "bytes", "memoryview", "bytearray_view")
EXTRA_KEYS = ("tx_hashes", "alert_info", "checksum", "command", "length", "a", "zz", "Version")
CONTAINER_KINDS = ("tuples", "pair_lists", "u8_as_bytes", "u8_as_bytearray", "all")


class BytesSubclass(bytes):
    """what a framing layer that tags its payloads hands on: still a bytes object"""
    origin = "peer"


def field_types(layout):
    return dict(item.split(":") for item in layout.split())


_TYPES = {}


def types_of(name):
    """declared field name -> declared type, read from the library's table"""
    if not _TYPES:
        _TYPES.update({k: field_types(v) for k, v in table_names().items()})
    return _TYPES[name]


def reorder_keys(keys, how, rng):
    """a key order of class `how` that is NOT the given (declared) one whenever there are two keys or more"""
    keys = list(keys)
    out = list(keys)
    if how == "reversed":
        out.reverse()
    elif how == "sorted":
        out.sort()
        if out == keys:
            out.reverse()
    elif how == "shuffled":
        rng.shuffle(out)
    elif how == "rotated":
        r = rng.randrange(1, len(out)) if len(out) > 1 else 0
        out = out[r:] + out[:r]
    if out == keys and len(out) > 1:
        out = out[1:] + out[:1]
    return out


def make_variant(rng, name, fields, types, j):
    """the spelling of the j-th value set of a message (j counts the sets one shard sees): every class comes round"""
    keys = list(fields)
    kind = PACK_KINDS[j % len(PACK_KINDS)]
    v = {"kind": kind, "order": None, "extra": None, "containers": None, "data": DATA_KINDS[(j // 3) % len(DATA_KINDS)],
         "repack": ("parsed", "reversed", "sorted", "shuffled")[(j // 2) % 4] if j % 2 == 0 or j < 40 else None}
    has_array = any(t.startswith("[") for t in types.values())
    for part in kind.split("+"):
        if part in ORDER_KINDS:
            if len(keys) >= 2:
                v["order"], v["order_kind"] = reorder_keys(keys, part, rng), part
            elif has_array:
                v["containers"] = rng.choice(CONTAINER_KINDS)       # one field: nothing to reorder
            else:
                part = "extra"
        if part == "containers":
            if has_array:
                v["containers"] = CONTAINER_KINDS[(j // len(PACK_KINDS)) % len(CONTAINER_KINDS)]
            elif len(keys) >= 2:
                v["order_kind"] = rng.choice(ORDER_KINDS)
                v["order"] = reorder_keys(keys, v["order_kind"], rng)
            else:
                part = "extra"
        if part == "extra":
            n = rng.choice([1, 1, 2])
            names = [x for x in rng.sample(EXTRA_KEYS, n) if x not in fields]
            v["extra"] = [[x, rng.randrange(len(keys) + 1), rng.choice([None, 0, b"", "x", 7])] for x in names]
    if v["repack"] == "shuffled":
        v["repack_seed"] = rng.randrange(1 << 30)
    return v


def respell_containers(v, how, typ):
    """the same array value in another container spelling (objects are shared, not copied)"""
    if not isinstance(v, list) or not typ.startswith("["):
        return v
    if typ == "[1]" and how in ("u8_as_bytes", "u8_as_bytearray", "all"):
        return bytearray(v) if how != "u8_as_bytes" else bytes(v)
    if how in ("pair_lists", "all"):
        v = [list(x) if isinstance(x, tuple) else x for x in v]
    if how in ("tuples", "all"):
        v = tuple(v)
    return v


def spell_kwargs(kw, types, order=None, extra=None, containers=None):
    out = {k: (respell_containers(kw[k], containers, types.get(k, "")) if containers else kw[k]) for k in (order or list(kw))}
    if extra:
        items = list(out.items())
        for x, pos, val in extra:
            items.insert(min(pos, len(items)), (x, val))
        out = dict(items)
    return out


def spell_data(data, how, buf=None):
    """-> (object handed to parse, function that overwrites the caller-owned buffer afterwards or None)"""
    if how == "subclass":
        return BytesSubclass(data), None
    if how in ("bytearray", "bytearray_view"):
        b = bytearray(data)

        def scribble():
            for i in range(len(b)):
                b[i] ^= 0xa5
        return (b if how == "bytearray" else memoryview(b)), scribble
    if how == "memoryview":
        return memoryview(data), None
    if how in ("buffer", "buffer_view"):
        try:
            buf[:] = data
        except BufferError:               # a view of the buffer handed out earlier is still held somewhere: a new buffer
            buf = bytearray(data)
        return (buf if how == "buffer" else memoryview(buf)), None
    return data, None


def repack_kwargs(d, model, how, seed=0):
    """the dict parse returned, as the keyword arguments of pack (every key it carries; absent `relay` stays absent)"""
    import random
    keys = list(d)
    if how == "reversed":
        keys.reverse()
    elif how == "sorted":
        keys.sort()
    elif how == "shuffled":
        random.Random(seed).shuffle(keys)
    return {k: (model[k] if k == "relay" else d[k]) for k in keys}


# ------------------------------------------------------------------------------------------- value-type spellings
#
# The same field VALUE can be handed over in several Python types: a string field as bytes / a bytes subclass / bytearray /
# memoryview, or as text (the table declares "S: unicode string encoded using utf-8"); an integer as an int subclass, an
# IntEnum member, a bool for 0 / 1; a flag as True / False or 1 / 0; an address built from 4 or from 16 bytes or as an
# instance of a PeerAddress subclass; a Tx / Block built by the constructor or parsed from bytes.  One dimension per value
# set (all come round).  A refusal is counted, never judged; when pack RETURNS the bytes must be the wire encoding of the
# value (for text: of its utf-8 bytes).  Arguments owned by the caller (bytearray, list) must come back unchanged and a
# second call with the very same objects must give the same bytes.

TYPE_DIMS = ("str", "bytearray", "int_subclass", "flag_int", "object_spelling", "memoryview", "int_enum_bool", "bytes_subclass")
DIM_LETTERS = {"str": "S", "bytearray": "S#", "memoryview": "S#", "bytes_subclass": "S#Av", "int_subclass": "LQ16IAv",
               "int_enum_bool": "LQ16IAv", "flag_int": "bO", "object_spelling": "AvTBz"}
TEXT_CLASSES = ("two_byte", "three_byte", "empty", "four_byte", "chars_below_253_bytes_above", "ascii", "bytes_exactly_253",
                "bom_first", "bytes_exactly_252", "nul_and_controls", "chars_below_65536_bytes_above", "long_mixed")
NO_TEXT = {("alert", "payload")}         # a structure (parse post-processes it), not free text
_ASCII = "".join(chr(c) for c in range(32, 127))
_TWO = "\u00ef\u00e4\u00df\u00e9\u0080\u07ff\u03a9\u0416"            # utf-8: two bytes each
_THREE = "\u20bf\u20ac\u0800\uffff\u4e2d\u2603\ud7ff"               # three bytes each
_FOUR = "\U0001f600\U00010000\U0010ffff\U0001f4b0"


class IntSub(int):
    """a caller's own integer type (a height, a set of service bits): an int"""
    __slots__ = ()


_ENUM = {}


def enum_member(v):
    """an IntEnum member of value v (what a caller that names its protocol constants passes)"""
    if v not in _ENUM:
        import enum
        if len(_ENUM) > 4096:
            _ENUM.clear()
        _ENUM[v] = enum.IntEnum("WireValue", {"VALUE": v}).VALUE
    return _ENUM[v]


def make_text(rng, cls):
    def some(alphabet, lo, hi):
        return "".join(rng.choice(alphabet) for _ in range(rng.randrange(lo, hi)))
    if cls == "empty":
        return ""
    if cls == "ascii":
        return some(_ASCII, 1, 40)
    if cls == "two_byte":
        return some(_ASCII, 0, 8) + some(_TWO, 1, 3) + some(_ASCII, 0, 8)
    if cls == "three_byte":
        return some(_ASCII, 0, 8) + some(_THREE, 1, 3) + some(_ASCII, 0, 8)
    if cls == "four_byte":
        return some(_ASCII, 0, 8) + some(_FOUR, 1, 3) + some(_ASCII, 0, 8)
    if cls == "chars_below_253_bytes_above":
        n = rng.randrange(127, 253)
        return "".join(rng.choice(_TWO + _THREE) for _ in range(n))
    if cls == "bytes_exactly_253":
        t = list(some(_ASCII, 251, 252) + rng.choice(_TWO))
        rng.shuffle(t)
        return "".join(t)
    if cls == "bytes_exactly_252":
        t = list(some(_ASCII, 249, 250) + rng.choice(_THREE))
        rng.shuffle(t)
        return "".join(t)
    if cls == "bom_first":
        return "\ufeff" + some(_ASCII + _TWO, 0, 12)
    if cls == "nul_and_controls":
        return some("\0\n\r\t\x7f\x1b" + _ASCII + _TWO, 1, 12) + "\0"
    if cls == "chars_below_65536_bytes_above":
        base = some(_ASCII, 7, 8)
        return (base * 9363)[:rng.choice([65534, 65533, 65000])] + rng.choice(_TWO + _THREE)
    return some(_ASCII + _TWO + _THREE + _FOUR, 254, 400)


def make_type_spelling(rng, name, j):
    """{"dim": dimension, "text": {field: text}}: the j-th value set of a message takes dimension j (the next one that
    touches a field of this message)"""
    letters = "".join(VALUE_TYPES.get(name, {}).values())
    for i in range(len(TYPE_DIMS)):
        dim = TYPE_DIMS[(j + i) % len(TYPE_DIMS)]
        if any(c in letters for c in DIM_LETTERS[dim]) or ("[1]" in letters and dim in ("bytearray", "memoryview", "bytes_subclass")):
            break
    else:
        return None
    out = {"dim": dim}
    if dim == "str":
        out["text"] = {}
        for i, (k, t) in enumerate(VALUE_TYPES[name].items()):
            if t == "S" and (name, k) not in NO_TEXT:
                cls = TEXT_CLASSES[(j // len(TYPE_DIMS) + i) % len(TEXT_CLASSES)]
                out["text"][k] = make_text(rng, cls)
                out.setdefault("text_class", {})[k] = cls
    return out


_TAGGED = []


def tagged_peer_address():
    """what an address book that keeps its own notes on a peer hands over: an instance of a PeerAddress subclass"""
    if not _TAGGED:
        from pycoin.message.PeerAddress import PeerAddress

        class TaggedPeerAddress(PeerAddress):
            seen_at = 0
        _TAGGED.append(TaggedPeerAddress)
    return _TAGGED[0]


def _respell_addr(a, dim, deep=0):
    from pycoin.message.PeerAddress import PeerAddress
    ip = a["ip"][12:] if addr_in_4_bytes(a) else a["ip"]
    if dim == "bytes_subclass":
        return PeerAddress(a["services"], BytesSubclass(ip), a["port"])
    if dim == "int_subclass":
        return PeerAddress(IntSub(a["services"]), ip, IntSub(a["port"]))
    if dim == "int_enum_bool":
        services = enum_member(a["services"]) if (deep < 2 or a["services"] < 16) else IntSub(a["services"])
        return PeerAddress(services, ip, a["port"] == 1 if a["port"] in (0, 1) else enum_member(a["port"]) if deep < 2 else IntSub(a["port"]))
    if dim == "object_spelling":
        # the other constructor spelling of an IPv4 address; an instance of a subclass otherwise
        if a["ip"][:12] == IPV4_PREFIX:
            return PeerAddress(a["services"], a["ip"] if addr_in_4_bytes(a) else a["ip"][12:], a["port"])
        return tagged_peer_address()(a["services"], a["ip"], a["port"])
    return None


def _respell_inv(i, dim, deep=0):
    from pycoin.message.InvItem import InvItem
    if dim == "bytes_subclass":
        return InvItem(i["type"], BytesSubclass(i["hash"]), dont_check=True)
    if dim == "int_subclass":
        return InvItem(IntSub(i["type"]), i["hash"], dont_check=True)
    if dim == "int_enum_bool":
        return InvItem(enum_member(i["type"]) if (deep < 2 or i["type"] < 5) else IntSub(i["type"]), i["hash"], dont_check=not inv_checked(i))
    if dim == "object_spelling":
        # the other constructor where it exists
        return InvItem(i["type"], i["hash"], dont_check=not (i["type"] in (1, 2, 3) and not inv_checked(i)))
    return None


def respell_type(N, t, ref, lib, dim, deep=0):
    """the library-side value for the reference value `ref` of declared type letter `t` in dimension `dim` (or `lib`)"""
    if t not in DIM_LETTERS[dim]:
        return lib
    if t in "S#":
        return {"bytearray": bytearray, "memoryview": memoryview, "bytes_subclass": BytesSubclass}[dim](ref)
    if t in "LQ16I":
        if dim == "int_subclass":
            return IntSub(ref)
        if ref in (0, 1):
            return ref == 1
        return enum_member(ref) if deep < 2 else IntSub(ref)
    if t in "bO":
        return None if ref is None else int(ref)
    if t == "A":
        return _respell_addr(ref, dim, deep) or lib
    if t == "v":
        return _respell_inv(ref, dim, deep) or lib
    import io
    if t == "T":
        return N.tx.from_bin(RT.serialize(ref))
    if t == "z":
        return N.block.parse_as_header(io.BytesIO(RB.ser_header(ref)))
    if t == "B":
        return N.block.from_bin(RB.ser_block(ref["header"], ref["txs"]))
    return lib


def respell_types(N, name, fields, kw, spelling):
    """-> (keyword arguments in the type spelling, field values they stand for)"""
    dim = spelling["dim"]
    out, f2 = {}, dict(fields)
    for k, t in VALUE_TYPES[name].items():
        ref, lib = fields[k], kw[k]
        if dim == "str":
            if k in spelling.get("text", {}):
                out[k] = spelling["text"][k]
                f2[k] = spelling["text"][k].encode("utf-8")
            else:
                out[k] = lib
        elif t[0] != "[":
            out[k] = respell_type(N, t, ref, lib, dim)
        else:
            et = t[1:-1]
            if et == "1":
                # byte arrays: a list of the caller's integers (bytes / bytearray are container spellings, see above)
                if dim in ("bytearray", "memoryview", "bytes_subclass"):
                    out[k] = {"bytearray": bytearray, "memoryview": memoryview, "bytes_subclass": BytesSubclass}[dim](bytes(ref))
                else:
                    out[k] = [respell_type(N, "1", r, r, dim, 1 + (i > 0)) for i, r in enumerate(ref)] if "1" in DIM_LETTERS[dim] else lib
            elif len(et) == 1:
                out[k] = [respell_type(N, et, r, x, dim, 1 + (i > 0)) for i, (r, x) in enumerate(zip(ref, lib))]
            else:
                keys = PAIR_KEYS[et]
                out[k] = [tuple(respell_type(N, c, r[key], y, dim, 1 + (i > 0)) for c, key, y in zip(et, keys, x))
                          for i, (r, x) in enumerate(zip(ref, lib))]
    return out, f2


def snapshot(v):
    """what the caller can see of an argument it owns: the content of mutable containers (identity of the rest)"""
    if isinstance(v, bytearray):
        return bytes(v)
    if isinstance(v, (list, tuple)):
        return [snapshot(x) if isinstance(x, (bytearray, list)) else x for x in v]
    return v


def unchanged(snap, v):
    if isinstance(v, bytearray):
        return snap == bytes(v)
    if isinstance(v, (list, tuple)):
        return len(snap) == len(v) and all((unchanged(a, b) if isinstance(b, (bytearray, list)) else a is b) for a, b in zip(snap, v))
    return snap is v


def judge_value_types(N, name, fields, kw, spelling, want, case, rec):
    dim = spelling["dim"]
    rec.ev("pack_value_type")
    rec.ev("pack_value_type:" + dim)
    for cls in spelling.get("text_class", {}).values():
        rec.ev("pack_value_type:str:" + cls)
    st, r = observe(respell_types, N, name, fields, kw, spelling)
    if st != "ok":
        rec.ev("pack_value_type_not_constructible:" + dim)           # a helper constructor refused the spelling: not judged
        return
    kw2, f2 = r
    if dim == "str":
        want = P2P.encode(name, f2)
    before = {k: snapshot(v) for k, v in kw2.items()}
    st, got = observe(lambda: N.message.pack(name, **kw2))
    changed = sorted(k for k, v in kw2.items() if not unchanged(before[k], v))
    if changed:
        rec.violation("p2p.pack_modifies_argument.%s" % name, case, {"fields": changed}, "arguments unchanged")
        return
    if st != "ok":
        rec.ev("pack_value_type_refused:" + dim)                      # a refusal is not a wrong answer
        return
    rec.ev("pack_value_type_returned:" + dim)
    if got != want:
        if dim == "str":
            ascii_only = all(ord(c) < 128 for t in spelling["text"].values() for c in t)
            rec.violation("p2p.pack_value_type.str.%s.%s" % ("ascii" if ascii_only else "non_ascii", name), case, got, want)
        else:
            rec.violation("p2p.pack_value_type.%s.%s" % (dim, name), case, got, want)
        return
    if len(want) <= 1024:
        st, again = observe(lambda: N.message.pack(name, **kw2))
        rec.ev("pack_value_type:same_objects_again")
        if st != "ok" or again != want:
            rec.violation("p2p.pack_value_type.not_repeatable.%s.%s" % (dim, name), case, again, want)


# ------------------------------------------------------------------------------------------- value classes
#
# Which regions of "every field value of the declared type" a run reached is counted per (message, field) from the
# reference values and the types the library's table declares; the classes a generator is built to reach are required
# (a run that did not reach one is INCONCLUSIVE).  Arrays: the first 12 elements and the last one are classified.

# the value type of every field the generators produce, in the letters of the comment at the head of the library's table
# (the check's own list: the classes are those of the generated values, whatever the table under test says)
VALUE_TYPES = {name: dict(item.split(":") for item in layout.split()) for name, layout in {
    "version": "version:L services:Q timestamp:Q remote_address:A local_address:A nonce:Q subversion:S last_block_index:L relay:O",
    "addr": "date_address_tuples:[LA]", "inv": "items:[v]", "getdata": "items:[v]", "notfound": "items:[v]",
    "reject": "message:S code:1 reason:S data:#", "getblocks": "version:L hashes:[#] hash_stop:#",
    "getheaders": "version:L hashes:[#] hash_stop:#", "tx": "tx:T", "block": "block:B", "headers": "headers:[zI]",
    "feefilter": "fee_filter_value:Q", "sendcmpct": "enabled:b version:Q",
    "cmpctblock": "header_hash:# nonce:Q short_ids:[6] prefilled_txs:[IT]", "getblocktxn": "header_hash:# indices:[I]",
    "blocktxn": "header_hash:# txs:[T]", "ping": "nonce:Q", "pong": "nonce:Q",
    "filterload": "filter:[1] hash_function_count:L tweak:L flags:b", "filteradd": "data:[1]",
    "merkleblock": "header:z total_transactions:L hashes:[#] flags:[1]", "alert": "payload:S signature:S",
}.items()}

INT_MAX = {"L": 0xffffffff, "Q": 0xffffffffffffffff, "1": 0xff, "6": 0xffffffffffff}
PAIR_KEYS = {"LA": ("time", "addr"), "zI": ("header", "txn_count"), "IT": ("index", "tx")}
# not every class exists for these: the proof fixes total/hashes/flags together, the alert payload is a structure
NO_CLASS_REQUIREMENT = {("merkleblock", "total_transactions"), ("merkleblock", "hashes"), ("merkleblock", "flags"), ("alert", "payload")}


def scalar_classes(t):
    """the classes required of a scalar of declared type t"""
    if t in ("L", "Q", "1"):
        return ["zero", "max"]
    if t == "6":
        return ["zero", "max", "above_2^32"]
    if t == "I":
        return ["csize_1byte", "csize_3byte", "csize_5byte", "csize_9byte"]
    if t == "b":
        return ["true", "false"]
    if t == "O":
        return ["true", "false", "absent"]
    if t == "S":
        return ["empty", "len_253_up"]
    if t == "A":
        return ["ipv4_mapped", "not_ipv4_mapped", "port_bytes_differ", "services_max", "constructor_4_bytes", "constructor_16_bytes"]
    if t == "T":
        return ["witness", "no_witness"]
    if t == "v":
        return ["checking_constructor", "dont_check_constructor"]
    if t == "B":
        return ["txs_253_up", "txs_below_253"]
    if t in ("z", "#"):
        return ["any"]
    raise RuntimeError("declared type %r has no value classes in C16: not monitored" % t)


def classify_scalar(pre, t, v, ev):
    if t in INT_MAX:
        if v == 0:
            ev(pre + "zero")
        elif v == INT_MAX[t]:
            ev(pre + "max")
        elif t == "6" and v >> 32:
            ev(pre + "above_2^32")
    elif t == "I":
        ev(pre + ("csize_1byte" if v < 253 else "csize_3byte" if v <= 0xffff else "csize_5byte" if v <= 0xffffffff else "csize_9byte"))
    elif t == "b" or t == "O":
        ev(pre + ("absent" if v is None else "true" if v else "false"))
    elif t == "S":
        ev(pre + ("empty" if not v else "len_253_up" if len(v) >= 253 else "other"))
    elif t == "A":
        ev(pre + ("ipv4_mapped" if v["ip"][:12] == IPV4_PREFIX else "not_ipv4_mapped"))
        if v["port"] >> 8 != v["port"] & 0xff:
            ev(pre + "port_bytes_differ")
        if v["services"] == INT_MAX["Q"]:
            ev(pre + "services_max")
        ev(pre + ("constructor_4_bytes" if addr_in_4_bytes(v) else "constructor_16_bytes"))
    elif t == "v":
        ev(pre + ("checking_constructor" if inv_checked(v) else "dont_check_constructor"))
    elif t == "T":
        ev(pre + ("witness" if any(i["witness"] for i in v["ins"]) else "no_witness"))
    elif t == "B":
        ev(pre + ("txs_253_up" if len(v["txs"]) >= 253 else "txs_below_253"))
    else:
        ev(pre + "any")


def classify(name, fields, ev):
    for k, t in VALUE_TYPES.get(name, {}).items():
        v = fields[k]
        pre = "class:%s.%s:" % (name, k)
        if t[0] != "[":
            classify_scalar(pre, t, v, ev)
            continue
        n = len(v)
        ev(pre + ("len0" if n == 0 else "len1" if n == 1 else "len_253_up" if n >= 253 else "len_2_252"))
        et = t[1:-1]
        for e in (v[:12] + v[-1:] if n > 12 else v):
            if len(et) == 1:
                classify_scalar(pre + "element:", et, e, ev)
            else:
                for c, key in zip(et, PAIR_KEYS[et]):
                    classify_scalar(pre + key + ":", c, e[key], ev)


def required_classes():
    req = []
    for name, types in VALUE_TYPES.items():
        for k, t in types.items():
            if (name, k) in NO_CLASS_REQUIREMENT:
                continue
            pre = "class:%s.%s:" % (name, k)
            if t[0] != "[":
                req += [pre + c for c in scalar_classes(t)]
                continue
            req += [pre + c for c in ("len0", "len1", "len_253_up")]
            et = t[1:-1]
            if len(et) == 1:
                req += [pre + "element:" + c for c in scalar_classes(et)]
            else:
                for c, key in zip(et, PAIR_KEYS[et]):
                    req += [pre + key + ":" + c for c in scalar_classes(c)]
    return req


# ------------------------------------------------------------------------------------------- judgement

def _pack(N, name, fields):
    return observe(lambda: N.message.pack(name, **{k: to_lib(N, v) for k, v in fields.items()}))


def _without_short_ids_ok(N, name, fields, op):
    """differential predicate for the 6-byte codec: the same message without short ids passes the same operation"""
    f2 = dict(fields, short_ids=[])
    want = P2P.encode(name, f2)
    if op == "pack":
        st, got = _pack(N, name, f2)
        return st == "ok" and got == want
    st, d = observe(N.message.parse, name, want)
    return st == "ok" and all(cmp_value(N, d.get(k), v) is None for k, v in f2.items())


def judge_pack_variant(N, name, kw, types, variant, want, case, rec):
    """the same argument objects once more, in the variant's spelling; names what the wrong answer depends on"""
    order, extra, containers = variant.get("order"), variant.get("extra"), variant.get("containers")
    if not (order or extra or containers):
        return
    def call(**how):
        # spelled anew from the caller's objects at each call (a call that damaged them shows up as a failing spelling)
        return observe(lambda: N.message.pack(name, **spell_kwargs(kw, types, **how)))
    def good(r):
        return r[0] == "ok" and r[1] == want
    rec.ev("pack_variant")
    for what, on in (("keyword_order", order), ("extra_keyword", extra), ("container_spelling", containers)):
        if on:
            rec.ev("pack_variant:" + what)
    if order:
        rec.ev("pack_variant:order_" + variant.get("order_kind", "other"))
    if containers:
        rec.ev("pack_variant:containers_" + containers)
    st, spelled = observe(spell_kwargs, kw, types, order=order, extra=extra, containers=containers)
    if st != "ok":
        # the caller's objects cannot be spelled any more (an earlier call damaged them): a failing spelling, named below
        r, spelled, before = (st, spelled), {}, {}
    else:
        before = {k: snapshot(v) for k, v in spelled.items()}
        r = observe(lambda: N.message.pack(name, **spelled))
    changed = sorted(k for k, v in spelled.items() if not unchanged(before[k], v))
    if changed:
        # the caller's own containers (list, bytearray) are not what they were before the call
        rec.violation("p2p.pack_modifies_argument.%s" % name, case, {"fields": changed}, "arguments unchanged")
        return
    if good(r):
        if len(want) <= 1024:
            rec.ev("pack_variant:same_objects_again")
            if not good(observe(lambda: N.message.pack(name, **spelled))):
                rec.violation("p2p.pack_not_repeatable.%s" % name, case, r[1], want)
        return
    if not good(call()):
        # the plain call that was right a moment ago (or was reported above) is wrong now
        rec.violation("p2p.pack_not_repeatable.%s" % name, case, r[1], want)
        return
    if order and not good(call(order=order)):
        rec.violation("p2p.pack_depends_on_keyword_order.%s" % name, case, r[1], want)
    elif containers and not good(call(containers=containers)):
        rec.violation("p2p.pack_depends_on_container_spelling.%s.%s" % (containers, name), case, r[1], want)
    elif extra and not good(call(extra=extra)):
        if call(extra=extra)[0] != "ok":
            rec.ev("pack_rejects_undeclared_keyword")        # not judged: the statement does not say they are accepted
        else:
            rec.violation("p2p.pack_disturbed_by_undeclared_keyword.%s" % name, case, r[1], want)
    elif r[0] != "ok" and extra and good(call(order=order, containers=containers)):
        rec.ev("pack_rejects_undeclared_keyword")
    else:
        rec.violation("p2p.pack_depends_on_call_spelling.%s" % name, case, r[1], want)


def judge(net, name, fields, rec, sample=False, variant=None):
    N = _net(net)
    variant = variant or {}
    case = {"net": net, "name": name, "fields": fields}
    if variant:
        case["variant"] = variant
    types = types_of(name)
    want = P2P.encode(name, fields)
    if P2P.decode(name, want) != P2P.normalise(name, fields):
        raise RuntimeError("reference encoder/decoder disagree on %s (oracle error)" % name)
    rec.case((net, name, want, fields.get("relay", 0)), nontrivial=bool(fields))
    rec.ev("pack")
    rec.ev("pack:" + name)
    classify(name, fields, rec.ev)
    kw = {k: to_lib(N, v) for k, v in fields.items()}
    st, got = observe(lambda: N.message.pack(name, **kw))
    int6 = name == "cmpctblock" and len(fields.get("short_ids", ())) > 0
    if st != "ok":
        if int6 and _without_short_ids_ok(N, name, fields, "pack"):
            rec.violation("p2p.int6.codec_raises", case, got, want)
        else:
            rec.violation("p2p.pack_raises.%s" % name, case, got, want)
    elif got != want:
        if int6 and _without_short_ids_ok(N, name, fields, "pack"):
            rec.violation("p2p.int6.wrong_bytes", case, got, want)
        else:
            rec.violation("p2p.pack_bytes_mismatch.%s" % name, case, got, want)
    elif variant:
        judge_pack_variant(N, name, kw, types, variant, want, case, rec)
        if variant.get("types"):
            judge_value_types(N, name, fields, kw, variant["types"], want, case, rec)
    rec.ev("parse")
    rec.ev("parse:" + name)
    how = variant.get("data", "bytes")
    data, scribble = spell_data(want, how)
    st, d = observe(N.message.parse, name, data)
    if scribble:
        # the caller's buffer is its own again.  The statement speaks of bytes (immutable): a result that was right when it
        # was returned and follows the caller's later writes to a bytearray is recorded, not reported
        if st == "ok" and isinstance(d, dict) and not parse_mismatches(N, name, d, fields):
            scribble()
            if parse_mismatches(N, name, d, fields):
                rec.ev("parse_result_follows_caller_buffer:" + how)
                rec.note("parse(%s) returns values that change when the caller overwrites its buffer afterwards (not judged)" % how)
                st, d = observe(N.message.parse, name, want)
        else:
            scribble()
    if how != "bytes":
        rec.ev("parse_input:" + how)
        if st != "ok" and how != "subclass":
            st2, d2 = observe(N.message.parse, name, want)
            if st2 == "ok":
                rec.ev("parse_rejects_input:" + how)      # not judged: the statement speaks of bytes
                st, d, how = st2, d2, "bytes"
        elif st == "ok" and isinstance(d, dict) and parse_mismatches(N, name, d, fields):
            st2, d2 = observe(N.message.parse, name, want)
            if st2 == "ok" and isinstance(d2, dict) and not parse_mismatches(N, name, d2, fields):
                rec.violation("p2p.parse_depends_on_input_spelling.%s.%s" % (how, name), case, parse_mismatches(N, name, d, fields), fields)
                st, d, how = st2, d2, "bytes"
    if st != "ok":
        if int6 and _without_short_ids_ok(N, name, fields, "parse"):
            rec.violation("p2p.int6.codec_raises", case, d, fields)
        else:
            rec.violation("p2p.parse_raises.%s" % name, case, d, fields)
        return
    if not isinstance(d, dict):
        rec.violation("p2p.parse_not_a_dict.%s" % name, case, d, fields)
        return
    bad = parse_mismatches(N, name, d, fields)
    if "relay" in fields:
        rec.ev("relay:" + {True: "true", False: "false", None: "absent"}[fields["relay"]])
    for k, why in bad:
        if name == "version" and k == "relay" and fields["relay"] is False and d.get("relay") is True and len(bad) == 1:
            rec.violation("p2p.optional_bool.false_parsed_as_true", case, d.get("relay"), False)
        elif int6 and k == "short_ids":
            rec.violation("p2p.int6.wrong_values", case, d.get(k), fields[k])
        else:
            rec.violation("p2p.parse_field_mismatch.%s.%s" % (name, k), case, {"why": why, "got": d.get(k)}, fields[k])
    if name == "alert" and not bad:
        info = d.get("alert_info")
        ref = P2P.dec_alert_payload(fields["payload"])
        if not isinstance(info, dict) or any(cmp_value(N, info.get(k), v) for k, v in ref.items()):
            rec.note("alert_info (derived, not a packed field) differs from the reference decoding of the payload")
        else:
            rec.ev("alert_info_agrees")
    if variant.get("repack") and not bad:
        # the other direction of the round trip: what parse returned (all of it, as returned) goes back through pack
        rec.ev("repack_of_parsed")
        rec.ev("repack_of_parsed:" + variant["repack"])
        if set(d) - set(fields):
            rec.ev("repack_of_parsed:with_keys_added_by_parse")
        added = [k for k in d if k not in fields]
        a = repack_kwargs(d, fields, variant["repack"], variant.get("repack_seed", 0))
        st, got = observe(lambda: N.message.pack(name, **a))
        if st != "ok" and added:
            # pack refuses the keys parse added itself (tx_hashes, alert_info): the statement does not say it takes them.
            # Counted; the declared keys alone, in the same order, are packed instead
            rec.ev("repack_of_parsed:keys_added_by_parse_refused")
            a = {k: v for k, v in a.items() if k in fields}
            st, got = observe(lambda: N.message.pack(name, **a))
        if st != "ok":
            rec.ev("repack_of_parsed:refused")               # a refusal is not a wrong answer: not judged
        else:
            rec.ev("repack_of_parsed:returned")
            if got != want:
                a = repack_kwargs({k: d[k] for k in fields}, fields, "parsed")
                st2, got2 = observe(lambda: N.message.pack(name, **a))
                if st2 == "ok" and got2 == want:
                    rec.violation("p2p.repack_of_parsed.depends_on_keys_or_order.%s" % name, case, got, want)
                else:
                    rec.violation("p2p.repack_of_parsed.bytes_mismatch.%s" % name, case, got, want)
    if sample:
        rec.sample({"op": "pack/parse", "net": net, "name": name, "bytes": want[:120], "n_bytes": len(want)})


def parse_mismatches(N, name, d, fields):
    if not isinstance(d, dict):
        return [("*", "not a dict")]
    bad = []
    for k, v in fields.items():
        if k not in d:
            bad.append((k, "missing"))
            continue
        r = cmp_value(N, d[k], v)
        if r:
            bad.append((k, r))
    return bad


# ------------------------------------------------------------------------------------------- histories
#
# One history = a sequence of calls on ONE network's pack/parse in which library objects live on between the calls:
# objects handed to pack (or returned by parse) are read, changed in place through the mutators the library defines or
# uses itself, put into other messages, packed again; argument lists owned by the caller are edited between packs; calls
# with invalid values (which may fail half-way) and parses of damaged bytes are interleaved.  Only calls with valid
# values are judged, each against the reference encoding of the field values the objects have AT THAT MOMENT.

HISTORY_NAMES = (["headers"] * 5 + ["block"] * 3 + ["merkleblock"] * 2 + ["tx"] * 3 + ["blocktxn"] * 2 + ["cmpctblock"] * 2 +
                 ["addr"] * 3 + ["version"] * 2 + ["inv", "getdata", "notfound", "getblocks", "getheaders", "getblocktxn",
                                                   "filterload", "filteradd", "reject", "ping", "pong", "feefilter", "sendcmpct",
                                                   "alert", "verack"])
NO_LIST_EDIT = {"merkleblock"}          # the proof ties hashes/flags/total together


def refusal_kind(v, w):
    """class of an invalid value w put in the place of the valid v (how a pack call comes to be refused part-way)"""
    if w is None:
        return "none"
    if isinstance(w, str):
        return "str_for_bytes" if isinstance(v, bytes) else "str_for_scalar"
    if isinstance(w, float):
        return "float"
    if isinstance(w, bool) or isinstance(w, int):
        return "int_negative" if w < 0 else "int_for_other_type" if not isinstance(v, int) or isinstance(v, bool) else "int_too_large"
    if isinstance(w, bytes):
        return "bytes_for_object"
    if type(w) is object:
        return "foreign_object"
    if type(w) is type(v):
        return "object_with_field_out_of_range"
    return "object_of_other_network"


REFUSED_PACK_KINDS = ("unknown_message_name", "missing_keyword", "missing_keyword_optional_relay", "none@later_field",
                      "str_for_bytes@later_field", "str_for_scalar@later_field", "float@later_field",
                      "int_negative@later_field", "int_too_large@later_field", "int_too_large",
                      "object_with_field_out_of_range@later_field", "object_of_other_network@later_field",
                      "bytes_for_object", "foreign_object@later_field")


class History:
    def __init__(self, net, rng, rec, ident):
        self.net, self.N, self.rng, self.rec, self.ident = net, _net(net), rng, rec, ident
        self.other = _net("LTC" if net == "BTC" else "BTC")
        self.live = {}                  # id(reference dict) -> library object
        self.keep = []                  # keeps every reference dict alive (ids stay unique)
        self.pool = {k: [] for k in OBJECT_KINDS}
        self.frozen = set()             # ids of tx dicts inside blocks (changing them would break the block's root)
        self.pending = {}               # id(header dict) -> tx dicts that hash to its root, not yet attached
        self.dirty = {}                 # id(reference dict) -> name of the last mutator applied
        self.msgs = []                  # [name, fields (reference), kwargs (library values, caller-owned containers)]
        self.snaps = []                 # (name, bytes, field values at that time) of successful parses
        self.trace = []
        self.after = "start"            # class of the step before the next judged call
        self.last_failed = None         # class of the most recent unjudged call that raised
        self.failed_pack_seen = None    # "failed_pack" once an unjudged pack raised in this history
        self.buf = bytearray()          # the caller's receive buffer: payloads are copied in and parsed from it, again and again

    # ---- bookkeeping
    def register(self, m, obj, kind, frozen=False):
        self.live[id(m)] = obj
        self.keep.append(m)
        if frozen:
            self.frozen.add(id(m))
        if len(self.pool[kind]) < 24 and not any(x is m for x in self.pool[kind]):
            self.pool[kind].append(m)

    def collect(self, v, inside_block=False):
        """enter the object-shaped reference dicts of a value (already converted with self.live) into the pools"""
        if isinstance(v, list):
            for x in v:
                self.collect(x, inside_block)
        elif isinstance(v, dict):
            kind = kind_of(v)
            if kind in ("addr", "inv", "header"):
                self.register(v, self.live[id(v)], kind)
            elif kind == "tx":
                self.register(v, self.live[id(v)], "tx", frozen=inside_block)
            elif kind == "block":
                self.register(v, self.live[id(v)], "block")
                self.register(v["header"], self.live[id(v)], "header")
                self.collect(v["txs"], True)
            elif kind:
                for x in v.values():
                    self.collect(x, inside_block)

    def adopt(self, m, g):
        """parallel walk of a reference value and the value parse returned: the returned objects stand for the dicts"""
        if isinstance(m, list):
            for a, b in zip(m, g):
                self.adopt(a, b)
        elif isinstance(m, dict):
            kind = kind_of(m)
            if kind in ("addr", "inv", "tx", "header"):
                self.register(m, g, kind)
            elif kind == "block":
                self.register(m, g, "block")
                self.register(m["header"], g, "header")
                for t, gt in zip(m["txs"], g.txs):
                    self.register(t, gt, "tx", frozen=True)
            elif kind:
                a, b = kind[5:].split(",")
                self.adopt(m[a], g[0])
                self.adopt(m[b], g[1])

    def objects_in(self, v, out):
        if isinstance(v, list):
            for x in v:
                self.objects_in(x, out)
        elif isinstance(v, dict):
            if kind_of(v) in OBJECT_KINDS:
                out.append(v)
            for x in v.values():
                self.objects_in(x, out)
        return out

    # ---- building messages
    def subst(self, v, p):
        """replace object-shaped values by objects already alive in this history"""
        rng = self.rng
        if isinstance(v, list):
            return [self.subst(x, p) for x in v]
        if isinstance(v, dict):
            kind = kind_of(v)
            if kind in OBJECT_KINDS:
                if self.pool[kind] and rng.random() < p:
                    return rng.choice(self.pool[kind])
                return v
            if kind:
                return {k: self.subst(x, p) for k, x in v.items()}
        return v

    def new_fields(self, name, reuse=0.55):
        rng = self.rng
        fields = GENERATORS[name](rng, 20 + rng.randrange(1000))
        if name == "headers" and rng.random() < 0.5:
            # a header whose transactions arrive later (Block.set_txs): root consistent with them
            header, txs = G.rand_block(rng, rng.choice([1, 2, 3, 5]))
            self.keep.append(header)
            self.pending[id(header)] = txs
            fields["headers"].insert(rng.randrange(len(fields["headers"]) + 1), {"header": header, "txn_count": rng.choice([0, len(txs)])})
        if name != "merkleblock":
            fields = {k: self.subst(v, reuse) for k, v in fields.items()}
            if name == "headers" and fields["headers"] and rng.random() < 0.3:
                fields["headers"].append(rng.choice(fields["headers"]))      # the same object twice in one array
        self.keep.append(fields)
        return fields

    def spell(self, fields, kw):
        """the caller's keyword dict in the order (and with the undeclared keys) this caller happens to build it"""
        rng = self.rng
        keys = list(kw)
        if len(keys) >= 2 and rng.random() < 0.7:
            keys = reorder_keys(keys, rng.choice(ORDER_KINDS), rng)
        out = {k: kw[k] for k in keys}
        if rng.random() < 0.12:
            x = rng.choice(EXTRA_KEYS)
            if x not in out:
                items = list(out.items())
                items.insert(rng.randrange(len(items) + 1), (x, rng.choice([None, 0, b"", "x", 7])))
                out = dict(items)
        return out

    def add_message(self, name, fields, kw=None):
        self.keep.append(fields)
        if kw is None:
            kw = {k: to_lib(self.N, v, self.live) for k, v in fields.items()}
            self.collect(list(fields.values()))
        self.msgs.append([name, fields, self.spell(fields, kw)])
        if len(self.msgs) > 6:
            self.msgs.pop(self.rng.randrange(3))
        return self.msgs[-1]

    # ---- judged calls
    def case_dict(self):
        return {"history": self.ident, "trace": list(self.trace)}

    def mutators_of(self, fields):
        return sorted({self.dirty[id(o)] for o in self.objects_in(list(fields.values()), []) if id(o) in self.dirty})

    def check(self, msg, what):
        """pack the message's (caller-owned) arguments, parse the reference bytes; judged against the objects' current values"""
        name, fields, kw = msg
        N, rec = self.N, self.rec
        want = P2P.encode(name, fields)
        if P2P.decode(name, want) != P2P.normalise(name, fields):
            raise RuntimeError("reference encoder/decoder disagree on %s (oracle error, history)" % name)
        self.trace.append("%s:%s" % (what, name))
        rec.case(("history", self.net, name, want, self.after, what), nontrivial=True)
        rec.ev("history.pack")
        rec.ev("history.pack_after:" + self.after)
        declared = [k for k in fields if k in kw]
        in_declared_order = [k for k in kw if k in fields] == declared
        undeclared = [k for k in kw if k not in fields]
        rec.ev("history.pack_keywords:" + ("declared_order" if in_declared_order else "other_order"))
        if undeclared:
            rec.ev("history.pack_keywords:with_undeclared_keys")
        st, got = observe(lambda: N.message.pack(name, **kw))
        if st != "ok" or got != want:
            st2, got2 = observe(lambda: N.message.pack(name, **kw))
            if st2 == "ok" and got2 == want:
                mech = "p2p.history.pack_wrong_once.after_%s" % (self.failed_pack_seen or self.last_failed or self.after)   # state left by an earlier call
            else:
                def good(r):
                    return r[0] == "ok" and r[1] == want
                # keys parse itself adds to its result belong to the round trip; keys this caller made up do not
                made_up = [k for k in undeclared if (name, k) not in (("merkleblock", "tx_hashes"), ("alert", "alert_info"))]
                plain = {k: kw[k] for k in declared}
                r4 = observe(lambda: N.message.pack(name, **plain)) if (undeclared or not in_declared_order) else (None, None)
                st3, got3 = _pack(N, name, fields)
                if good(r4):
                    # the same objects, spelled in the declared order without further keys, give the right bytes
                    r5 = observe(lambda: N.message.pack(name, **{k: kw[k] for k in kw if k not in made_up})) if made_up else (None, None)
                    # the caller's own key order with the declared keys only
                    r6 = observe(lambda: N.message.pack(name, **{k: kw[k] for k in kw if k in fields})) if undeclared else (None, None)
                    if good(observe(lambda: N.message.pack(name, **kw))):
                        # ... and now the caller's own spelling is right as well: the answer follows the calls made before it
                        mech = "p2p.history.pack_depends_on_preceding_calls.%s.after_%s" % (name, "+".join(self.mutators_of(fields)) or self.after)
                    elif st != "ok" and (good(r5) or good(r6)):
                        # keys the message does not declare (made up by the caller, or added by parse to its result) are
                        # refused; without them the same spelling is right.  A refusal is not a wrong answer: not judged
                        mech = None
                        rec.ev("history.pack_rejects_undeclared_keyword" if good(r5) else "history.pack_rejects_keys_added_by_parse")
                    elif good(r5):
                        mech = "p2p.history.pack_disturbed_by_undeclared_keyword.%s" % name
                    elif in_declared_order or good(r6):
                        mech = "p2p.history.pack_disturbed_by_keys_added_by_parse.%s" % name
                    else:
                        mech = "p2p.history.pack_depends_on_keyword_order.%s" % name
                elif st3 == "ok" and got3 == want:
                    mech = "p2p.history.pack_stale_object.%s.after_%s" % (name, "+".join(self.mutators_of(fields)) or self.after)
                else:
                    mech = "p2p.history.pack_wrong.%s.after_%s" % (name, self.after)
            if mech:
                rec.violation(mech, self.case_dict(), got, want)
        rec.ev("history.parse")
        st, d, bad, how = self.parse_spelled(name, want, fields)
        if st != "ok" or bad:
            same_again_ok = True
            if how != "bytes":
                st3, d3, bad3, _ = self.parse_spelled(name, want, fields, how)       # the same spelling once more
                same_again_ok = st3 == "ok" and not bad3
            st2, d2 = observe(N.message.parse, name, want)
            again_ok = st2 == "ok" and not parse_mismatches(N, name, d2, fields)
            kind = "wrong_once" if (again_ok and same_again_ok) else ("raises" if st != "ok" else "field_mismatch")
            if again_ok and not same_again_ok:
                kind = "depends_on_input_spelling.%s" % how
            mech = "p2p.history.parse_%s.%s.after_%s" % (kind, name, self.after)
            rec.violation(mech, self.case_dict(), d if st != "ok" else bad, fields)
            d = None
        self.after = "valid_call"
        return want, d

    HOW_DATA = ["bytes"] * 10 + ["subclass"] * 2 + ["bytearray"] * 2 + ["memoryview", "bytearray_view"] + ["buffer"] * 3 + ["buffer_view"]

    def parse_spelled(self, name, want, fields, how=None):
        """parse of the payload in one of the spellings a caller may hold it in -> (status, dict, mismatches, spelling judged)"""
        N, rec = self.N, self.rec
        how = how or self.rng.choice(self.HOW_DATA)
        data, scribble = spell_data(want, how, self.buf)
        if how in ("buffer", "buffer_view") and (data.obj if how == "buffer_view" else data) is not self.buf:
            self.buf = data.obj if how == "buffer_view" else data
            rec.ev("history.receive_buffer_view_retained")
        st, d = observe(N.message.parse, name, data)
        bad = parse_mismatches(N, name, d, fields) if st == "ok" else None          # judged as returned
        if scribble:
            scribble()
            if st == "ok" and not bad and parse_mismatches(N, name, d, fields):
                rec.ev("history.parse_result_follows_caller_buffer:" + how)           # not judged (see judge)
                st, d = observe(N.message.parse, name, want)
                bad = parse_mismatches(N, name, d, fields) if st == "ok" else None
        rec.ev("history.parse_input:" + how)
        if st != "ok" and how not in ("bytes", "subclass"):
            st2, d2 = observe(N.message.parse, name, want)
            if st2 == "ok":
                rec.ev("history.parse_rejects_input:" + how)          # not judged: the statement speaks of bytes
                st, d, how = st2, d2, "bytes"
                bad = parse_mismatches(N, name, d, fields)
        return st, d, bad, how

    # ---- steps
    def step_new(self, name=None):
        name = name or self.rng.choice(HISTORY_NAMES)
        msg = self.add_message(name, self.new_fields(name))
        self.rec.ev("history.step:new_message")
        return self.check(msg, "new")

    def step_repack(self, msg=None, what="repack"):
        if not self.msgs:
            return self.step_new()
        self.rec.ev("history.step:" + what)
        return self.check(msg or self.rng.choice(self.msgs), what)

    def observers(self, m, kind):
        o, rng = self.live[id(m)], self.rng
        import io
        if kind in ("header", "block"):
            calls = [o.hash, o.id, o.as_bin, o.as_hex, lambda: str(o), o.as_blockheader, lambda: o.stream_header(io.BytesIO()),
                     lambda: o.stream(io.BytesIO()), o.previous_block_id, o.check_merkle_hash]
        elif kind == "tx":
            calls = [o.hash, o.id, o.w_hash, o.w_id, o.as_bin, o.as_hex, lambda: o.as_bin(include_witness_data=False), o.blanked_hash,
                     lambda: str(o), o.has_witness_data, o.total_out, o.is_coinbase, lambda: o.hash(hash_type=1),
                     lambda: o.stream(io.BytesIO())]
        elif kind == "addr":
            calls = [o.host, lambda: repr(o), lambda: o == o, lambda: o.stream(io.BytesIO())]
        else:
            calls = [lambda: str(o), lambda: hash(o), lambda: o == o, lambda: o.stream(io.BytesIO())]
        for _ in range(rng.choice([1, 1, 2, 3])):
            observe(rng.choice(calls))
            self.rec.ev("history.read_only_call")

    def pick_object(self, kinds, frozen_too=False):
        cands = [(k, m) for k in kinds for m in self.pool[k] if frozen_too or not (k == "tx" and id(m) in self.frozen)]
        return self.rng.choice(cands) if cands else (None, None)

    def step_observe(self):
        kind, m = self.pick_object(OBJECT_KINDS, frozen_too=True)
        if m is None:
            return
        self.observers(m, kind)
        self.trace.append("read:" + kind)
        self.rec.ev("history.step:read_only_calls")

    def step_mutate(self):
        """pack-or-read, then change in place, then pack again"""
        rng, rec = self.rng, self.rec
        kind, m = self.pick_object(("header", "header", "tx"))
        if m is None:
            return self.step_new(rng.choice(["headers", "tx", "block"]))
        o = self.live[id(m)]
        if rng.random() < 0.6:
            self.observers(m, kind)
        if kind == "header":
            if id(m) in self.pending and rng.random() < 0.6:
                txs = self.pending.pop(id(m))
                o.set_txs([to_lib(self.N, t, self.live) for t in txs])
                blk = {"header": m, "txs": txs}
                self.register(blk, o, "block")
                for t in txs:
                    self.keep.append(t)
                    self.register(t, self.live[id(t)], "tx", frozen=True)
                how = "set_txs"
                self.dirty[id(blk)] = how
            else:
                m["nonce"] = u32(rng, rng.randrange(20))
                o.set_nonce(m["nonce"])
                how = "set_nonce"
        else:
            r = rng.randrange(4)
            if r == 0:
                i = rng.randrange(len(m["ins"]))
                w = [G.rbytes(rng, rng.choice([0, 1, 33, 72])) for _ in range(rng.choice([0, 1, 2, 3]))]
                m["ins"][i]["witness"] = w
                o.set_witness(i, list(w))
                how = "set_witness"
            elif r == 1:
                i = rng.randrange(len(m["ins"]))
                m["ins"][i]["script"] = G.rand_script(rng)
                o.txs_in[i].script = m["ins"][i]["script"]
                how = "txin_script"
            elif r == 2:
                i = rng.randrange(len(m["ins"]))
                m["ins"][i]["sequence"] = u32(rng, rng.randrange(20))
                o.txs_in[i].sequence = m["ins"][i]["sequence"]
                how = "txin_sequence"
            else:
                i = rng.randrange(len(m["outs"]))
                m["outs"][i]["value"] = u64(rng, rng.randrange(20))
                o.txs_out[i].coin_value = m["outs"][i]["value"]
                how = "txout_coin_value"
        self.dirty[id(m)] = how
        self.after = how
        self.trace.append(how)
        rec.ev("history.step:mutate")
        rec.ev("history.mutate:" + how)
        # the messages that carry the object are sent again; else it goes into a new one
        holders = [x for x in self.msgs if any(y is m for y in self.objects_in(list(x[1].values()), []))]
        if how == "set_txs":
            if holders:
                self.check(rng.choice(holders), "after_" + how)       # as a header it is still 80 bytes
                self.after = how
            msg = self.add_message("block", {"block": blk})
            return self.check(msg, "after_" + how)
        if holders and rng.random() < 0.8:
            return self.check(rng.choice(holders), "after_" + how)
        if kind == "header":
            blocks = [b for b in self.pool["block"] if b["header"] is m]
            if blocks and rng.random() < 0.5:
                msg = self.add_message("block", {"block": blocks[0]})
            else:
                msg = self.add_message("headers", {"headers": [{"header": m, "txn_count": rng.choice([0, 1, 253])}]})
        else:
            msg = self.add_message(*rng.choice([("tx", {"tx": m}), ("blocktxn", {"header_hash": G.rand_hash(rng), "txs": [m, m]})]))
        return self.check(msg, "after_" + how)

    def step_list_edit(self):
        rng = self.rng
        cands = [(x, k) for x in self.msgs if x[0] not in NO_LIST_EDIT for k, v in x[1].items()
                 if isinstance(v, list) and isinstance(x[2][k], list) and len(v) == len(x[2][k])]
        if not cands:
            return self.step_new(rng.choice(["headers", "inv", "addr", "getblocks"]))
        msg, k = rng.choice(cands)
        ref, lib = msg[1][k], msg[2][k]
        if not ref:
            return self.step_new()
        op = rng.choice(["pop", "dup", "dup", "reverse", "clear"])
        if op == "pop":
            i = rng.randrange(len(ref))
            ref.pop(i), lib.pop(i)
        elif op == "dup":
            i = rng.randrange(len(ref))
            ref.append(ref[i]), lib.append(lib[i])
        elif op == "reverse":
            ref.reverse(), lib.reverse()
        elif op == "clear":
            del ref[:], lib[:]
        self.after = "list_edit"
        self.trace.append("list_%s" % op)
        self.rec.ev("history.step:argument_list_edit")
        return self.check(msg, "after_list_edit")

    def corrupt(self, v, N=None):
        """a value of the same place that the field type cannot carry (biased to late positions of arrays)"""
        w = self.corrupt_value(v, N)
        if not isinstance(v, (list, tuple)) or not isinstance(w, (list, tuple)):
            self.corrupt_kind = refusal_kind(v, w)
        return w

    def corrupt_value(self, v, N=None):
        rng, N = self.rng, N or self.N
        other = self.other if N is self.N else self.N
        from pycoin.message.PeerAddress import PeerAddress
        from pycoin.message.InvItem import InvItem
        if isinstance(v, bool) or v is None:
            return rng.choice(["x", object()])
        if isinstance(v, int):
            return rng.choice([-1, -5, 1 << 64, 1 << 32, 1 << 48, 256, None, "7", 1.5])
        if isinstance(v, bytes):
            return rng.choice([None, 7, v.decode("latin1")])
        if isinstance(v, (list, tuple)):
            if not v or rng.random() < 0.1:
                return rng.choice([None, 5])
            i = max(rng.randrange(len(v)), rng.randrange(len(v)))
            w = list(v)
            w[i] = self.corrupt(v[i], N)
            if isinstance(v, tuple):
                return tuple(w) if rng.random() < 0.8 else rng.choice([tuple(v[:1]), tuple(v) + (0,)])
            return w
        if isinstance(v, PeerAddress):
            r = rng.randrange(4)
            return [PeerAddress(v.services, v.ip_bin, rng.choice([70000, 65536, -1])), PeerAddress(1 << 64, v.ip_bin, v.port),
                    PeerAddress(-1, v.ip_bin, v.port), None][r]
        if isinstance(v, InvItem):
            return rng.choice([InvItem(1 << 32, v.data, dont_check=True), InvItem(-1, v.data, dont_check=True), None, v.data])
        if isinstance(v, N.tx):
            r = rng.randrange(5)
            if r == 0:
                return N.tx(v.version, v.txs_in, list(v.txs_out[:-1]) + [N.tx.TxOut(1 << 64, b"\x51")], v.lock_time)
            if r == 1:
                return N.tx(v.version, v.txs_in, v.txs_out, rng.choice([-1, 1 << 32]))
            if r == 2:
                return N.tx(v.version, list(v.txs_in[:-1]) + [N.tx.TxIn(b"\0" * 32, 0, b"", 1 << 32)], v.txs_out, v.lock_time)
            if r == 3:
                return mk_tx(other, G.rand_tx(rng, small=True))                       # the other network's class
            return None
        if isinstance(v, N.block):
            r = rng.randrange(4)
            a = [v.version, v.previous_block_hash, v.merkle_root, v.timestamp, v.difficulty, v.nonce]
            if r < 3:
                a[[0, 3, 5][r]] = rng.choice([-1, 1 << 32])
                b = N.block(*a)
                b.txs = list(v.txs)
                return b
            return None
        return None

    def step_failed_pack(self):
        """a pack call with an invalid value (not judged), then a judged call: half of the time the corrected same message"""
        rng, N = self.rng, self.N
        if rng.random() < 0.12:
            # the failing call happens on the other network's packer (state shared by all networks would carry over)
            name = rng.choice(HISTORY_NAMES)
            kw = {k: to_lib(self.other, v) for k, v in GENERATORS[name](rng, 20 + rng.randrange(1000)).items()}
            keys = list(kw)
            if keys:
                k = keys[max(rng.randrange(len(keys)), rng.randrange(len(keys)))]
                kw[k] = self.corrupt(kw[k], self.other)
            st, got = observe(lambda: self.other.message.pack(name, **kw))
            self.rec.ev("history.step:pack_with_invalid_value_on_other_network")
            self.after = "failed_pack_other_network" if st != "ok" else "invalid_pack_returned"
            if st != "ok":
                self.last_failed = self.failed_pack_seen = "failed_pack"
            self.trace.append("bad_pack_other_net:%s" % name)
            return self.step_repack() if rng.random() < 0.6 else self.step_new()
        if self.msgs and rng.random() < 0.4:
            name, fields, kw = rng.choice(self.msgs)
            kw = dict(kw)
            own = True
        else:
            name = rng.choice(HISTORY_NAMES)
            fields = self.new_fields(name)
            kw = {k: to_lib(N, v, self.live) for k, v in fields.items()}
            own = False
        keys = [k for k in kw if k in fields]
        r = rng.random()
        if not keys or r < 0.05:
            bad_name, bad_kw = "no_such_message", kw
        elif r < 0.12:
            # a missing keyword: the last one the caller wrote or the last one declared (the optional `relay` of version)
            declared = [k for k in types_of(name) if k in kw]
            gone = rng.choice([keys[-1], declared[-1]])
            bad_name, bad_kw = name, {k: v for k, v in kw.items() if k != gone}
            what = "missing_keyword" + ("_optional_relay" if gone == "relay" else "_first_declared" if gone == declared[0] else "")
        else:
            k = keys[max(rng.randrange(len(keys)), rng.randrange(len(keys)))]
            bad_name, bad_kw = name, dict(kw, **{k: self.corrupt(kw[k])})
            what = self.corrupt_kind + ("" if k == list(types_of(name))[0] else "@later_field")
        if bad_name != name:
            what = "unknown_message_name"
        st, got = observe(lambda: N.message.pack(bad_name, **bad_kw))
        self.rec.ev("history.step:pack_with_invalid_value")
        self.rec.ev("history.invalid_pack_%s" % ("raised" if st != "ok" else "returned"))
        if st != "ok":
            self.rec.ev("history.refused_pack:" + what)
        self.after = "failed_pack" if st != "ok" else "invalid_pack_returned"
        if st != "ok":
            self.last_failed = self.failed_pack_seen = "failed_pack"
        self.trace.append("bad_pack:%s" % bad_name)
        if rng.random() < 0.5:
            if own:
                return self.step_repack([m for m in self.msgs if m[1] is fields][0], "corrected")
            return self.check(self.add_message(name, fields), "corrected")
        if rng.random() < 0.5:
            return self.step_repack()
        return self.step_new()

    def step_failed_parse(self):
        rng, N = self.rng, self.N
        name = rng.choice(HISTORY_NAMES)
        data = P2P.encode(name, GENERATORS[name](rng, 20 + rng.randrange(1000)))
        # only damage that keeps every array count the one of a real message: cut-off bytes, nothing, an unknown name,
        # trailing bytes (a count read from arbitrary bytes can be 2^64 and short reads of hashes do not raise: not
        # something this property speaks about, and not something a bounded run can wait for)
        r = rng.random()
        if r < 0.7 and data:
            data = data[:rng.randrange(len(data))]
        elif r < 0.8:
            data = b""
        elif r < 0.9:
            name = "no_such_message"
        else:
            data = data + G.rbytes(rng, 3)
        st, _ = observe(N.message.parse, name, data)
        self.rec.ev("history.step:parse_of_damaged_bytes")
        self.rec.ev("history.damaged_parse_%s" % ("raised" if st != "ok" else "returned"))
        self.after = "failed_parse" if st != "ok" else "damaged_parse_returned"
        if st != "ok":
            self.last_failed = "failed_parse"
        self.trace.append("bad_parse:%s" % name)
        return self.step_repack() if rng.random() < 0.6 else self.step_new()

    def step_adopt(self):
        """send on what parse returned: the returned objects and containers become the arguments of a new message"""
        if not self.msgs:
            return self.step_new()
        name, fields, kw = self.rng.choice(self.msgs)
        want, d = self.check([name, fields, kw], "before_adopt")
        if d is None:
            return
        model = P2P.decode(name, want)
        self.keep.append(model)
        for k in model:
            self.adopt(model[k], d[k])
        kw2 = {k: (d[k] if k != "relay" else model[k]) for k in d}            # all of it: also the keys parse added
        self.snaps.append((name, want, P2P.decode(name, want)))
        msg = self.add_message(name, model, kw2)
        self.after = "adopt_parsed"
        self.trace.append("adopt:" + name)
        self.rec.ev("history.step:adopt_parsed_objects")
        return self.check(msg, "adopted")

    def step_reparse(self):
        """bytes parsed earlier are parsed again after the objects returned then were changed / their lists edited"""
        if not self.snaps:
            return self.step_adopt()
        name, data, fields = self.rng.choice(self.snaps)
        N, rec = self.N, self.rec
        self.trace.append("reparse:" + name)
        rec.ev("history.step:parse_same_bytes_again")
        rec.ev("history.parse")
        if self.rng.random() < 0.7:
            st, d = observe(N.message.parse, name, data)                     # the very same bytes object
            bad = parse_mismatches(N, name, d, fields) if st == "ok" else None
        else:
            st, d, bad, _ = self.parse_spelled(name, data, fields)
        if st != "ok" or bad:
            rec.violation("p2p.history.parse_same_bytes_differs.%s" % name, self.case_dict(), d if st != "ok" else bad, fields)

    def run(self):
        rng = self.rng
        self.step_new()
        steps = [(self.step_mutate, 24), (self.step_failed_pack, 18), (self.step_new, 12), (self.step_list_edit, 10),
                 (self.step_observe, 8), (self.step_adopt, 9), (self.step_failed_parse, 7), (self.step_repack, 7), (self.step_reparse, 5)]
        fns = [f for f, w in steps for _ in range(w)]
        for _ in range(rng.randrange(4, 11)):
            rng.choice(fns)()
        self.step_repack(what="final")


def run_history(ident, rec):
    """ident = {"seed", "tier", "shard", "h"}: everything else follows from the rng"""
    rng = shard_rng(ident["seed"], PROPERTY, ident["tier"], ident["shard"], salt="history:%d" % ident["h"])
    net = "LTC" if rng.random() < 0.35 else "BTC"
    rec.ev("history")
    h = History(net, rng, rec, dict(ident))
    h.run()
    return h


# ------------------------------------------------------------------------------------------- length boundaries
#
# Every string length and array count is a compact size: the lengths next to its width changes that the value sets above
# reach only by chance (254, 255, 256 - the prefix bytes 0xfe / 0xff themselves as lengths) or not at all (65535 / 65536)
# are driven once per run for every string and array field.  Elements of long arrays cycle through 64 generated ones.

LENGTH_EDGE = (254, 255, 256, 65535, 65536)
LENGTH_FIELDS = [(name, k) for name, types in VALUE_TYPES.items() for k, t in types.items()
                 if (t in ("S", "B") or t[0] == "[") and name != "merkleblock"]
# arrays of transactions at 2^16: one of these per quick run (chosen by the seed), all of them in thorough
TX_ARRAYS = (("blocktxn", "txs"), ("cmpctblock", "prefilled_txs"), ("block", "block"))
# messages that share one layout: the 2^16 lengths go to one of each group per quick run
SAME_LAYOUT = (("inv", "getdata", "notfound"), ("getblocks", "getheaders"))


def alert_payload_of_length(rng, n):
    a = {"version": u32(rng), "relayUntil": u64(rng), "expiration": u64(rng), "id": u32(rng), "cancel": u32(rng), "setCancel": [],
         "minVer": 0, "maxVer": u32(rng), "setSubVer": [b"/x/"], "priority": 1, "comment": b"", "statusBar": b"s", "reserved": b""}
    pad = n - len(P2P.enc_alert_payload(a))
    for shrink in range(0, 12):
        a["comment"] = b"c" * max(0, pad - shrink)
        if len(P2P.enc_alert_payload(a)) == n:
            return P2P.enc_alert_payload(a)
    raise RuntimeError("no alert payload of %d bytes (oracle error)" % n)


def with_length(rng, name, field, n):
    """a value set of message `name` whose string / array `field` has exactly n bytes / elements"""
    f = GENERATORS[name](rng, 99)
    t = VALUE_TYPES[name][field]

    def cycle(make):
        pool = [make() for _ in range(min(n, 64))]
        return [pool[i % 64] for i in range(n)]
    if (name, field) == ("alert", "payload"):
        f[field] = alert_payload_of_length(rng, n)
    elif t == "S":
        f[field] = G.rbytes(rng, n)
    elif t == "B":
        header, txs = G.rand_block(rng, min(n, 64), small=True)
        txs = [txs[i % 64] for i in range(n)]
        header["root"] = RB.root_of(txs)
        f[field] = {"header": header, "txs": txs}
    elif t == "[1]":
        f[field] = list(G.rbytes(rng, n))
    elif t == "[#]":
        f[field] = cycle(lambda: G.rand_hash(rng))
    elif t == "[v]":
        f[field] = cycle(lambda: inv_item(rng))
    elif t == "[LA]":
        f[field] = cycle(lambda: {"time": u32(rng), "addr": address(rng)})
    elif t == "[zI]":
        f[field] = cycle(lambda: {"header": G.rand_header(rng), "txn_count": rng.choice([0, 1, 252, 253, 65536])})
    elif t == "[6]":
        f[field] = cycle(lambda: pick(rng, U48_EDGE, 48))
    elif t == "[I]":
        f[field] = cycle(lambda: pick(rng, CSIZE_EDGE, 16))
    elif t == "[T]":
        f[field] = cycle(lambda: G.rand_tx(rng, small=True))
    elif t == "[IT]":
        f[field] = cycle(lambda: {"index": rng.choice([0, 1, 253, 70000]), "tx": G.rand_tx(rng, small=True)})
    else:
        raise RuntimeError("no length generator for %s.%s of type %s: not monitored" % (name, field, t))
    return f


def length_cases(tier, seed):
    """[(message, field, length)] of one run, in an order that spreads the long ones over the shards"""
    try:
        turn = int(seed)
    except (TypeError, ValueError):
        turn = sum(str(seed).encode())
    out = []
    for n in LENGTH_EDGE:
        for name, k in LENGTH_FIELDS:
            if n >= 65535 and tier == "quick":
                if (name, k) in TX_ARRAYS and (TX_ARRAYS.index((name, k)) * 2 + (n & 1)) != turn % (2 * len(TX_ARRAYS)):
                    continue
                group = [g for g in SAME_LAYOUT if name in g]
                if group and group[0][(turn + (n & 1)) % len(group[0])] != name:
                    continue
            out.append((name, k, n))
    return out


def required_lengths():
    return ["length_edge:%s.%s:%d" % (name, k, n) for name, k in LENGTH_FIELDS for n in LENGTH_EDGE[:3]] + [
        "length_edge:%s.%s:%d" % (name, k, n) for name, k in LENGTH_FIELDS for n in LENGTH_EDGE[3:]
        if (name, k) not in TX_ARRAYS and not any(name in g for g in SAME_LAYOUT)] + [
        "length_edge:tx_array:65535_or_65536", "length_edge:items:65535", "length_edge:items:65536",
        "length_edge:locator:65535", "length_edge:locator:65536"]


def run_length_cases(spec, rec):
    cases = length_cases(spec["tier"], spec["seed"])
    for i, (name, k, n) in enumerate(cases):
        if i % spec["parts"] != spec["part"]:
            continue
        rng = shard_rng(spec["seed"], PROPERTY, spec["tier"], 0, salt="length:%s.%s:%d" % (name, k, n))
        fields = with_length(rng, name, k, n)
        v = fields[k]
        if (len(v["txs"]) if isinstance(v, dict) else len(v)) != n:
            rec.ev("inconclusive:length_case_has_not_the_promised_length")
            continue
        variant = make_variant(rng, name, fields, types_of(name), i) if n < 65535 else None
        judge("LTC" if i % 5 == 4 else "BTC", name, fields, rec, variant=variant)
        rec.ev("length_edge:%s.%s:%d" % (name, k, n))
        if n >= 65535:
            if (name, k) in TX_ARRAYS:
                rec.ev("length_edge:tx_array:65535_or_65536")
            elif name in SAME_LAYOUT[0]:
                rec.ev("length_edge:items:%d" % n)
            elif name in SAME_LAYOUT[1]:
                rec.ev("length_edge:locator:%d" % n)


# ------------------------------------------------------------------------------------------- the 2^16-th operation
#
# ONE dedicated shard: more than 2^16 + 100 (thorough: 2^17 + 100) pack and parse calls on ONE network's packer / parser
# in one process, every call judged.  Each round packs and parses a `ping` with a running nonce (reference: the eight
# little-endian bytes) and one further small message, all other message names in turn, built around a handful of
# long-lived objects (the same PeerAddress / InvItem / Tx / header object in every round).

def run_longrun(spec, rec, stop_after=None):
    rounds = spec["longrun"]
    rng = shard_rng(spec["seed"], PROPERTY, spec["tier"], spec["shard"], salt="longrun")
    N = _net("BTC")
    pack, parse = N.message.pack, N.message.parse
    names = [n for n in table_names() if n != "ping"]
    rec.require("longrun.pack", "longrun.parse", "longrun.rounds_above_2^16")
    if spec["tier"] == "thorough":
        rec.require("longrun.rounds_above_2^17")
    pool = {"addr": [address(rng) for _ in range(2)], "inv": [inv_item(rng) for _ in range(2)],
            "tx": [G.rand_tx(rng, small=True), G.rand_tx(rng, segwit=True)], "header": [G.rand_header(rng)]}

    def share(v):
        """the long-lived objects in place of generated ones (every second time)"""
        if isinstance(v, list):
            return [share(x) for x in v[:3]]
        if isinstance(v, dict):
            kind = kind_of(v)
            if kind in pool:
                return rng.choice(pool[kind]) if rng.random() < 0.5 else v
            if kind and kind != "block":
                return {k: share(x) for k, x in v.items()}
        return v
    live = {id(o): to_lib(N, o) for objs in pool.values() for o in objs}

    def conv(v):
        if isinstance(v, list):
            return [conv(x) for x in v]
        if isinstance(v, dict):
            if id(v) in live and any(v is o for objs in pool.values() for o in objs):
                return live[id(v)]
            kind = kind_of(v)
            if kind and kind.startswith("pair:"):
                a, b = kind[5:].split(",")
                return (conv(v[a]), conv(v[b]))
        return to_lib(N, v)
    nonce = rng.getrandbits(64)
    n_pack = n_parse = 0
    for i in range(rounds):
        nonce = (nonce + 0x9e3779b97f4a7c15) & 0xffffffffffffffff if i % 1000 else (0xffffffffffffffff, 0, 1 << 63)[(i // 1000) % 3]
        want = nonce.to_bytes(8, "little")
        case = {"longrun": {"seed": spec["seed"], "tier": spec["tier"], "shard": spec["shard"], "rounds": rounds}, "round": i}
        st, got = observe(pack, "ping", nonce=nonce)
        n_pack += 1
        if st != "ok" or got != want:
            rec.violation("p2p.longrun.pack_wrong.ping", case, got, want)
            break
        st, d = observe(parse, "ping", want)
        n_parse += 1
        if st != "ok" or not isinstance(d, dict) or d.get("nonce") != nonce or not isinstance(d.get("nonce"), int):
            rec.violation("p2p.longrun.parse_wrong.ping", case, d, {"nonce": nonce})
            break
        name = names[i % len(names)]
        fields = GENERATORS[name](rng, 20 + rng.randrange(1000)) if name not in ("block", "merkleblock") or i % 7 == 0 else None
        if fields is None:
            name = "pong"
            fields = {"nonce": nonce ^ 0xff}
        if name not in ("block", "merkleblock"):
            fields = {k: share(v) for k, v in fields.items()}
        want = P2P.encode(name, fields)
        case["name"] = name
        st, got = observe(lambda: pack(name, **{k: conv(v) for k, v in fields.items()}))
        n_pack += 1
        if st != "ok" or got != want:
            rec.violation("p2p.longrun.pack_wrong.%s" % name, case, got, want)
            break
        st, d = observe(parse, name, want)
        n_parse += 1
        bad = parse_mismatches(N, name, d, fields) if st == "ok" else None
        if st != "ok" or bad:
            rec.violation("p2p.longrun.parse_wrong.%s" % name, case, d if st != "ok" else bad, fields)
            break
        if stop_after is not None and i >= stop_after:
            break
    rec.case(("longrun", spec["seed"], rounds), nontrivial=True, n=n_pack)
    rec.ev("longrun.pack", n_pack)
    rec.ev("longrun.parse", n_parse)
    if i + 1 >= (1 << 16) + 100:
        rec.ev("longrun.rounds_above_2^16")
    if i + 1 >= (1 << 17) + 100:
        rec.ev("longrun.rounds_above_2^17")


# ------------------------------------------------------------------------------------------- the other networks
#
# "every peer-to-peer message type the library defines": each network object carries its own packer / parser, built around
# that network's Block and Tx classes.  The messages that embed a transaction, a header or a block are therefore driven on
# the networks whose classes are not Bitcoin's as well: BCH (own Tx), GRS (own Tx and Block: other hashes, same wire
# layout), DOGE and XTN (derived Block class), through the same judge() as BTC / LTC; and BTG, whose header is NOT the
# 80-byte one (height, 28 reserved bytes, 32-byte nonce, compact-size prefixed Equihash solution: refs/btgser.py), with
# heights on both sides of the BTG fork height, solution lengths on both sides of the compact-size boundary, and its own
# judge (judge_btg) because the header has eight fields.

ALT_NETWORKS = ("BCH", "GRS", "DOGE", "XTN", "BTG")
ALT_NAMES = ("headers", "merkleblock", "block", "tx", "blocktxn", "cmpctblock")
ALT_PAIRS = [(net, name) for net in ALT_NETWORKS for name in ALT_NAMES if not (net == "BTG" and name in RBTG.MESSAGES)]
BTG_FORK = RBTG.FORK_HEIGHT
BTG_HEIGHT_EDGE = (BTG_FORK - 1, BTG_FORK, 0, 0xffffffff, 1, BTG_FORK + 1, 400000, 1 << 31, BTG_FORK - 2, 2 * BTG_FORK)
BTG_SOLUTION_LEN = (1344, 0, 100, 36, 1, 252, 253, 400)
BTG_HEADER_ATTRS = (("version", "version"), ("prev", "previous_block_hash"), ("root", "merkle_root"), ("height", "height"),
                    ("time", "timestamp"), ("bits", "difficulty"), ("nonce", "nonce"), ("solution", "solution"))
BTG_CLASSES = ("height:below_fork", "height:at_or_above_fork", "height:fork-1", "height:fork", "height:0", "height:2^32-1",
               "solution:empty", "solution:1344", "solution:below_253", "solution:253_or_more")


def grs_single_tx_block(rng):
    """a Groestlcoin block of ONE transaction: its transaction ids are the single SHA-256 of the serialisation without
    witness (Groestlcoin's documented departure from Bitcoin), so the root of a one-transaction block is that hash"""
    import hashlib
    header, txs = G.rand_block(rng, 1)
    return {"block": {"header": dict(header, root=hashlib.sha256(RT.serialize(txs[0], with_witness=False)).digest()), "txs": txs}}


def btg_header(rng, k, root=None):
    h = G.rand_header(rng, root=root)
    if k < 2 * len(BTG_HEIGHT_EDGE) or rng.random() < 0.4:
        height = BTG_HEIGHT_EDGE[k % len(BTG_HEIGHT_EDGE)]
    else:
        height = rng.randrange(BTG_FORK) if rng.random() < 0.5 else rng.randrange(BTG_FORK, 1 << 32)
    r = rng.random()
    nonce = G.rbytes(rng, 32) if r < 0.8 else (bytes(32) if r < 0.9 else G.rbytes(rng, 4) + bytes(28))
    n = BTG_SOLUTION_LEN[(k // 2) % len(BTG_SOLUTION_LEN)] if rng.random() < 0.8 else rng.randrange(600)
    return {"version": h["version"], "prev": h["prev"], "root": h["root"], "height": height, "time": h["time"], "bits": h["bits"],
            "nonce": nonce, "solution": G.rbytes(rng, n)}


def g_btg(rng, name, k):
    if name == "headers":
        n = (1, 2, 0, 3, 5, 1, 253)[k % 7]
        if n == 253:
            # a long array: all on one side of the fork height, short solutions
            return {"headers": [{"header": dict(btg_header(rng, 99), height=BTG_FORK - 1 - i if k % 2 else BTG_FORK + i,
                                                solution=G.rbytes(rng, i % 3)), "txn_count": i} for i in range(n)]}
        return {"headers": [{"header": btg_header(rng, k + i), "txn_count": rng.choice([0, 0, 1, rng.choice(CSIZE_EDGE)])} for i in range(n)]}
    if name == "merkleblock":
        n = rng.choice([1, 2, 3, 5, 7, 8, 12])
        txids = G.fake_txids("btg%d" % k, n)
        matches = [i for i in range(n) if rng.random() < 0.5]
        total, hashes, fb = RP.build(txids, matches)
        return {"header": btg_header(rng, k, root=RM.root(txids)), "total_transactions": total, "hashes": hashes, "flags": list(fb)}
    if name == "block":
        header, txs = G.rand_block(rng, (1, 2, 3, 1, 4)[k % 5])
        return {"block": {"header": btg_header(rng, k, root=header["root"]), "txs": txs}}
    raise KeyError(name)


def btg_headers_of(name, fields):
    if name == "headers":
        return [e["header"] for e in fields["headers"]]
    return [fields["header"]] if name == "merkleblock" else [fields["block"]["header"]]


def mk_btg_header(N, h):
    return N.block(version=h["version"], previous_block_hash=h["prev"], merkle_root=h["root"], timestamp=h["time"],
                   difficulty=h["bits"], nonce=h["nonce"], height=h["height"], solution=h["solution"])


def btg_kwargs(N, name, fields):
    if name == "headers":
        return {"headers": [(mk_btg_header(N, e["header"]), e["txn_count"]) for e in fields["headers"]]}
    if name == "merkleblock":
        return dict(fields, header=mk_btg_header(N, fields["header"]), hashes=list(fields["hashes"]), flags=list(fields["flags"]))
    blk = mk_btg_header(N, fields["block"]["header"])
    blk.set_txs([mk_tx(N, t) for t in fields["block"]["txs"]])
    return {"block": blk}


def cmp_btg_header(N, got, want):
    if not isinstance(got, N.block):
        return "not a Block"
    for key, attr in BTG_HEADER_ATTRS:
        g = getattr(got, attr, None)
        w = want[key]
        if isinstance(w, bytes):
            if not isinstance(g, (bytes, bytearray, memoryview)) or bytes(g) != w:
                return "header field " + key
        elif not isinstance(g, int) or g != w:
            return "header field " + key
    return None


def btg_mismatches(N, name, d, fields):
    """[(field, why)] for a parsed BTG headers / merkleblock / block message"""
    if not isinstance(d, dict):
        return [("*", "not a dict")]
    bad = []
    if name == "headers":
        got = d.get("headers")
        if not isinstance(got, (list, tuple)) or len(got) != len(fields["headers"]):
            return [("headers", "array length")]
        for g, w in zip(got, fields["headers"]):
            if not isinstance(g, (list, tuple)) or len(g) != 2:
                return [("headers", "tuple")]
            r = cmp_btg_header(N, g[0], w["header"]) or cmp_value(N, g[1], w["txn_count"])
            if r:
                return [("headers", r)]
        return bad
    if name == "merkleblock":
        r = cmp_btg_header(N, d.get("header"), fields["header"])
        if r:
            bad.append(("header", r))
        for k in ("total_transactions", "hashes", "flags"):
            r = "missing" if k not in d else cmp_value(N, d[k], fields[k])
            if r:
                bad.append((k, r))
        return bad
    got, want = d.get("block"), fields["block"]
    r = cmp_btg_header(N, got, want["header"])
    if not r:
        if len(got.txs) != len(want["txs"]):
            r = "block tx count"
        else:
            for g, w in zip(got.txs, want["txs"]):
                r = r or cmp_tx(N, g, w)
    return [("block", r)] if r else []


def judge_btg(name, fields, rec, sample=False):
    N = _net("BTG")
    case = {"altnet": "BTG", "name": name, "fields": fields}
    want = RBTG.encode(name, fields)
    if RBTG.decode(name, want) != fields:
        rec.ev("inconclusive:btg_reference_encoder_and_decoder_disagree")
        rec.note("refs/btgser: decode(encode(x)) != x for a %s value set (oracle error)" % name)
        return
    headers = btg_headers_of(name, fields)
    rec.case(("BTG", name, want), nontrivial=True)
    for h in headers:
        ht, n = h["height"], len(h["solution"])
        rec.ev("altnet.btg.height:" + ("below_fork" if ht < BTG_FORK else "at_or_above_fork"))
        if ht in (BTG_FORK - 1, BTG_FORK, 0, 0xffffffff):
            rec.ev("altnet.btg.height:" + {BTG_FORK - 1: "fork-1", BTG_FORK: "fork", 0: "0", 0xffffffff: "2^32-1"}[ht])
        rec.ev("altnet.btg.solution:" + ("empty" if n == 0 else "1344" if n == 1344 else "below_253" if n < 253 else "253_or_more"))
    # the class of the witness the mechanism key names: a header below the height at which BTG's own layout starts
    tag = ".below_fork_height" if any(h["height"] < BTG_FORK for h in headers) else ""
    rec.ev("altnet.btg.pack")
    rec.ev("altnet.btg.pack:" + name)
    kw = btg_kwargs(N, name, fields)
    st, got = observe(lambda: N.message.pack(name, **kw))
    if st != "ok":
        rec.violation("p2p.altnet.btg.pack_raises%s.%s" % (tag, name), case, got, want)
    elif got != want:
        rec.violation("p2p.altnet.btg.pack_bytes_mismatch%s.%s" % (tag, name), case, got, want)
        # the other half of the statement on what pack DID return: packing then parsing returns the same field values
        # (a merkleblock only when the bytes are a well-formed BTG message: misaligned bytes can carry a 2^32 hash count
        # that the parser walks without ever failing)
        if name == "merkleblock" and observe(RBTG.decode, name, bytes(got))[0] != "ok":
            rec.ev("altnet.btg.packed_bytes_not_parsed_back")
            st2, d2 = "ok", None
        else:
            st2, d2 = observe(N.message.parse, name, got)
        if d2 is None and st2 == "ok":
            pass
        elif st2 != "ok":
            rec.violation("p2p.altnet.btg.parse_of_packed_raises%s.%s" % (tag, name), case, d2, fields)
        else:
            bad = btg_mismatches(N, name, d2, fields)
            if bad:
                rec.violation("p2p.altnet.btg.pack_then_parse_field_mismatch%s.%s" % (tag, name), case, bad, fields)
    rec.ev("altnet.btg.parse")
    rec.ev("altnet.btg.parse:" + name)
    st, d = observe(N.message.parse, name, want)
    if st != "ok":
        rec.violation("p2p.altnet.btg.parse_raises%s.%s" % (tag, name), case, d, fields)
    else:
        for k, why in btg_mismatches(N, name, d, fields):
            rec.violation("p2p.altnet.btg.parse_field_mismatch%s.%s.%s" % (tag, name, k), case, {"why": why}, fields.get(k))
    if sample:
        rec.sample({"op": "pack/parse", "net": "BTG", "name": name, "heights": [h["height"] for h in headers][:6],
                    "bytes": want[:160], "n_bytes": len(want)})


def required_altnet():
    return (["altnet:%s:%s" % p for p in ALT_PAIRS] + ["altnet.btg.pack", "altnet.btg.parse"] +
            ["altnet.btg.%s:%s" % (op, name) for op in ("pack", "parse") for name in RBTG.MESSAGES] +
            ["altnet.btg." + c for c in BTG_CLASSES])


def run_altnet(spec, rec):
    part, parts = spec["part"], spec["parts"]
    thorough = spec["tier"] != "quick"
    n_btg = parts * (400 if thorough else 20)
    for name in RBTG.MESSAGES:
        rng = shard_rng(spec["seed"], PROPERTY, spec["tier"], spec["shard"], salt="btg:" + name)
        for k in range(part, n_btg, parts):
            judge_btg(name, g_btg(rng, name, k), rec, sample=(k == part and part == 0))
    n_alt = parts * (60 if thorough else 3)
    for i, (net, name) in enumerate(ALT_PAIRS):
        rng = shard_rng(spec["seed"], PROPERTY, spec["tier"], spec["shard"], salt="altnet:%s:%s" % (net, name))
        for k in range(part, n_alt, parts):
            # value sets from k = 9 on: the long-array boundary sets (k < 9) are driven on BTC / LTC
            fields = grs_single_tx_block(rng) if (net, name) == ("GRS", "block") else GENERATORS[name](rng, 9 + k + i)
            N = _net(net)
            st, err = observe(lambda: {key: to_lib(N, v) for key, v in fields.items()})
            if st != "ok":
                # the network's own constructors refuse the value set (a GRS block whose root they compute otherwise):
                # nothing to pack; the required counter stays at zero
                rec.ev("altnet.value_set_refused_by_constructor:%s:%s" % (net, name))
                continue
            judge(net, name, fields, rec)
            rec.ev("altnet:%s:%s" % (net, name))


def run_shard(spec, rec):
    table = table_names()
    check_table(table)
    if spec.get("longrun"):
        return run_longrun(spec, rec)
    rec.require("pack", "parse", "relay:true", "relay:false", "relay:absent")
    rec.require(*required_classes())
    rec.require("repack_of_parsed:returned")
    if spec.get("histories", 0):
        rec.require("history", "history.pack", "history.parse", "history.read_only_call", "history.invalid_pack_raised",
                    *["history.refused_pack:" + x for x in REFUSED_PACK_KINDS],
                    "history.damaged_parse_raised", "history.step:parse_same_bytes_again", "history.step:adopt_parsed_objects",
                    *["history.pack_after:" + a for a in ("failed_pack", "failed_pack_other_network", "failed_parse", "set_nonce", "set_txs", "set_witness", "txin_script",
                                                          "txin_sequence", "txout_coin_value", "list_edit", "adopt_parsed", "valid_call")])
    for name in table:
        rec.require("pack:" + name, "parse:" + name)
    rec.require("pack_variant:keyword_order", "pack_variant:extra_keyword", "pack_variant:container_spelling", "repack_of_parsed",
                "repack_of_parsed:with_keys_added_by_parse", *["pack_variant:order_" + x for x in ORDER_KINDS],
                *["pack_variant:containers_" + x for x in CONTAINER_KINDS], *["repack_of_parsed:" + x for x in ("parsed", "reversed", "sorted", "shuffled")],
                *["parse_input:" + x for x in ("subclass", "bytearray", "memoryview", "bytearray_view")])
    rec.require("pack_variant:same_objects_again", "pack_value_type:same_objects_again", *["pack_value_type:" + x for x in TYPE_DIMS],
                *["pack_value_type:str:" + x for x in TEXT_CLASSES])
    if spec.get("histories", 0):
        rec.require("history.pack_keywords:declared_order", "history.pack_keywords:other_order", "history.pack_keywords:with_undeclared_keys",
                    *["history.parse_input:" + x for x in sorted(set(History.HOW_DATA))])
    part, parts, sets = spec["part"], spec["parts"], spec["sets"]
    for name in table:
        rng = shard_rng(spec["seed"], PROPERTY, spec["tier"], spec["shard"], salt=name)
        gen = GENERATORS[name]
        if gen is g_empty:
            ks = [part] if part < 2 else []
        else:
            ks = range(part, sets, parts)
        vrng = shard_rng(spec["seed"], PROPERTY, spec["tier"], spec["shard"], salt="spelling:" + name)
        trng = shard_rng(spec["seed"], PROPERTY, spec["tier"], spec["shard"], salt="types:" + name)
        n_typed = part                                   # the shards start at different dimensions
        for j, k in enumerate(ks):
            net = "LTC" if k % 5 == 4 else "BTC"
            fields = gen(rng, k)
            variant = make_variant(vrng, name, fields, types_of(name), j + (part if gen is g_empty else 0))
            if fields and (j % 2 == 1 or j < 16):
                # every second value set once more in another value-TYPE spelling
                variant["types"] = make_type_spelling(trng, name, n_typed)
                n_typed += 1
            judge(net, name, fields, rec, sample=(k == part and part < 3 and name in ("version", "cmpctblock", "addr")), variant=variant)
    rec.require(*required_lengths())
    run_length_cases(spec, rec)
    rec.require(*required_altnet())
    run_altnet(spec, rec)
    for h in range(spec.get("histories", 0)):
        run_history({"seed": spec["seed"], "tier": spec["tier"], "shard": spec["shard"], "h": h}, rec)
    if part == 0:
        # omitting the optional keyword altogether is not a representation the statement fixes: observed, noted
        N = _net("BTC")
        f = g_version(shard_rng(spec["seed"], PROPERTY, "omit", 0), 2)
        f.pop("relay")
        st, got = _pack(N, "version", f)
        if st != "ok":
            rec.note("pack('version') without a `relay` keyword raises %s (absence must be passed as relay=None)" % type(got).__name__)
        for n in P2P.DECLARED_NOTES:
            rec.note("declared layout: " + n)


def replay_case(case, rec):
    check_table(table_names())
    if "history" in case:
        run_history(case["history"], rec)
        return
    if "longrun" in case:
        run_longrun(dict(case["longrun"], longrun=case["longrun"]["rounds"]), rec, stop_after=case["round"])
        return
    if case.get("altnet") == "BTG":
        judge_btg(case["name"], case["fields"], rec)
        return
    judge(case["net"], case["name"], case["fields"], rec, variant=case.get("variant"))
