"""C02 - elliptic-curve arithmetic is the group law on every curve and backend.

Toy curves (every y^2 = x^3+ax+b over p = 3 mod 4, p < 80, of prime order): exhaustive comparison of P+Q, P-Q, -P,
k*P for k in [-2n, 3n], G*k / raw_mul, points_for_x for every x, Point(x, y) for every (x, y), ECDH for every pair,
against the brute-force group table of the reference. 256/381-bit curves: the same operations against the reference
Jacobian ladder with forced operand relations, algebraic laws on the library's own results, pure vs OpenSSL identical
coordinates, blinded G*k == raw_mul(k) for generators built with adversarial entropy (scalars aimed at k = -b and k = -2b),
points recovered from small / adjacent x-coordinates as operands. Plus the memcheck leg.

Every operand-relation / scalar class of the statement is counted per configuration ("toy|", "pure|", "openssl|" counters) and
required there: a class that is reached only on toy curves, or an OpenSSL backend that silently did not load on a machine that
has libcrypto, makes the run inconclusive instead of "held".

State between calls (all counted and required per configuration): (A) calls the library refuses - None / float / str / bytes /
list / Decimal / Fraction / complex where an integer is expected, non-points where a point is expected, off-curve points, x without
a point - are placed between judged calls on the same generator objects (and their siblings built with other entropy); only the
judged calls that FOLLOW are verdicts. (B) one long-run shard makes more than 2^16 (thorough: 2^17) blinded products on ONE
generator object, each compared with a running sum of the reference, together with one Point addition, negation, construction
per step. (C) lists passed where the API takes a pair are not modified and a second call agrees. (D) every way a caller obtains
a point (14 producers) x every operation that takes one (11 consumers), also across sibling generator objects of one curve; and
"twins": two live generators of different curves (or two objects of one curve) whose base points have equal coordinates, the
same question put to one and then the other.
"""
import math

from vmon.probe import shard_rng, observe
from vmon.refs import ec
from vmon import memcheck

PROPERTY = "C02"
LEVEL = "exploration"
TECHNIQUE = ("differential runtime monitor vs independent affine/Jacobian reference; exhaustive group-table comparison on toy "
             "curves; algebraic-law checks; backend-vs-backend coordinate comparison; valgrind memcheck on the libcrypto path")
RULE = ("a case is one monitored operation (curve, backend, operation, operand-relation class, operands): add / sub / neg / "
        "k*P / P*k / G*k / raw_mul / points_for_x / Point() / ECDH / inverse_mod / a law instance. Relation classes: generic, "
        "doubling (Q=P), inverse (Q=-P), left/right/both infinity, unreduced coordinates, scalar classes zero / negative / "
        ">= order / bit patterns stressing the (e, 3e) ladder; on the large curves also x-coordinates less than 2^64 apart "
        "(points recovered from small / adjacent x, both operand orders) and scalars cancelling the blinding factor. Scalar "
        "classes and operand relations are forced by rotation, so each is reached in each configuration (required per "
        "configuration: toy / pure / openssl). At least 20% of big-curve cases must be non-generic or the run is "
        "inconclusive. Toy curves are enumerated exhaustively. Distinct by all of the above; every counted case is non-trivial. "
        "State classes: judged calls that follow refused calls of each family (errpath.*), one long run of > 2^16 products on one "
        "generator object (a case per step), list arguments (mutable.*), producer x consumer pairs (chain.*), twin generators "
        "with equal base-point coordinates in three flavours (twin.*): each required.")
ASSUMPTIONS = [
    "reference arithmetic vmon/refs/ec.py is correct: textbook affine chord-tangent law, cross-checked on every run against "
    "its own Jacobian ladder, exhaustive closure / commutativity / associativity / order on toy curves, n*G = infinity on the "
    "three production curves; in each toy shard the table used as ground truth is re-validated (closure, commutativity, "
    "identity, inverses, k*P by repeated addition)",
    "curves in the quantifier: known odd prime order, p = 3 mod 4 (pycoin's Generator asserts this); no point has y = 0 there",
    "'reports that none exists' for points_for_x and the rejection of an off-curve Point() are satisfied by any exception",
    "coordinates presented unreduced (x+p, y+p, and negative representatives x-p, y-p) are outside the statement's canonical points; they are exercised and compared "
    "modulo p only; a library that refuses them at construction is not reported (event unreduced_operand_refused)",
    "inverse_mod is an internal mechanism of the property (anchor), checked only as a*b = 1 (mod m) for invertible a",
    "Generator.raw_mul walks a 256-entry table: curves whose order exceeds 256 bits are not shipped and not exercised",
    "BLS12-381 G1 is the order-n subgroup generated by G of a curve with cofactor > 1: arithmetic operands there are multiples "
    "of G (for curve points outside the subgroup n*P is not infinity and the statement's laws do not apply); points_for_x and "
    "Point() are exercised on arbitrary curve points of it",
    "adversarial blinding entropy is injected through a subclass whose only addition is a __new__ that accepts the entropy_f "
    "argument (Generator.__new__ rejects the argument Generator.__init__ documents); __init__, raw_mul and __mul__ are the library's; "
    "that the entropy was used is observed through the callable (it was called), not through a private attribute; the value "
    "b = int(bytes drawn) mod n is assumed only to aim scalars at k = -b, -2b and to name those events, never in a verdict",
    "the OpenSSL configuration is 'present' when this machine has a findable libcrypto and PYCOIN_NATIVE is unset: then the "
    "default worker must show a generator that overrides the plain Generator's arithmetic, or the run is inconclusive",
    "backends are compared on point coordinates; inverse_mod results of two backends are compared as residues",
    "the Generator instance is itself a Point and is used as an operand of +, - and unary minus",
    "libsecp256k1 is not installed in this environment: that backend is recorded absent",
    "a refused call (any exception) is never judged, nor is a call with a non-integer scalar / non-point operand that the library "
    "happens to accept; the statement is read as: valid calls return the group law whatever calls were refused before them",
    "a list [x, y] where the API documents 'a pair' (ECDH peer key, Generator basis, operand of Curve.add / Point + ) is judged only "
    "if the library accepts it: then the result must be the group law, the list must be unchanged and a second call must agree",
    "points of a sibling generator object of the same curve (other blinding entropy, other backend) mixed with points of the "
    "generator under test: a wrong result is a violation, a refusal is not (the statement does not oblige mixing objects)",
    "twin generators share base-point coordinates only on toy curves (a second 256-bit curve of known prime order through "
    "secp256k1's G is not available); any non-identity point of a prime-order toy curve is used as base point",
    "the long run uses the module generator with the native backend (2^16 pure-Python 256-bit products do not fit the budget); "
    "without a native backend it runs on the pure generator of the largest toy curve (same Generator code)",
]
EXPLANATION = ("every result of the real library is compared with the reference group law; toy curves exhaustively, large "
               "curves with forced operand relations and structured scalars, in the pure and OpenSSL configurations")
TIMEOUT = {"quick": 600, "thorough": 3 * 3600}
NONE_ENV = {"PYCOIN_NATIVE": "none"}
BIG = {"secp256k1": ec.SECP256K1, "secp256r1": ec.SECP256R1, "bls12_381_g1": ec.BLS12_381_G1}


def exhaustive(tier):
    return False


def configurations(tier):
    return ["toy curves / in-process pure Generator (exhaustive)", "secp256k1, secp256r1 / OpenSSL (default worker)",
            "secp256k1, secp256r1, bls12_381_g1 / pure Python worker (PYCOIN_NATIVE=none)",
            "secp256k1, secp256r1, bls12_381_g1 / in-process pure Generator(p,a,b,G,n), compared coordinate-for-coordinate with OpenSSL",
            "generators rebuilt with adversarial blinding entropy", "valgrind memcheck over the OpenSSL path",
            "one generator object used for more than 2^16 products in one process (long run)",
            "two generators with equal base-point coordinates alive in one process (other curve same field / other field / same curve)",
            "libsecp256k1: absent (not installed)"]


def _toy_params(c):
    return [c.p, c.a, c.b, c.G[0], c.G[1], c.n]


def _twin_specs(toys, rng, count):
    """pairs of toy curves with a common affine point H used as base point of both (any non-identity point generates a
    group of prime order): same field / other field / the same curve twice (two objects)."""
    out = []
    pool = [t for t in toys if t.n >= 11]
    tries = 0
    while len(out) < count and tries < 4000:
        tries += 1
        fl = TWIN_FLAVOURS[len(out) % len(TWIN_FLAVOURS)]
        A = rng.choice(pool)
        H = rng.choice(A.all_points())
        if fl == "same_curve_two_objects":
            B = A
        else:
            B = None
            for T in rng.sample(pool, 400):
                if (T.p == A.p) == (fl == "same_field") and (T.p, T.a, T.b) != (A.p, A.a, A.b) and T.on_curve(H):
                    B = T
                    break
            if B is None:
                continue
        out.append({"A": [A.p, A.a, A.b, H[0], H[1], A.n], "B": [B.p, B.a, B.b, H[0], H[1], B.n], "flavour": fl})
    return out


def plan(tier, seed):
    shards = []
    rng = shard_rng(seed, PROPERTY, tier, "plan")
    if tier == "quick":
        toys = ec.toy_curves(80)
        small = [c for c in toys if c.p == 7]
        chosen = small + rng.sample([c for c in toys if 7 < c.p <= 31], 18) + rng.sample([c for c in toys if c.p > 31], 7)
        chosen.sort(key=lambda c: -c.n)
        groups = [chosen[i::9] for i in range(9)]
        for gi, grp in enumerate(groups):
            shards.append({"kind": "toy", "curves": [_toy_params(c) for c in grp], "label": "toy x%d" % len(grp)})
        for cv in ("secp256k1", "secp256r1"):
            shards.append({"kind": "big", "curve": cv, "gen": "module", "ops": 800, "cross": 30, "label": cv + "/openssl"})
            shards.append({"kind": "big", "curve": cv, "gen": "module", "ops": 55, "cross": 0, "env": NONE_ENV, "label": cv + "/pure-env"})
            shards.append({"kind": "big", "curve": cv, "gen": "inproc", "ops": 55, "cross": 0, "label": cv + "/inproc-pure"})
        shards.append({"kind": "big", "curve": "bls12_381_g1", "gen": "module", "ops": 40, "cross": 0, "label": "bls12_381_g1/pure"})
        shards.append({"kind": "big", "curve": "bls12_381_g1", "gen": "module", "ops": 40, "cross": 0, "env": NONE_ENV, "label": "bls12_381_g1/pure-env"})
        shards.append({"kind": "memcheck", "iterations": 10, "vg_timeout": 400, "label": "memcheck"})
        shards.append({"kind": "longrun", "curve": "secp256k1", "count": (1 << 16) + 100, "label": "longrun secp256k1"})
        srng = shard_rng(seed, PROPERTY, tier, "plan-state")
        shards.append({"kind": "state", "curves": [_toy_params(c) for c in srng.sample([c for c in toys if c.n >= 7], 6)],
                       "twins": _twin_specs(toys, srng, 12), "label": "state x6, twins x12"})
    else:
        toys = ec.toy_curves(80)
        low = [c for c in toys if c.p <= 47]
        high = rng.sample([c for c in toys if c.p > 47], 200)
        chosen = low + high
        chosen.sort(key=lambda c: -c.n)
        G = 64
        for gi in range(G):
            grp = chosen[gi::G]
            shards.append({"kind": "toy", "curves": [_toy_params(c) for c in grp], "label": "toy x%d" % len(grp)})
        for cv in ("secp256k1", "secp256r1"):
            for i in range(5):
                shards.append({"kind": "big", "curve": cv, "gen": "module", "ops": 3000, "cross": 120, "label": cv + "/openssl"})
            for i in range(5):
                shards.append({"kind": "big", "curve": cv, "gen": "module", "ops": 330, "cross": 0, "env": NONE_ENV, "label": cv + "/pure-env"})
            for i in range(3):
                shards.append({"kind": "big", "curve": cv, "gen": "inproc", "ops": 330, "cross": 0, "label": cv + "/inproc-pure"})
        for i in range(3):
            shards.append({"kind": "big", "curve": "bls12_381_g1", "gen": "module", "ops": 200, "cross": 0, "label": "bls12_381_g1/pure"})
        shards.append({"kind": "big", "curve": "bls12_381_g1", "gen": "module", "ops": 200, "cross": 0, "env": NONE_ENV, "label": "bls12_381_g1/pure-env"})
        shards.append({"kind": "memcheck", "iterations": 300, "vg_timeout": 3000, "label": "memcheck"})
        shards.append({"kind": "longrun", "curve": "secp256k1", "count": (1 << 17) + 100, "label": "longrun secp256k1"})
        srng = shard_rng(seed, PROPERTY, tier, "plan-state")
        for i in range(6):
            shards.append({"kind": "state", "curves": [_toy_params(c) for c in srng.sample([c for c in toys if c.n >= 7], 8)],
                           "twins": _twin_specs(toys, srng, 15), "label": "state x8, twins x15"})
    shards.sort(key=lambda s: {"longrun": -1, "memcheck": 0, "big": 1, "state": 2, "toy": 2}[s["kind"]])
    return shards


def selftest(rec):
    return {"ec": ec.selftest(), "memcheck_parser": memcheck.selftest()}


# ---------------------------------------------------------------------------------------------
# context

_CTX = {}


class Ctx:
    pass


def _entropy_f(value):
    def f(nbytes):
        return (value % (1 << (8 * nbytes))).to_bytes(nbytes, "big")
    return f


class GeneratorUnavailable(Exception):
    pass


def get_ctx(curve, gen, rec):
    """the generator under test; if the library cannot even build / import it, that is reported as a violation
    (no operation of the property can succeed in that configuration) and the shard ends."""
    try:
        return _get_ctx(curve, gen, rec)
    except GeneratorUnavailable:
        raise
    except Exception as e:
        rec.violation("generator.construction_raises", {"kind": "import", "curve": curve, "gen": gen}, e, "a usable generator object")
        raise GeneratorUnavailable(str(e))


def _get_ctx(curve, gen, rec):
    key = (repr(curve), gen)
    if key in _CTX:
        _CTX[key].rec = rec
        return _CTX[key]
    from pycoin.ecdsa.Generator import Generator
    ctx = Ctx()
    ctx.rec, ctx.curve_id, ctx.gen = rec, curve, gen
    if isinstance(curve, str):
        c = BIG[curve]
        if gen == "module":
            if curve == "secp256k1":
                from pycoin.ecdsa.secp256k1 import secp256k1_generator as g
            elif curve == "secp256r1":
                from pycoin.ecdsa.secp256r1 import secp256r1_generator as g
            else:
                from pycoin.ecdsa.bls12_381_g1 import bls12_381_g1 as g
        else:
            g = Generator(c.p, c.a, c.b, c.G, c.n)
    else:
        p, a, b, gx, gy, n = curve
        c = ec.Curve(p, a, b, (gx, gy), n, "toy(p=%d,a=%d,b=%d,n=%d)" % (p, a, b, n))
        g = Generator(p, a, b, (gx, gy), n)
    ctx.c, ctx.g = c, g
    ctx.toy = not isinstance(curve, str)
    # "native" = the generator's class overrides some arithmetic entry point of the plain Generator (decided by behaviour,
    # not by the name of the mix-in class)
    ctx.native = any(getattr(type(g), m, None) is not getattr(Generator, m, None)
                     for m in ("add", "multiply", "raw_mul", "inverse_mod", "__mul__", "__rmul__", "__add__", "__neg__", "__sub__"))
    ctx.cfg = "%s/%s" % (gen, "openssl" if ctx.native else "pure")
    # configuration tag of the per-configuration class counters (see REQUIRED_CLASSES)
    ctx.tag = "toy" if ctx.toy else ("openssl" if ctx.native else "pure")
    ctx.blinded = {}
    _CTX[key] = ctx
    return ctx


def blinded_generator(ctx, entropy):
    """(generator, consulted): a generator of the same class (same backend, same __init__) built with entropy_f returning
    `entropy`; `consulted` tells whether the library called entropy_f at all (observed through the callable itself, no
    private attribute is read). Generator.__new__ does not accept the entropy_f argument its __init__ documents, so a
    subclass whose only addition is a __new__ that lets the argument through is used; everything else is the library's."""
    if entropy not in ctx.blinded:
        c = ctx.c
        base = type(ctx.g)
        asked = []
        inner = _entropy_f(entropy)

        def f(nbytes):
            asked.append(inner(nbytes))
            return asked[-1]

        class WithEntropy(base):
            def __new__(cls, p, a, b, basis, order, entropy_f=None):
                return tuple.__new__(cls, basis)
        g = WithEntropy(c.p, c.a, c.b, c.G, c.n, entropy_f=f)
        ctx.blinded[entropy] = (g, bool(asked), asked[0] if asked else b"")
    return ctx.blinded[entropy][:2]


def assumed_blinding(ctx, entropy):
    """the blinding factor a generator most plausibly derives from the bytes it drew from entropy_f (big endian, mod n).
    Used ONLY to aim scalars at the relations k = -b, k = -2b (mod n) and to name the event; never part of a verdict."""
    st, _ = observe(blinded_generator, ctx, entropy)
    return int.from_bytes(ctx.blinded[entropy][2], "big") % ctx.c.n if st == "ok" else 0


def base_case(ctx, kind, **kw):
    d = {"kind": kind, "curve": ctx.curve_id, "gen": ctx.gen}
    d.update(kw)
    return d


def to_py(ctx, P, gobj=False):
    if gobj and P is not None and tuple(P) == ctx.c.G:
        return ctx.g                     # the Generator instance itself (it is a Point)
    return ctx.g.infinity() if P is None else ctx.g.Point(P[0], P[1])


def from_py(P):
    try:
        x, y = P
    except Exception:
        return ("malformed", repr(P)[:80])
    if x is None and y is None:
        return None
    return (x, y)


def red(c, P):
    return None if P is None else (P[0] % c.p, P[1] % c.p)


def is_unreduced(c, *pts):
    return any(P is not None and not (0 <= P[0] < c.p and 0 <= P[1] < c.p) for P in pts)


def same(c, got, exp, modp):
    if isinstance(got, tuple) and got and got[0] == "malformed":
        return False
    if modp and got is not None:
        try:
            got = red(c, got)
        except Exception:
            return False
    return got == exp


def add_class(c, P, Q):
    if P is None and Q is None:
        return "both_infinity"
    if P is None:
        return "left_infinity"
    if Q is None:
        return "right_infinity"
    u = "unreduced_" if is_unreduced(c, P, Q) else ""
    if (P[0] - Q[0]) % c.p == 0:
        return u + ("doubling" if (P[1] - Q[1]) % c.p == 0 else "inverse")
    return u + "generic"


def scalar_class(c, k, P):
    if P is None:
        return "infinity_point"
    if k % c.n == 0:
        return "zero_mod_n"
    if k < 0:
        return "negative"
    if k >= c.n:
        return "ge_order"
    return "in_range"


# ---------------------------------------------------------------------------------------------
# per-configuration class counters: every operand-relation / scalar class of the statement must be REACHED in every
# configuration that ran (toy = exhaustive pure, pure = 256/381-bit pure Python, openssl), not merely somewhere

COMMON_CLASSES = [
    "add.generic", "add.doubling", "add.inverse", "add.left_infinity", "add.right_infinity", "add.both_infinity",
    "add.unreduced_generic", "add.unreduced_doubling", "add.unreduced_inverse", "add.commuted",
    "neg.point", "neg.infinity", "sub.generic", "sub.nongeneric",
    "mul.in_range", "mul.zero_mod_n", "mul.negative", "mul.ge_order", "mul.infinity_point", "mul.unreduced_point",
    "mul.negative_representative",
    "gmul.in_range", "gmul.zero_mod_n", "gmul.negative", "gmul.ge_order", "gmul.adversarial_entropy",
    "lift.two_points", "lift.no_point", "construct.on_curve", "construct.off_curve", "ecdh", "laws",
]
# only forced on the large curves (on a toy curve every pair of points has close x, every coordinate is small, and the
# exhaustive scalar range meets every relation with the blinding factor)
BIG_CLASSES = ["add.near_x", "mul.small_x_point", "gmul.scalar_cancels_blinding", "gmul.blinded_sum_is_doubling"]


def cev(ctx, name):
    ctx.rec.ev(name)
    ctx.rec.ev(ctx.tag + "|" + name)


def require_state_classes(ctx):
    """class A (refused calls between judged calls) and class C (caller-owned lists) were reached in this configuration"""
    ctx.rec.require(*[ctx.tag + "|errpath." + f for f in ERR_FAMILIES])
    ctx.rec.require(ctx.tag + "|mutable.calls")


def require_classes(ctx):
    ctx.rec.require(*[ctx.tag + "|" + n for n in COMMON_CLASSES + ([] if ctx.toy else BIG_CLASSES)])


NEAR = 1 << 64


# ---------------------------------------------------------------------------------------------
# judges

def judge_add(ctx, case, exp=None):
    rec, c = ctx.rec, ctx.c
    P = tuple(case["P"]) if case.get("P") else None
    Q = tuple(case["Q"]) if case.get("Q") else None
    cls = add_class(c, P, Q)
    modp = is_unreduced(c, P, Q)
    if exp is None:
        exp = c.add(red(c, P), red(c, Q))
    rec.ev("Point.__add__")
    near = cls == "generic" and not ctx.toy and 0 < abs(P[0] - Q[0]) < NEAR
    rec.ev("class:" + ("generic" if cls == "generic" and not near else "nongeneric"))
    cev(ctx, "add." + cls)
    if near:
        cev(ctx, "add.near_x")            # x-coordinates within 2^64 of each other: a one-word, possibly negative, denominator
    rec.case(("add", ctx.curve_id, ctx.cfg, P, Q))
    go = case.get("gobj")
    st, a = observe(to_py, ctx, P, go == "P")
    st2, b = observe(to_py, ctx, Q, go == "Q")
    if go:
        rec.ev("operand_is_generator_object")
    if st != "ok" or st2 != "ok":
        if modp:
            rec.ev("unreduced_operand_refused")      # non-canonical coordinates: the statement does not oblige the library to take them
        else:
            rec.violation("construct.rejects_on_curve", case, [a, b], "points")
        return
    st, got = observe(lambda: a + b)
    if st != "ok":
        rec.violation("add.raises." + cls, case, got, exp)
        return
    got = from_py(got)
    if not same(c, got, exp, modp):
        rec.violation("add.wrong." + cls, case, got, exp)
    elif got is not None and not c.on_curve(red(c, got)):
        rec.violation("add.result_off_curve", case, got, exp)
    st, got2 = observe(lambda: b + a)
    cev(ctx, "add.commuted")
    if st != "ok" or not same(c, from_py(got2), exp, modp):
        rec.violation("add.not_commutative." + cls, case, got2, exp)


def judge_neg(ctx, case):
    rec, c = ctx.rec, ctx.c
    P = tuple(case["P"]) if case.get("P") else None
    exp = c.neg(red(c, P))
    modp = is_unreduced(c, P)
    rec.ev("Point.__neg__")
    rec.ev("class:" + ("nongeneric" if P is None or modp else "generic"))
    cev(ctx, "neg.infinity" if P is None else "neg.unreduced" if modp else "neg.point")
    rec.case(("neg", ctx.curve_id, ctx.cfg, P))
    go = case.get("gobj") == "P" and P == c.G
    st, a = observe(to_py, ctx, P, go)
    if st != "ok":
        if modp:
            rec.ev("unreduced_operand_refused")
        else:
            rec.violation("construct.rejects_on_curve", case, a, "point")
        return
    if go:
        rec.ev("operand_is_generator_object")
    st, got = observe(lambda: -a)
    if st != "ok":
        rec.violation("neg.raises" + (".infinity" if P is None else ".generator_object" if go else ""), case, got, exp)
    elif not same(c, from_py(got), exp, modp):
        rec.violation("neg.wrong", case, from_py(got), exp)


def judge_sub(ctx, case):
    rec, c = ctx.rec, ctx.c
    P = tuple(case["P"]) if case.get("P") else None
    Q = tuple(case["Q"]) if case.get("Q") else None
    exp = c.add(red(c, P), c.neg(red(c, Q)))
    modp = is_unreduced(c, P, Q)
    rec.ev("Point.__sub__")
    cls = ("unreduced_" if modp else "") + add_class(c, red(c, P), c.neg(red(c, Q)))
    rec.ev("class:" + ("generic" if cls == "generic" else "nongeneric"))
    cev(ctx, "sub.generic" if cls == "generic" else "sub.nongeneric")
    rec.case(("sub", ctx.curve_id, ctx.cfg, P, Q))
    go = case.get("gobj")
    st, ab = observe(lambda: (to_py(ctx, P, go == "P"), to_py(ctx, Q, go == "Q")))
    if st != "ok":
        if modp:
            rec.ev("unreduced_operand_refused")
        else:
            rec.violation("construct.rejects_on_curve", case, ab, "points")
        return
    a, b = ab
    if go:
        rec.ev("operand_is_generator_object")
    st, got = observe(lambda: a - b)
    if st != "ok":
        # P - Q is P + (-Q): when -Q alone raises, this is the negation defect seen through subtraction
        st_n, _ = observe(lambda: -b)
        if st_n != "ok" and Q is None:
            rec.violation("neg.raises.infinity", case, got, exp)
        elif st_n != "ok" and go == "Q" and Q == c.G:
            rec.violation("neg.raises.generator_object", case, got, exp)
        else:
            rec.violation("sub.raises." + cls, case, got, exp)
    elif not same(c, from_py(got), exp, modp):
        rec.violation("sub.wrong." + cls, case, from_py(got), exp)


def judge_mul(ctx, case, exp=None):
    rec, c = ctx.rec, ctx.c
    P = tuple(case["P"]) if case.get("P") else None
    k = case["k"]
    modp = is_unreduced(c, P)
    if exp is None:
        exp = c.mul(k, red(c, P))
    cls = scalar_class(c, k, P)
    rec.ev("Point.__mul__/__rmul__")
    smallx = P is not None and not ctx.toy and not modp and (P[0] < NEAR or c.p - P[0] < NEAR)
    rec.ev("class:" + ("generic" if cls == "in_range" and not modp and not smallx and not case.get("pattern") else "nongeneric"))
    cev(ctx, "mul." + cls)
    if modp:
        cev(ctx, "mul.unreduced_point")
        if P[0] < 0 or P[1] < 0:
            cev(ctx, "mul.negative_representative")   # (x - p, y), (x, y - p): same field elements, negative integers
    if smallx:
        cev(ctx, "mul.small_x_point")
    rec.case(("mul", ctx.curve_id, ctx.cfg, P, k))
    st, a = observe(to_py, ctx, P)
    if st != "ok":
        if modp:
            rec.ev("unreduced_operand_refused")
        else:
            rec.violation("construct.rejects_on_curve", case, a, "point")
        return
    st, got = observe(lambda: k * a)
    st2, got2 = observe(lambda: a * k)
    if st != "ok" or st2 != "ok":
        rec.violation("mul.raises." + cls, case, got if st != "ok" else got2, exp)
        return
    got, got2 = from_py(got), from_py(got2)
    if not same(c, got, exp, modp):
        rec.violation("mul.wrong." + cls, case, got, exp)
    elif got is not None and not c.on_curve(red(c, got)):
        rec.violation("mul.result_off_curve", case, got, exp)
    if got2 != got:
        rec.violation("mul.rmul_differs_from_mul", case, [got, got2], exp)


def judge_gmul(ctx, case, exp=None):
    """G*k (blinded), k*G and raw_mul(k) on the generator object itself (optionally one rebuilt with given entropy)."""
    rec, c = ctx.rec, ctx.c
    k = case["k"]
    ent = case.get("entropy")
    if exp is None:
        exp = c.mul(k, c.G)
    st, g = observe(blinded_generator, ctx, ent) if ent is not None else ("ok", (ctx.g, False))
    rec.ev("Generator.__mul__(blinded)")
    rec.ev("Generator.raw_mul")
    cls = scalar_class(c, k, c.G)
    rec.ev("class:" + ("generic" if cls == "in_range" and ent is None and not case.get("pattern") else "nongeneric"))
    cev(ctx, "gmul." + cls)
    rec.case(("gmul", ctx.curve_id, ctx.cfg, k, ent))
    if st != "ok":
        rec.violation("gmul.generator_construction_raises", case, g, "Generator")
        return
    g, consulted = g
    if ent is not None:
        if consulted:
            # the library asked the injected entropy_f: the blinding factor is under the workload's control
            cev(ctx, "gmul.adversarial_entropy")
            if not ctx.toy:
                bf = assumed_blinding(ctx, ent)
                if (k + bf) % c.n == 0:
                    cev(ctx, "gmul.scalar_cancels_blinding")         # raw_mul(k + b) is infinity
                if (k + 2 * bf) % c.n == 0 and bf:
                    cev(ctx, "gmul.blinded_sum_is_doubling")         # raw_mul(k + b) == -b*G
        else:
            rec.ev("gmul.entropy_f_not_consulted")
    st1, a = observe(lambda: g * k)
    st2, b = observe(lambda: k * g)
    st3, r = observe(g.raw_mul, k)
    if "exc" in (st1, st2, st3):
        rec.violation("gmul.raises." + cls, case, [a, b, r], exp)
        return
    a, b, r = from_py(a), from_py(b), from_py(r)
    if r != exp:
        rec.violation("raw_mul.wrong." + cls, case, r, exp)
    if a != r or b != r:
        rec.violation("gmul.blinded_differs_from_raw_mul", case, [a, b, r], exp)
    elif a != exp:
        rec.violation("gmul.wrong." + cls, case, a, exp)


def judge_lift(ctx, case):
    rec, c, g = ctx.rec, ctx.c, ctx.g
    x = case["x"]
    exp = c.lift_x(x)
    rec.ev("Generator.points_for_x")
    rec.ev("class:" + ("generic" if exp is not None else "nongeneric"))
    rec.case(("lift", ctx.curve_id, ctx.cfg, x))
    st, got = observe(g.points_for_x, x)
    if exp is None:
        cev(ctx, "lift.no_point")
        if st == "ok":
            rec.violation("lift.spurious_points", case, [from_py(t) for t in got], "reports that no point has this x")
        return
    if st != "ok":
        rec.violation("lift.missing_points", case, got, exp)
        return
    try:
        pts = tuple(from_py(t) for t in got)
    except Exception:
        pts = None
    cev(ctx, "lift.two_points")
    if pts is None or len(pts) != 2:
        rec.violation("lift.malformed", case, got, exp)
    elif pts != exp:
        if pts == (exp[1], exp[0]):
            rec.violation("lift.odd_y_first", case, pts, exp)
        else:
            rec.violation("lift.wrong_points", case, pts, exp)


def judge_construct(ctx, case):
    rec, c, g = ctx.rec, ctx.c, ctx.g
    from pycoin.ecdsa.Point import Point
    x, y = case["x"], case["y"]
    on = c.on_curve((x, y))
    rec.ev("Point()")
    rec.ev("class:" + ("generic" if on else "nongeneric"))
    cev(ctx, "construct.on_curve" if on else "construct.off_curve")
    rec.case(("construct", ctx.curve_id, ctx.cfg, x, y))
    st, got = observe(Point, x, y, g)
    st2, got2 = observe(g.Point, x, y)
    for s_, v in ((st, got), (st2, got2)):
        if on and s_ != "ok":
            rec.violation("construct.rejects_on_curve", case, v, "Point")
        elif not on and s_ == "ok":
            rec.violation("construct.accepts_off_curve", case, from_py(v), "NoSuchPointError")
    rec.ev("contains_point")
    if bool(g.contains_point(x, y)) != on:
        rec.violation("construct.contains_point_wrong", case, not on, on)


def judge_ecdh(ctx, case):
    rec, c, g = ctx.rec, ctx.c, ctx.g
    from pycoin.ecdsa.encrypt import generate_shared_public_key
    a, b = case["a"], case["b"]
    A, B = c.mul(a, c.G), c.mul(b, c.G)
    exp = c.mul(a * b, c.G)
    rec.ev("generate_shared_public_key")
    rec.ev(ctx.tag + "|ecdh")
    rec.ev("class:" + ("generic" if (a * b) % c.n and 0 < a < c.n and 0 < b < c.n else "nongeneric"))
    rec.case(("ecdh", ctx.curve_id, ctx.cfg, a, b))
    st1, s1 = observe(generate_shared_public_key, a, B, g)
    st2, s2 = observe(generate_shared_public_key, b, A, g)
    if st1 != "ok" or st2 != "ok":
        rec.violation("ecdh.raises", case, [s1, s2], exp)
        return
    s1, s2 = from_py(s1), from_py(s2)
    if s1 != s2:
        rec.violation("ecdh.asymmetric", case, [s1, s2], exp)
    elif s1 != exp:
        rec.violation("ecdh.wrong", case, s1, exp)


def judge_inverse_mod(ctx, case):
    rec, g = ctx.rec, ctx.g
    a, m = case["a"], case["m"]
    rec.ev("inverse_mod")
    rec.ev("class:" + ("generic" if 0 < a < m else "nongeneric"))
    rec.case(("inv", ctx.curve_id, ctx.cfg, a, m))
    if math.gcd(a, m) != 1:
        return
    st, got = observe(g.inverse_mod, a, m)
    if st != "ok":
        rec.violation("inverse_mod.raises" + (".negative" if a < 0 else ".ge_modulus" if a >= m else ""), case, got, pow(a, -1, m))
    elif not isinstance(got, int) or got * a % m != 1:
        rec.violation("inverse_mod.wrong" + (".negative" if a < 0 else ".ge_modulus" if a >= m else ""), case, got, pow(a, -1, m))


def judge_laws(ctx, case):
    """algebraic laws on the library's own results (no reference values involved)."""
    rec, c = ctx.rec, ctx.c
    P, Q, R = (to_py(ctx, tuple(t) if t else None) for t in (case["P"], case["Q"], case["R"]))
    a, b = case["a"], case["b"]
    inf = ctx.g.infinity()
    rec.case(("laws", ctx.curve_id, ctx.cfg, case["P"], case["Q"], case["R"], a, b))
    rec.ev("class:nongeneric")
    rec.ev(ctx.tag + "|laws")
    laws = [
        ("commutative", lambda: P + Q, lambda: Q + P),
        ("associative", lambda: (P + Q) + R, lambda: P + (Q + R)),
        ("identity", lambda: P + inf, lambda: P),
        ("scalar_distributes", lambda: (a + b) * P, lambda: a * P + b * P),
        ("point_distributes", lambda: a * (P + Q), lambda: a * P + a * Q),
        ("scalar_composes", lambda: a * (b * P), lambda: (a * b) * P),
        ("order_annihilates", lambda: c.n * P, lambda: inf),
        ("negative_scalar", lambda: (-a) * P, lambda: (c.n - a % c.n) * P),
        ("scalar_mod_order", lambda: (a + c.n) * P, lambda: a * P),
        ("zero_scalar", lambda: 0 * P, lambda: inf),
        ("scalar_times_infinity", lambda: a * inf, lambda: inf),
        ("double_is_add", lambda: 2 * P, lambda: P + P),
    ]
    for name, lhs, rhs in laws:
        rec.ev("law." + name)
        s1, l = observe(lhs)
        s2, r = observe(rhs)
        if s1 != "ok" or s2 != "ok":
            rec.violation("law." + name + ".raises", dict(case, law=name), [l, r], "equal group elements")
        elif from_py(l) != from_py(r):
            rec.violation("law." + name, dict(case, law=name), [from_py(l), from_py(r)], "equal group elements")
    # (-k)P = -(kP), stated with unary minus; -infinity is a neg.* matter (judge_neg), so only for a*P != infinity
    s1, kp = observe(lambda: a * P)
    if s1 == "ok" and from_py(kp) is not None:
        s2, l = observe(lambda: (-a) * P)
        s3, r = observe(lambda: -kp)
        rec.ev("law.negation_commutes_with_scalar")
        if s2 != "ok" or s3 != "ok" or from_py(l) != from_py(r):
            rec.violation("law.negation_commutes_with_scalar", dict(case, law="neg"), [l, r], "equal group elements")


def judge_backend(ctx, case):
    """the module generator (OpenSSL when active) and an in-process pure Generator: identical coordinate tuples."""
    rec, c = ctx.rec, ctx.c
    pure = get_ctx(ctx.curve_id, "inproc", rec)
    P = tuple(case["P"]) if case.get("P") else None
    k = case["k"]
    rec.ev("backend_cross_check")
    rec.ev("class:nongeneric")
    rec.case(("backend", ctx.curve_id, ctx.cfg, P, k))
    res = []
    for cx in (ctx, pure):
        a = to_py(cx, P)
        res.append([observe(lambda: k * a), observe(lambda: cx.g * k), observe(cx.g.raw_mul, k), observe(cx.g.inverse_mod, k % c.n or 1, c.n)])
    for i, op in enumerate(("multiply", "gmul", "raw_mul", "inverse_mod")):
        (s1, v1), (s2, v2) = res[0][i], res[1][i]
        if op == "inverse_mod":
            # not coordinates: the statement leaves the representative of the residue open
            t1 = v1 % c.n if s1 == "ok" and isinstance(v1, int) else v1
            t2 = v2 % c.n if s2 == "ok" and isinstance(v2, int) else v2
        else:
            t1 = from_py(v1) if s1 == "ok" else v1
            t2 = from_py(v2) if s2 == "ok" else v2
        if s1 != s2 or (s1 == "ok" and t1 != t2):
            rec.violation("backend.coordinates_differ." + op, dict(case, op=op), [t1, t2], "identical results")




# ---------------------------------------------------------------------------------------------
# class A: calls the library refuses (a None / float / str ... where an integer or a point is expected, an off-curve
# point, an x without a point) placed between judged calls on the same objects. A refusal is never judged; what is
# judged is the NEXT valid call (the ordinary judges, same objects, same process).

BAD_KINDS = ["none", "float", "half", "str", "hex", "bytes", "list", "tuple", "decimal", "fraction", "complex"]
BAD_POINT_KINDS = ["pt_short", "pt_long", "pt_none_y", "pt_none_x", "pt_off", "pt_str", "pt_float"]


def mk_bad(kind, v, p=0):
    """a value a caller passes by mistake in place of the integer v (or, pt_*, of the point v): near-misses of the valid
    argument of the judged call that follows (float(v) == v, str(v) prints v, ...)."""
    from decimal import Decimal
    from fractions import Fraction
    try:
        if kind == "none":
            return None
        if kind == "float":
            return float(v)
        if kind == "half":
            return float(v) + 0.5
        if kind == "str":
            return str(v)
        if kind == "hex":
            return "%x" % abs(v)
        if kind == "bytes":
            return abs(v).to_bytes((abs(v).bit_length() + 7) // 8 or 1, "big")
        if kind == "list":
            return [v]
        if kind == "tuple":
            return (v,)
        if kind == "decimal":
            return Decimal(v)
        if kind == "fraction":
            return Fraction(v)
        if kind == "complex":
            return complex(v)
        x, y = v
        if kind == "pt_short":
            return (x,)
        if kind == "pt_long":
            return (x, y, 1)
        if kind == "pt_none_y":
            return (x, None)
        if kind == "pt_none_x":
            return (None, y)
        if kind == "pt_off":
            return (x, (y + 1) % p)
        if kind == "pt_str":
            return (str(x), str(y))
        if kind == "pt_float":
            return (float(x), float(y))
    except (OverflowError, ValueError):
        return None
    raise KeyError(kind)


class Env:
    pass


def _refusals():
    from pycoin.ecdsa.encrypt import generate_shared_public_key as gspk
    # (family, name, what the bad value stands in for, call)
    return [
        ("gmul", "G*x", "k", lambda e, b: e.g * b),
        ("gmul", "x*G", "k", lambda e, b: b * e.g),
        ("gmul", "raw_mul", "k", lambda e, b: e.g.raw_mul(b)),
        ("mul", "P*x", "k", lambda e, b: e.P * b),
        ("mul", "x*P", "k", lambda e, b: b * e.P),
        ("mul", "multiply", "k", lambda e, b: e.g.multiply(e.P, b)),
        ("add", "P+x", "P", lambda e, b: e.P + b),
        ("add", "P-x", "P", lambda e, b: e.P - b),
        ("add", "G+x", "P", lambda e, b: e.g + b),
        ("add", "add", "P", lambda e, b: e.g.add(e.P, b)),
        ("lift", "points_for_x", "x", lambda e, b: e.g.points_for_x(b)),
        ("construct", "Point(x,_)", "x", lambda e, b: e.g.Point(b, e.Pv[1])),
        ("construct", "Point(_,y)", "y", lambda e, b: e.g.Point(e.Pv[0], b)),
        ("construct", "contains_point", "x", lambda e, b: e.g.contains_point(b, e.Pv[1])),
        ("inverse_mod", "inverse_mod", "k", lambda e, b: e.g.inverse_mod(b, e.n)),
        ("ecdh", "ecdh(x,_)", "k", lambda e, b: gspk(b, e.Pv, e.g)),
        ("ecdh", "ecdh(_,x)", "P", lambda e, b: gspk(e.k, b, e.g)),
    ]


ERR_FAMILIES = ["gmul", "mul", "add", "lift", "construct", "inverse_mod", "ecdh"]


def refuse_family(ctx, fam, k, Pv, ent=None):
    """every refused call of one family, every kind of bad value, on the generator under test (and, for the blinded
    products, on the sibling built with entropy `ent`). Returns how many of them the library refused."""
    rec, c = ctx.rec, ctx.c
    targets = [ctx.g]
    if ent is not None and fam == "gmul":
        st, gb = observe(blinded_generator, ctx, ent)
        if st == "ok":
            targets.append(gb[0])
    refused = 0
    for g in targets:
        e = Env()
        e.g, e.k, e.n, e.Pv = g, k, c.n, Pv
        st, e.P = observe(g.Point, Pv[0], Pv[1])
        if st != "ok":
            return 0
        for f, name, stands_for, call in _refusals():
            if f != fam:
                continue
            if stands_for == "P":
                bads = [mk_bad(kd, k) for kd in BAD_KINDS] + [mk_bad(kd, Pv, c.p) for kd in BAD_POINT_KINDS]
            else:
                v = {"k": k, "x": Pv[0], "y": Pv[1]}[stands_for]
                bads = [mk_bad(kd, v) for kd in BAD_KINDS]
            for b in bads:
                st, _ = observe(call, e, b)
                refused += st == "exc"
                rec.ev("errpath.call_refused" if st == "exc" else "errpath.call_not_refused")
    return refused


def errpath_round(ctx, rng, rnd, ent=None):
    """one round: for each family the refused calls, then the judged calls of that family on the same objects with the
    valid arguments the bad values were near-misses of."""
    rec, c, n, p = ctx.rec, ctx.c, ctx.c.n, ctx.c.p
    L = lambda P: list(P) if P else None
    k = [rng.randrange(2, 1 << 20), rng.randrange(1 << 40, 1 << 53), rng.randrange(1, n), rng.randrange(n, 1 << 258)][rnd % 4]
    if rnd % 3 == 2:
        k = -k
    if k % n == 0:
        k += 1
    Pv = c.mul(rng.randrange(1, n), c.G)
    Qv = c.mul(rng.randrange(1, n), c.G)
    done = []
    for fam in ERR_FAMILIES:
        refused = refuse_family(ctx, fam, k, Pv, ent)
        done.append(fam)
        if not refused:
            rec.ev("errpath.nothing_refused." + fam)
            continue
        cev(ctx, "errpath." + fam)
        tail = {"after_refused": {"families": list(done), "k": k, "P": L(Pv), "entropy": ent}}
        if fam == "gmul":
            judge_gmul(ctx, base_case(ctx, "gmul", k=k, entropy=None, **tail))
            if ent is not None:
                judge_gmul(ctx, base_case(ctx, "gmul", k=k, entropy=ent, **tail))
            judge_gmul(ctx, base_case(ctx, "gmul", k=rng.randrange(-n, 2 * n), entropy=ent, **tail))
        elif fam == "mul":
            judge_mul(ctx, base_case(ctx, "mul", P=L(Pv), k=k, **tail))
            judge_mul(ctx, base_case(ctx, "mul", P=L(c.G), k=k + 1, **tail))
        elif fam == "add":
            judge_add(ctx, base_case(ctx, "add", P=L(Pv), Q=L(Qv), **tail))
            judge_add(ctx, base_case(ctx, "add", P=L(c.G), Q=L(Pv), gobj="P", **tail))
            judge_add(ctx, base_case(ctx, "add", P=L(Pv), Q=L(Pv), **tail))
            judge_sub(ctx, base_case(ctx, "sub", P=L(Pv), Q=L(Qv), **tail))
            judge_neg(ctx, base_case(ctx, "neg", P=L(Pv), **tail))
        elif fam == "lift":
            judge_lift(ctx, base_case(ctx, "lift", x=Pv[0], **tail))
            x = rng.randrange(p)
            for _ in range(64):
                if c.lift_x(x) is None:
                    break
                x = rng.randrange(p)
            judge_lift(ctx, base_case(ctx, "lift", x=x, **tail))       # refused by the statement itself ...
            judge_lift(ctx, base_case(ctx, "lift", x=x, **tail))       # ... and still refused when asked again
            judge_lift(ctx, base_case(ctx, "lift", x=Qv[0], **tail))
        elif fam == "construct":
            judge_construct(ctx, base_case(ctx, "construct", x=Pv[0], y=(Pv[1] + 1) % p, **tail))
            judge_construct(ctx, base_case(ctx, "construct", x=Pv[0], y=(Pv[1] + 1) % p, **tail))
            judge_construct(ctx, base_case(ctx, "construct", x=Pv[0], y=Pv[1], **tail))
        elif fam == "inverse_mod":
            judge_inverse_mod(ctx, base_case(ctx, "inverse_mod", a=k, m=n, **tail))
            judge_inverse_mod(ctx, base_case(ctx, "inverse_mod", a=abs(k) % p or 1, m=p, **tail))
        elif fam == "ecdh":
            judge_ecdh(ctx, base_case(ctx, "ecdh", a=k % n, b=rng.randrange(1, n), **tail))
    # and once more the blinded product, after every family was through
    judge_gmul(ctx, base_case(ctx, "gmul", k=k + 1, entropy=ent, after_refused={"families": list(done), "k": k, "P": L(Pv), "entropy": ent}))


def replay_refusals(ctx, case):
    ar = case.get("after_refused")
    if ar:
        # in the run the objects had served valid calls before the refused ones
        observe(lambda: (ctx.g * 1, ctx.g * 2, ctx.g.points_for_x(ctx.c.G[0])))
        if ar.get("entropy") is not None:
            observe(lambda: blinded_generator(ctx, ar["entropy"])[0] * 1)
        for fam in ar["families"]:
            refuse_family(ctx, fam, ar["k"], tuple(ar["P"]), ar.get("entropy"))


# ---------------------------------------------------------------------------------------------
# class C: caller-owned mutable arguments (lists where the API takes "a pair" today) are not modified, a second call with
# the same object gives the same answer, and editing the list afterwards changes nothing the library returns later

def judge_mutable(ctx, case):
    rec, c, g = ctx.rec, ctx.c, ctx.g
    from pycoin.ecdsa.encrypt import generate_shared_public_key as gspk
    op, k = case["op"], case["k"]
    pair = [int(v) for v in case["pair"]]
    before = list(pair)
    modp = is_unreduced(c, tuple(pair))
    Pv = red(c, tuple(pair))
    rec.ev("mutable." + op)
    rec.ev("class:nongeneric")
    cev(ctx, "mutable.calls")
    rec.case(("mutable", ctx.curve_id, ctx.cfg, op, k, tuple(pair)))
    if op == "ecdh":
        call = lambda: gspk(k, pair, g)
        exp = c.mul(k, Pv)
    elif op == "add":
        Qv = c.mul(k, c.G)
        st, Q = observe(to_py, ctx, Qv)
        if st != "ok":
            return
        call = lambda: Q + pair
        exp = c.add(Qv, Pv)
    elif op == "curve_add":
        Qv = c.mul(k, c.G)
        other = list(Qv) if Qv else None
        call = lambda: g.add(pair, other if other is not None else g.infinity())
        exp = c.add(Pv, Qv)
    else:       # "basis": a generator built from a list; the caller edits the list afterwards
        call = lambda: type(g)(c.p, c.a, c.b, pair, c.n)
        exp = None
    st1, r1 = observe(call)
    changed = pair != before or any(type(v) is not int for v in pair)
    if changed:
        rec.violation("mutable.argument_modified." + op, case, pair, before)
        pair[:] = before
    if st1 != "ok":
        rec.ev("mutable.refused." + op)          # a library that does not take lists here is not judged
        return
    cev(ctx, "mutable.accepted")
    if op == "basis":
        g2 = r1
        ask = lambda: (tuple(g2), from_py(g2 * k), from_py(g2.raw_mul(k)))
        st0, got0 = observe(ask)
        pair[0] += 1
        pair[1] = 0
        st, got = observe(ask)
        want = (Pv, c.mul(k, Pv), c.mul(k, Pv))
        if (st0, got0) != ("ok", want):
            rec.violation("mutable.wrong.basis", case, got0, want)
        elif (st, got) != ("ok", want):
            rec.violation("mutable.caller_edit_changes_answer.basis", case, got, want)
        return
    st2, r2 = observe(call)
    if pair != before:
        rec.violation("mutable.argument_modified." + op, case, pair, before)
    got1 = from_py(r1)
    if not same(c, got1, exp, modp):
        rec.violation("mutable.wrong." + op, case, got1, exp)
    elif st2 != "ok" or from_py(r2) != got1:
        rec.violation("mutable.second_call_differs." + op, case, [got1, r2], exp)


def mutable_round(ctx, rng, rnd, basis=True):
    c, n = ctx.c, ctx.c.n
    Pv = c.mul(rng.randrange(1, n), c.G)
    k = rng.randrange(1, n)
    for pair in (Pv, unreduce(c, rng, Pv)):
        for op in ("ecdh", "add", "curve_add"):
            judge_mutable(ctx, base_case(ctx, "mutable", op=op, k=k, pair=list(pair)))
    if basis:
        judge_mutable(ctx, base_case(ctx, "mutable", op="basis", k=k, pair=list(c.G)))


# ---------------------------------------------------------------------------------------------
# class D (1): every producer of a point x every consumer of a point. A point of known value a*G is obtained from the
# library in one of the ways a caller gets points, then handed to each operation that takes a point; optionally the
# producer is a SIBLING generator object of the same curve (other blinding, other backend): equal by value, distinct objects.

PRODUCERS = ["Point", "lift", "gmul", "rmul", "raw_mul", "mul", "add", "sub", "neg", "ecdh", "gobj", "infinity", "zero_mul", "order_mul", "point_none"]
CONSUMERS = ["add", "radd", "sub", "rsub", "neg", "mul", "rmul", "ecdh", "construct", "lift", "double"]


def produce(ctx, g, prod, a, V):
    from pycoin.ecdsa.encrypt import generate_shared_public_key as gspk
    c = ctx.c
    mk = lambda T: g.infinity() if T is None else g.Point(T[0], T[1])
    if prod == "Point":
        return mk(V)
    if prod == "lift":
        return [T for T in g.points_for_x(V[0]) if T[1] == V[1]][0]
    if prod == "gmul":
        return g * a
    if prod == "rmul":
        return a * g
    if prod == "raw_mul":
        return g.raw_mul(a)
    if prod == "mul":
        return a * mk(c.G)
    if prod == "add":
        return mk(c.add(V, c.neg(c.G))) + g
    if prod == "sub":
        return mk(c.add(V, c.G)) - g
    if prod == "neg":
        return -mk(c.neg(V))
    if prod == "ecdh":
        return gspk(a, c.G, g)
    if prod == "gobj":
        return g
    if prod == "infinity":
        return g.infinity()
    if prod == "zero_mul":
        return 0 * mk(c.G)
    if prod == "order_mul":
        return g * c.n
    if prod == "point_none":
        return g.Point(None, None)          # "the point at infinity is (x, y) == (None, None)": a fresh object, not g.infinity()
    raise KeyError(prod)


def chain_pool(ctx, rng):
    """a few (scalar, scalar*G) pairs of the reference, made once per generator: the chain cases draw their values from
    it, so that a case costs affine additions of the reference instead of ladders"""
    if not getattr(ctx, "pool", None):
        c = ctx.c
        ctx.pool = [(s_, c.mul(s_, c.G)) for s_ in [1, 2, c.n - 1] + [rng.randrange(1, c.n) for _ in range(9)]]
    return ctx.pool


def chain_scalar(ctx, rng, prod):
    """(a, a*G) for the producer: the scalar class varies (negative, >= order) where the producer takes any integer"""
    c, n = ctx.c, ctx.c.n
    if prod == "gobj":
        return 1, c.G
    if prod in ("infinity", "zero_mul", "order_mul", "point_none"):
        return 0, None
    a, V = rng.choice(chain_pool(ctx, rng))
    if prod in ("Point", "lift", "ecdh"):
        return a, V
    return a + n * rng.choice([0, 0, -1, 1, 2, -3]), V


def small_multiple(c, b, V):
    """b*V for a scalar that is close to a multiple of the order (|b mod n| small): a short ladder"""
    bs = b % c.n
    return c.mul(bs, V) if bs <= c.n // 2 else c.neg(c.mul(c.n - bs, V))


def judge_chain(ctx, case):
    rec, c, g = ctx.rec, ctx.c, ctx.g
    from pycoin.ecdsa.encrypt import generate_shared_public_key as gspk
    prod, cons, a, b, sib = case["prod"], case["cons"], case["a"], case["b"], case.get("sibling")
    rec.ev("chain")
    rec.ev("class:nongeneric")
    rec.case(("chain", ctx.curve_id, ctx.cfg, prod, cons, a, b, sib))
    gp = g
    if sib == "entropy":
        st, gb = observe(blinded_generator, ctx, case.get("entropy", 1))
        if st != "ok":
            return
        gp = gb[0]
    elif sib == "inproc":
        gp = get_ctx(ctx.curve_id, "inproc", rec).g
    V = tuple(case["V"]) if case.get("V") else (None if "V" in case else c.mul(a, c.G))
    st, P = observe(produce, ctx, gp, prod, a, V)
    if st != "ok" or from_py(P) != V:
        # the producing operation itself is wrong: the plain judges report that under their own keys
        rec.ev("chain.producer_failed")
        return
    scalar_consumer = cons in ("mul", "rmul", "ecdh")
    W = None if scalar_consumer else tuple(case["W"]) if case.get("W") else c.mul(b, c.G)
    st, Q = observe(to_py, ctx, W)
    if st != "ok":
        return
    if cons == "add":
        f, exp = (lambda: P + Q), c.add(V, W)
    elif cons == "radd":
        f, exp = (lambda: Q + P), c.add(V, W)
    elif cons == "sub":
        f, exp = (lambda: P - Q), c.add(V, c.neg(W))
    elif cons == "rsub":
        f, exp = (lambda: Q - P), c.add(W, c.neg(V))
    elif cons == "neg":
        f, exp = (lambda: -P), c.neg(V)
    elif cons == "mul":
        f, exp = (lambda: b * P), small_multiple(c, b, V)
    elif cons == "rmul":
        f, exp = (lambda: P * b), small_multiple(c, b, V)
    elif cons == "ecdh":
        f, exp = (lambda: gspk(b, P, g)), small_multiple(c, b, V)
    elif cons == "construct":
        f, exp = (lambda: g.Point(P[0], P[1])), V
    elif cons == "double":
        f, exp = (lambda: P + P), c.add(V, V)
    else:       # lift: the x of the produced point gives back the point and its inverse, even y first
        if V is None:
            return
        f = lambda: tuple(from_py(T) for T in g.points_for_x(P[0]))
        exp = c.lift_x(V[0])
    cev(ctx, "chain.prod." + prod)
    cev(ctx, "chain.cons." + cons)
    if sib:
        cev(ctx, "chain.sibling_object")
    st, got = observe(f)
    if st != "ok":
        if sib and gp is not g:
            rec.ev("chain.sibling_refused")      # mixing objects of two equal curves: the statement does not oblige it
        else:
            rec.violation("chain.raises.%s->%s" % (prod, cons), case, got, exp)
        return
    got = got if cons == "lift" else from_py(got)
    if got != exp:
        rec.violation("chain.wrong.%s->%s" % (prod, cons), case, got, exp)


def chain_round(ctx, rng, combos, sibling=None):
    n = ctx.c.n
    L = lambda P: list(P) if P else None
    for prod, cons in combos:
        a, V = chain_scalar(ctx, rng, prod)
        if cons in ("mul", "rmul", "ecdh"):
            # scalars a short ladder away from a multiple of the order: small, negative, just below / above the order
            b = rng.randrange(1, 4096) * rng.choice([1, 1, -1]) + n * rng.choice([0, 0, 1, -1, 2])
            kw = {"V": L(V)}
        else:
            b, W = rng.choice(chain_pool(ctx, rng))
            kw = {"V": L(V), "W": L(W)}
        if sibling == "entropy":
            kw.update({"sibling": "entropy", "entropy": rng.choice(ENTROPIES(n))})
        elif sibling:
            kw.update({"sibling": sibling})
        judge_chain(ctx, base_case(ctx, "chain", prod=prod, cons=cons, a=a, b=b, **kw))


def require_chain(ctx):
    ctx.rec.require(*[ctx.tag + "|chain.prod." + x for x in PRODUCERS])
    ctx.rec.require(*[ctx.tag + "|chain.cons." + x for x in CONSUMERS])
    ctx.rec.require(ctx.tag + "|chain.sibling_object")


# ---------------------------------------------------------------------------------------------
# class D (2): two live generators of DIFFERENT curves whose base points have the same coordinates (a Generator is a tuple
# subclass: it hashes and compares by value), and two distinct generator objects of the same curve and base point. The same
# question is put to the first and then to the second; each must answer for ITS curve.

_TWINS = {}


def twin_pair(case):
    from pycoin.ecdsa.Generator import Generator
    key = (tuple(case["A"]), tuple(case["B"]))
    if key not in _TWINS:
        out = []
        for (p, a, b, hx, hy, n) in key:
            out.append((ec.Curve(p, a, b, (hx, hy), n, "toy(p=%d,a=%d,b=%d,n=%d)" % (p, a, b, n)), Generator(p, a, b, (hx, hy), n)))
        _TWINS[key] = out
    return _TWINS[key]


def twin_answer(c, g, op, args):
    """(observed, expected) of one question put to one generator; exceptions of the library are part of `observed`."""
    from pycoin.ecdsa.encrypt import generate_shared_public_key as gspk
    H = c.G
    if op == "gmul":
        k = args[0]
        return [from_py(g * k), from_py(k * g), from_py(g.raw_mul(k))], [c.mul(k, H)] * 3
    if op == "mul":
        k = args[0]
        P = g.Point(H[0], H[1])
        return [from_py(k * P), from_py(P * k)], [c.mul(k, H)] * 2
    if op == "lift":
        st, got = observe(g.points_for_x, args[0])
        return ("none" if st != "ok" else tuple(from_py(T) for T in got)), (c.lift_x(args[0]) or "none")
    if op == "construct":
        x, y = args
        st, _ = observe(g.Point, x, y)
        return [st == "ok", bool(g.contains_point(x, y))], [c.on_curve((x, y))] * 2
    if op == "add":
        P = g.Point(H[0], H[1])
        H2 = c.add(H, H)
        return ([from_py(P + P), from_py(g + P), from_py(P + g), from_py(g + g), from_py(g - g), from_py(g - P), from_py(-g), from_py(-P),
                 from_py((g + g) + g)], [H2, H2, H2, H2, None, None, c.neg(H), c.neg(H), c.add(H2, H)])
    if op == "ecdh":
        k = args[0]
        return from_py(gspk(k, H, g)), c.mul(k, H)
    if op == "inverse_mod":
        a, m = args
        return g.inverse_mod(a, m) * a % m, 1
    raise KeyError(op)


def judge_twin(ctx, case):
    rec = ctx.rec
    pair = twin_pair(case)
    order = [0, 1] if case["order"] == "AB" else [1, 0]
    op, args = case["op"], [int(v) for v in case["args"]]
    rec.ev("twin." + op)
    rec.ev("twin.flavour." + case["flavour"])
    rec.ev("class:nongeneric")
    rec.case(("twin", tuple(case["A"]), tuple(case["B"]), op, tuple(args), case["order"]))
    bad = []
    for pos, i in enumerate(order):
        c, g = pair[i]
        st, r = observe(twin_answer, c, g, op, args)
        if st != "ok":
            bad.append((pos, "raises", r, None))
        elif r[0] != r[1]:
            bad.append((pos, "wrong", r[0], r[1]))
    if bad:
        pos, how, got, exp = bad[0]
        second_only = len(bad) == 1 and pos == 1
        rec.violation("twin.%s.%s%s" % (op, how, "_on_second_asked" if second_only else ""), case, got, exp)


TWIN_FLAVOURS = ["same_field", "other_field", "same_curve_two_objects"]


def run_twins(spec, rec, rng):
    rec.require(*["twin.flavour." + f for f in TWIN_FLAVOURS])
    rec.require(*["twin." + op for op in ("gmul", "mul", "lift", "construct", "add", "ecdh", "inverse_mod")])
    for ti, tw in enumerate(spec["twins"]):
        A, B, flavour = tw["A"], tw["B"], tw["flavour"]
        pa, pb, na, nb = A[0], B[0], A[5], B[5]
        pm, nm = min(pa, pb), max(na, nb)
        tctx = _TwinCtx(rec)
        mk = lambda op, args, order: judge_twin(tctx, {"kind": "twin", "A": A, "B": B, "flavour": flavour, "op": op, "args": list(args), "order": order})
        ks = sorted(set(rng.sample(range(-nm, 2 * nm + 1), min(24, 3 * nm)) + [0, 1, -1, na, nb, na - 1, nb - 1]))
        for j, k in enumerate(ks):
            mk("gmul", [k], "AB" if j % 2 else "BA")
            mk("mul", [k], "BA" if j % 2 else "AB")
        for x in range(pm):
            mk("lift", [x], "AB" if (x + ti) % 2 else "BA")
        for j in range(80):
            x, y = (rng.randrange(pm), rng.randrange(pm)) if j % 4 else tuple(A[3:5])
            mk("construct", [x, y], "AB" if j % 2 else "BA")
        mk("add", [], "AB")
        mk("add", [], "BA")
        for j in range(8):
            mk("ecdh", [rng.randrange(1, 2 * nm)], "AB" if j % 2 else "BA")
            m = rng.choice([pa, pb, na, nb])
            mk("inverse_mod", [rng.randrange(1, m), m], "BA" if j % 2 else "AB")
        # the same questions once more, the other generator first (whichever answered first before is now second)
        for j, k in enumerate(ks[:12]):
            mk("gmul", [k], "BA" if j % 2 else "AB")
        for x in range(0, pm, 3):
            mk("lift", [x], "BA" if (x + ti) % 2 else "AB")


class _TwinCtx:
    def __init__(self, rec):
        self.rec = rec


# ---------------------------------------------------------------------------------------------
# class B: more than 2^16 operations on ONE generator object in one process, each judged against a running sum of the
# reference (k moves by one of a few fixed steps d, the expected point by the precomputed d*G: one affine addition)

LONGRUN_MAX_VIOLATIONS = 3


def judge_longrun(ctx, case):
    import random
    rec, c, g = ctx.rec, ctx.c, ctx.g
    n, p = c.n, c.p
    N = case["count"]
    r = random.Random(case["lr_seed"])
    steps = [1, 2, 3, r.randrange(1, n), -r.randrange(1, n), r.randrange(n, 1 << 260), -1, (n - 1) // 2, r.randrange(1, 1 << 32), -r.randrange(1, 1 << 64)]
    D = [c.mul(d, c.G) for d in steps]
    st, Dlib = observe(lambda: [to_py(ctx, T) for T in D])
    k = r.randrange(1, n)
    exp = c.mul(k, c.G)
    st2, acc = observe(to_py, ctx, exp)
    if st != "ok" or st2 != "ok":
        rec.violation("construct.rejects_on_curve", dict(case, index=0), [Dlib, acc], "points")
        return
    nviol = 0
    done = 0
    tag = ctx.tag + "|"
    counts = {"gmul": 0, "rmul": 0, "add": 0, "neg": 0, "construct": 0, "lift": 0}

    def bad(mech, i, got, want):
        rec.violation(mech, dict(case, count=i + 2, index=i, k=k), got, want)
        return 1

    for i in range(1, N + 1):
        j = r.randrange(len(steps))
        k += steps[j]
        exp = c.add(exp, D[j])
        if i & 1023 == 0:
            k += n * r.choice((-3, -2, -1, 1, 2, 3))
        # G*k on the one object (every 64th time through k*G)
        if i & 63:
            st, got = observe(lambda: g * k)
            counts["gmul"] += 1
        else:
            st, got = observe(lambda: k * g)
            counts["rmul"] += 1
        if st != "ok":
            nviol += bad("longrun.gmul.raises", i, got, exp)
        elif from_py(got) != exp:
            nviol += bad("longrun.gmul.wrong", i, from_py(got), exp)
        # the library's own running sum: one Point addition per step, on points of the same object
        st, acc2 = observe(lambda: acc + Dlib[j])
        counts["add"] += 1
        if st != "ok" or from_py(acc2) != exp:
            nviol += bad("longrun.add.wrong", i, acc2 if st != "ok" else from_py(acc2), exp)
            st, acc2 = observe(to_py, ctx, exp)
            if st != "ok":
                nviol += bad("longrun.construct.rejects_on_curve", i, acc2, exp)
                break
        acc = acc2
        if exp is not None:
            st, fresh = observe(g.Point, exp[0], exp[1])
            counts["construct"] += 1
            if st != "ok":
                nviol += bad("longrun.construct.rejects_on_curve", i, fresh, exp)
            st, neg = observe(lambda: -acc)
            counts["neg"] += 1
            if st != "ok" or from_py(neg) != c.neg(exp):
                nviol += bad("longrun.neg.wrong", i, neg if st != "ok" else from_py(neg), c.neg(exp))
            if i & 15 == 0:
                st, pts = observe(lambda: tuple(from_py(T) for T in g.points_for_x(exp[0])))
                counts["lift"] += 1
                want = (exp, c.neg(exp)) if exp[1] % 2 == 0 else (c.neg(exp), exp)
                if st != "ok" or pts != want:
                    nviol += bad("longrun.lift.wrong", i, pts, want)
        done = i
        if i & 8191 == 0 or i == N:
            if c.mul(k, c.G) != exp:
                rec.ev("inconclusive:longrun_running_sum_disagrees_with_ladder")
                rec.note("long run: running sum of the reference and its ladder disagree at index %d" % i)
                return
        if nviol >= LONGRUN_MAX_VIOLATIONS:
            break
    rec.case(("longrun", ctx.curve_id, ctx.cfg, case["lr_seed"], N), n=done)
    rec.ev("Generator.__mul__(blinded)", counts["gmul"] + counts["rmul"])
    rec.ev("Point.__add__", counts["add"])
    rec.ev("Point.__neg__", counts["neg"])
    rec.ev("Point()", counts["construct"])
    rec.ev("Generator.points_for_x", counts["lift"])
    rec.ev("longrun.products_on_one_object", counts["gmul"] + counts["rmul"])
    rec.ev("class:nongeneric", done)
    if done > (1 << 16) + 64 and nviol == 0:
        rec.ev("longrun.past_2^16_products_on_one_object")
        rec.ev(tag + "longrun.past_2^16_products_on_one_object")
    if done > (1 << 17) + 64 and nviol == 0:
        rec.ev("longrun.past_2^17_products_on_one_object")


def run_longrun(spec, rec):
    rng = shard_rng(spec["seed"], PROPERTY, spec["tier"], spec["shard"])
    ctx = get_ctx(spec["curve"], "module", rec)
    if not ctx.native:
        # no accelerated backend on this machine: 2^16 pure-Python products on a 256-bit curve do not fit the budget;
        # the long run is made on the pure generator of the largest toy curve instead (same Generator code)
        toys = ec.toy_curves(80)
        big = max(toys, key=lambda t: (t.n, t.p, t.a, t.b))
        ctx = get_ctx(_toy_params(big), "inproc", rec)
        rec.note("long run on a toy curve: module generator of %s has no native backend here" % spec["curve"])
        rec.ev("longrun.on_toy_curve")
    rec.ev("config:" + spec.get("label", "longrun"))
    rec.require("longrun.past_2^16_products_on_one_object")
    if spec["count"] > (1 << 17):
        rec.require("longrun.past_2^17_products_on_one_object")
    judge_longrun(ctx, base_case(ctx, "longrun", lr_seed=rng.randrange(1 << 62), count=spec["count"]))


# ---------------------------------------------------------------------------------------------
# "state" shard: toy curves; full producer x consumer matrix, mutable arguments, twins

def run_state(spec, rec):
    rng = shard_rng(spec["seed"], PROPERTY, spec["tier"], spec["shard"])
    for params in spec["curves"]:
        ctx = get_ctx(params, "inproc", rec)
        rec.ev("state_curves")
        n = ctx.c.n
        combos = [(pr, co) for pr in PRODUCERS for co in CONSUMERS]
        chain_round(ctx, rng, combos)
        chain_round(ctx, rng, combos, sibling="entropy")
        require_chain(ctx)
        for rnd in range(4):
            mutable_round(ctx, rng, rnd)
            errpath_round(ctx, rng, rnd, ent=ENTROPIES(n)[rnd % 5])
        ctx.rec.require(*[ctx.tag + "|errpath." + f for f in ERR_FAMILIES])
        ctx.rec.require(ctx.tag + "|mutable.calls")
        _CTX.pop((repr(params), "inproc"), None)
    run_twins(spec, rec, rng)


JUDGES = {"add": judge_add, "neg": judge_neg, "sub": judge_sub, "mul": judge_mul, "gmul": judge_gmul, "lift": judge_lift,
          "construct": judge_construct, "ecdh": judge_ecdh, "inverse_mod": judge_inverse_mod, "laws": judge_laws,
          "backend": judge_backend, "mutable": judge_mutable, "chain": judge_chain,
          "longrun": judge_longrun}


# ---------------------------------------------------------------------------------------------
# toy curves: exhaustive

ENTROPIES = lambda n: [0, 1, n - 1, n, (1 << 256) - 1]


def run_toy_curve(params, rec, rng, light=False):
    ctx = get_ctx(params, "inproc", rec)
    c, n, p = ctx.c, ctx.c.n, ctx.c.p
    rec.ev("toy_curves")
    pts = [None] + c.all_points()
    S = set(pts)
    assert len(pts) == n
    # ground truth: the full addition table and the multiples by repeated addition; re-validated here
    table = {}
    for P in pts:
        for Q in pts:
            table[(P, Q)] = c.add(P, Q)
    for P in pts:
        assert table[(P, None)] == P and table[(None, P)] == P and table[(P, c.neg(P))] is None
        for Q in pts:
            assert table[(P, Q)] in S and table[(P, Q)] == table[(Q, P)]
    multiples = {}
    for P in pts:
        acc, row = None, []
        for k in range(n):
            row.append(acc)
            acc = table[(acc, P)]
        assert acc is None
        multiples[P] = row
    for i in range(40):
        P, Q, R = rng.choice(pts), rng.choice(pts), rng.choice(pts)
        assert table[(table[(P, Q)], R)] == table[(P, table[(Q, R)])]
    # P + Q, P - Q, -P
    for P in pts:
        judge_neg(ctx, base_case(ctx, "neg", P=list(P) if P else None))
        for Q in pts:
            judge_add(ctx, base_case(ctx, "add", P=list(P) if P else None, Q=list(Q) if Q else None), exp=table[(P, Q)])
        for Q in (pts if n <= 31 else rng.sample(pts, 24) + [P, c.neg(P), None]):
            judge_sub(ctx, base_case(ctx, "sub", P=list(P) if P else None, Q=list(Q) if Q else None))
    # the Generator instance itself as an operand (it is a Point)
    Gl = list(c.G)
    judge_neg(ctx, base_case(ctx, "neg", P=Gl, gobj="P"))
    for Q in pts:
        judge_add(ctx, base_case(ctx, "add", P=Gl, Q=list(Q) if Q else None, gobj="P"), exp=table[(c.G, Q)])
        judge_sub(ctx, base_case(ctx, "sub", P=Gl, Q=list(Q) if Q else None, gobj="P"))
        judge_sub(ctx, base_case(ctx, "sub", P=list(Q) if Q else None, Q=Gl, gobj="Q"))
    # k * P for every P and k in [-2n, 3n]
    for P in pts:
        for k in range(-2 * n, 3 * n + 1):
            judge_mul(ctx, base_case(ctx, "mul", P=list(P) if P else None, k=k), exp=multiples[P][k % n] if P else None)
    # refused calls (non-integer scalars, non-points, ...) first: the exhaustive G*k below runs on the same objects
    errpath_round(ctx, rng, rng.randrange(12), ent=rng.choice(ENTROPIES(n)))
    # G*k (blinded), raw_mul(k) on the default generator and on generators built with adversarial entropy
    ents = [None] + ENTROPIES(n)
    if n > 40:
        ents = [None] + rng.sample(ENTROPIES(n), 2)
    for ent in ents:
        ks = range(-2 * n, 3 * n + 1) if (ent is None or (n <= 31 and not light)) else sorted(set(rng.sample(range(-2 * n, 3 * n + 1), 40) + [0, 1, -1, n - 1, n, n + 1, -n, 2 * n]))
        for k in ks:
            judge_gmul(ctx, base_case(ctx, "gmul", k=k, entropy=ent), exp=multiples[c.G][k % n])
    for k in (1 << 255, (1 << 256) - 1, 1 << 256, (1 << 256) + 1, -(1 << 256), 3 << 254, rng.randrange(1 << 300)):
        judge_gmul(ctx, base_case(ctx, "gmul", k=k, entropy=None), exp=multiples[c.G][k % n])
        judge_mul(ctx, base_case(ctx, "mul", P=list(pts[1 + k % (n - 1)]), k=k), exp=multiples[pts[1 + k % (n - 1)]][k % n])
    # further Generator objects on the SAME curve with other base points, built after the first one (any non-identity
    # point generates a prime-order group): each must multiply ITS base point
    from pycoin.ecdsa.Generator import Generator
    others = [pts[2], pts[-1], multiples[c.G][2 % n] or pts[1]] if n > 3 else []
    for H in others:
        if H is None or H == c.G:
            continue
        st, g2 = observe(Generator, c.p, c.a, c.b, H, n)
        rec.ev("Generator(other base point)")
        case = base_case(ctx, "second_generator", H=list(H))
        if st != "ok":
            rec.violation("second_generator.construction_raises", case, g2, "Generator")
            continue
        for k in (sorted(set(list(range(-n, 2 * n + 1)))) if n <= 31 else sorted(set(rng.sample(range(-n, 2 * n), 30) + [0, 1, n - 1, n]))):
            exp = multiples[H][k % n]
            rec.case(("gmul2", ctx.curve_id, H, k))
            st1, a = observe(lambda: g2 * k)
            st2, r = observe(g2.raw_mul, k)
            st3, m = observe(lambda: k * g2)
            if "exc" in (st1, st2, st3):
                rec.violation("second_generator.raises", dict(case, k=k), [a, r, m], exp)
                break
            if from_py(a) != exp or from_py(r) != exp or from_py(m) != exp:
                rec.violation("second_generator.multiplies_another_base_point", dict(case, k=k), [from_py(a), from_py(r), from_py(m)], exp)
                break
        # and the first generator is not disturbed by the later ones
        judge_gmul(ctx, base_case(ctx, "gmul", k=n - 2, entropy=None), exp=multiples[c.G][(n - 2) % n])
    # points_for_x for every x, Point() for every (x, y)
    for x in range(p):
        judge_lift(ctx, base_case(ctx, "lift", x=x))
        for y in range(p):
            judge_construct(ctx, base_case(ctx, "construct", x=x, y=y))
    # ECDH for every pair of private keys
    keys = range(1, n) if n <= 31 else sorted(rng.sample(range(1, n), 30))
    for a in keys:
        for b in keys:
            if a <= b:
                judge_ecdh(ctx, base_case(ctx, "ecdh", a=a, b=b))
    # inverse_mod
    for m in (p, n):
        for a in range(-2 * m, 3 * m + 1):
            judge_inverse_mod(ctx, base_case(ctx, "inverse_mod", a=a, m=m))
    errpath_round(ctx, rng, rng.randrange(12), ent=None)
    mutable_round(ctx, rng, 0, basis=not light)
    # laws on the library's own results
    for i in range(12 if light else 40):
        P, Q, R = rng.choice(pts), rng.choice(pts), rng.choice(pts)
        judge_laws(ctx, base_case(ctx, "laws", P=list(P) if P else None, Q=list(Q) if Q else None, R=list(R) if R else None,
                                  a=rng.randrange(-2 * n, 3 * n), b=rng.randrange(-2 * n, 3 * n)))
    # unreduced presentations of every point (compared modulo p)
    for P in pts[1:]:
        for (dx, dy) in ((p, 0), (0, p), (2 * p, p), (-p, 0), (0, -p), (-p, -2 * p)):
            U = (P[0] + dx, P[1] + dy)
            for Q in (P, c.neg(P), pts[1], None):
                judge_add(ctx, base_case(ctx, "add", P=list(U), Q=list(Q) if Q else None))
            judge_mul(ctx, base_case(ctx, "mul", P=list(U), k=rng.randrange(-n, 2 * n)))
            judge_neg(ctx, base_case(ctx, "neg", P=list(U)))
    _CTX.pop((repr(params), "inproc"), None)
    return ctx


def run_toy(spec, rec):
    rng = shard_rng(spec["seed"], PROPERTY, spec["tier"], spec["shard"])
    rec.require("Point.__add__", "Point.__neg__", "Point.__mul__/__rmul__", "Generator.__mul__(blinded)", "Generator.raw_mul",
                "Generator.points_for_x", "generate_shared_public_key", "Point()")
    for i, params in enumerate(spec["curves"]):
        ctx = run_toy_curve(params, rec, rng, light=spec["tier"] == "quick" and params[5] > 13)
        require_classes(ctx)
        require_state_classes(ctx)
        if i == 0:
            rec.sample({"toy_curve": ctx.c.name, "G": list(ctx.c.G), "exhaustive": "P+Q all pairs; k*P k in [-2n,3n]; points_for_x all x; "
                        "Point(x,y) all (x,y); ECDH all pairs; G*k with entropy 0,1,n-1,n,2^256-1"})


# ---------------------------------------------------------------------------------------------
# large curves

def scalar_pool(c, rng):
    n = c.n
    L = n.bit_length()
    fixed = [0, 1, -1, 2, -2, 3, 4, 5, n - 1, n, n + 1, n - 2, 2 * n, 2 * n + 1, 2 * n - 1, -n, -n - 1, -n + 1, 3 * n + 7, -2 * n - 3,
             1 << 255, (1 << 256) - 1, 1 << 256, (1 << 256) + 1, (n - 1) // 2, (n + 1) // 2, (n - 1) // 3, (2 * n - 1) // 3, (1 << L) - 1]
    pats = []
    ones = (1 << L) - 1
    aa = int("10" * (L // 2 + 1), 2) & ones
    pats += [aa, aa >> 1, aa % n, (aa >> 1) % n, ones // 3, ones // 3 * 2, ones // 5, ones // 7, ones // 9, ones // 15]
    for i in (0, 1, 2, 7, 8, 31, 32, 63, 64, 127, 128, 191, 192, 254, 255, L - 2, L - 1):
        pats += [1 << i, (1 << i) - 1, (1 << i) + 1, 3 << i, (3 << i) - 1, (3 << i) + 1, (1 << i) // 3, ((1 << i) // 3) * 2 + 1]
    for _ in range(12):
        a, b = sorted((rng.randrange(0, L), rng.randrange(0, L)))
        pats.append((1 << b) - (1 << a))                      # run of ones
        pats.append(((1 << b) - (1 << a)) ^ ones)             # run of zeros
    return fixed, [v for v in pats if v > 0]


def forced_scalar(c, rng, cls):
    """a scalar of the named class of the statement ("zero, negative and k >= order included"), boundary-biased."""
    n = c.n
    if cls == "zero_mod_n":
        return rng.choice([0, n, -n, 2 * n, -2 * n, 3 * n, n * rng.randrange(4, 1 << 70)])
    if cls == "negative":
        while True:
            k = rng.choice([-1, -2, -3, 1 - n, -n - 1, -2 * n + 1, -(1 << 256), -(1 << 255), -rng.randrange(1, n), -rng.randrange(n, 4 * n),
                            -rng.randrange(1, 1 << 300)])
            if k % n:
                return k
    while True:             # ge_order
        k = rng.choice([n + 1, n + 2, 2 * n - 1, 2 * n + 1, (1 << 256) - 1, (1 << 256) + 1, n + rng.randrange(1, n), rng.randrange(n, 4 * n),
                        rng.randrange(n, 1 << 300)])
        if k % n and k >= n:
            return k


FORCED = ("zero_mod_n", "negative", "ge_order", None, None, None)


def small_x_points(c, rng):
    """curve points recovered from small / adjacent x-coordinates and from x just below p, the way a caller of points_for_x
    gets them: their pairwise x-differences take every size from one bit to a machine word (and about -p), which random
    points never do. Two points per anchor and direction."""
    out = []
    for base in (0, 1 << 8, 1 << 16, 1 << 31, 1 << 32, 1 << 56, 1 << 63, 1 << 64, 1 << 128):
        for step in (1, -1):
            x = base if step == 1 else c.p - 1 - base
            found = 0
            while found < 2:
                pts = c.lift_x(x)
                if pts:
                    out.append(pts[rng.randrange(2)])
                    found += 1
                x += step
    return out


def rnd_scalar(c, rng, fixed, pats):
    u = rng.random()
    if u < 0.25:
        return rng.choice(fixed), False
    if u < 0.5:
        return rng.choice(pats), True
    if u < 0.6:
        return rng.randrange(-3 * c.n, 4 * c.n), False
    return rng.randrange(1, c.n), False


def rnd_point(c, rng, known, subgroup_only=False):
    u = rng.random()
    if u < 0.15:
        return c.G
    if u < 0.5 and known:
        return rng.choice(known)
    if u < 0.75 and not subgroup_only:
        while True:
            x = rng.randrange(c.p)
            pts = c.lift_x(x)
            if pts:
                P = pts[rng.randrange(2)]
                break
    else:
        P = c.mul(rng.randrange(1, c.n) if rng.random() < 0.7 else rng.choice([2, 3, c.n - 1, c.n - 2, (c.n + 1) // 2]), c.G)
    if len(known) < 40:
        known.append(P)
    return P


def libcrypto_findable():
    """independent of pycoin: does this machine have a libcrypto that pycoin's default configuration is meant to use?"""
    import ctypes.util
    import os
    if os.getenv("PYCOIN_NATIVE"):
        return False
    try:
        return bool(os.getenv("PYCOIN_LIBCRYPTO_PATH") or ctypes.util.find_library("crypto"))
    except Exception:
        return False


def unreduce(c, rng, P):
    dx, dy = rng.choice([(c.p, 0), (0, c.p), (c.p, c.p), (2 * c.p, 0),
                         (-c.p, 0), (0, -c.p), (-c.p, -c.p), (0, -2 * c.p), (c.p, -c.p), (0, -3 * c.p)])   # negative presentations too
    return (P[0] + dx, P[1] + dy)


def run_big(spec, rec):
    import pycoin.ecdsa.native.secp256k1 as NS
    ctx = get_ctx(spec["curve"], spec["gen"], rec)
    c, n, p = ctx.c, ctx.c.n, ctx.c.p
    rng = shard_rng(spec["seed"], PROPERTY, spec["tier"], spec["shard"])
    rec.require("Point.__add__", "Point.__neg__", "Point.__mul__/__rmul__", "Generator.__mul__(blinded)", "Generator.raw_mul",
                "Generator.points_for_x", "generate_shared_public_key", "Point()")
    if NS.libsecp256k1 is None:
        rec.ev("config_absent:libsecp256k1")
        rec.note("libsecp256k1 not loadable: backend absent")
    want_pure = bool(spec.get("env")) or spec["gen"] == "inproc" or spec["curve"] == "bls12_381_g1"
    if want_pure and ctx.native:
        raise RuntimeError("shard meant to run the pure path but the generator has native optimisations")
    if not want_pure and not ctx.native:
        rec.note("OpenSSL optimisations not active in the default worker: OpenSSL backend absent, shard ran pure")
        rec.ev("config_absent:openssl")
    rec.ev("config:" + spec.get("label", ctx.cfg))
    fixed, pats = scalar_pool(c, rng)
    known = []
    # BLS12-381 G1 has a cofactor: the group of the property is the order-n subgroup generated by G, so operands are
    # multiples of G there (points_for_x / Point() are still exercised on every curve point)
    sub_only = spec["curve"] == "bls12_381_g1"
    require_classes(ctx)
    require_state_classes(ctx)
    require_chain(ctx)
    if spec.get("cross") and (ctx.native or libcrypto_findable()):
        # a default worker on a machine that has libcrypto: the OpenSSL configuration of the statement must really have run
        rec.require("backend_cross_check", "config_active:openssl")
    if ctx.native:
        rec.ev("config_active:openssl")
    L = lambda P: list(P) if P else None
    N = spec["ops"]
    ents = ENTROPIES(n) + [rng.randrange(1 << 256)]
    shard_no = int(spec.get("shard") or 0)
    # points with small / adjacent x (arbitrary curve points: not usable as operands where the group is a proper subgroup)
    smallpts = [] if sub_only else small_x_points(c, rng)
    edgepts = [T for T in smallpts if T[0] < NEAR or p - T[0] < NEAR]
    if sub_only:
        # there the classes are met with small multiples of G instead (counted only if the predicate of the class holds)
        rec.note("bls12_381_g1: no operands with small x (cofactor > 1: arbitrary curve points are outside the group)")
    jm = jg = 0
    for i in range(N):
        op = i % 20
        rnd = i // 20
        P = rnd_point(c, rng, known, sub_only)
        if op in (0, 1, 2, 3, 4):           # addition with forced relations: the ten relations every two rounds
            rel = (rnd * 5 + op) % 10
            Q = rnd_point(c, rng, known, sub_only)
            gobj = None
            if rel == 0:
                Q = P
            elif rel == 1:
                Q = c.neg(P)
            elif rel == 2:
                Q = None
            elif rel == 3:
                P, Q = None, P
            elif rel == 4:
                P, Q = None, None
            elif rel == 5:                  # unreduced presentation against the same point, its inverse and another point
                U = unreduce(c, rng, P)
                for Q2 in (P, c.neg(P)):
                    judge_add(ctx, base_case(ctx, "add", P=L(U), Q=L(Q2), gobj=None))
                P = U
            elif rel == 6:
                Q = c.add(P, P)
            elif rel == 7:
                P, gobj = c.G, "P"
            elif rel == 8:
                Q, gobj = c.G, "Q"
            elif smallpts:                  # rel 9: x-coordinates a few bits .. one machine word apart, both operand orders
                P = rng.choice(smallpts)
                close = [T for T in smallpts if 0 < abs(T[0] - P[0]) < NEAR]
                Q = rng.choice(close if close and rnd % 8 != 7 else [T for T in smallpts if T[0] != P[0]])
            judge_add(ctx, base_case(ctx, "add", P=L(P), Q=L(Q), gobj=gobj))
            if op == 4 or gobj or rel == 9:
                judge_sub(ctx, base_case(ctx, "sub", P=L(P), Q=L(Q), gobj=gobj))
                judge_neg(ctx, base_case(ctx, "neg", P=L(P), gobj=gobj))
        elif op in (5, 6, 7, 8, 9, 10):     # k * P: scalar classes of the statement by rotation, the rest boundary-biased random
            cls = FORCED[jm % len(FORCED)]
            jm += 1
            k, pat = (forced_scalar(c, rng, cls), False) if cls else rnd_scalar(c, rng, fixed, pats)
            if op == 10:                    # operand classes, two per round
                for P2 in ([None, unreduce(c, rng, P)] if rnd % 2 == 0 else [c.G] + ([rng.choice(edgepts)] if edgepts else [])):
                    judge_mul(ctx, base_case(ctx, "mul", P=L(P2), k=k, pattern=pat))
                    k, pat = rnd_scalar(c, rng, fixed, pats)
            else:
                judge_mul(ctx, base_case(ctx, "mul", P=L(P), k=k, pattern=pat))
        elif op in (11, 12, 13):            # G * k, raw_mul, adversarial entropy
            cls = FORCED[jg % len(FORCED)]
            jg += 1
            k, pat = (forced_scalar(c, rng, cls), False) if cls else rnd_scalar(c, rng, fixed, pats)
            ent = None if op == 11 else ents[rnd % len(ents)]
            if ent is not None and rnd % 3 == 2:
                # scalar aimed at the blinding factor: k + b = 0 (raw_mul gives infinity) and k + b = -b (the final sum doubles)
                bf = assumed_blinding(ctx, ent)
                k, pat = (-bf if op == 12 else -2 * bf) + n * rng.randrange(-1, 2), False
            judge_gmul(ctx, base_case(ctx, "gmul", k=k, entropy=ent, pattern=pat))
        elif op == 14:                      # points_for_x: x of a point / x with no point / boundary x / random x
            if sub_only and rnd % 2:
                P = rnd_point(c, rng, [], False)
            x = [P[0], None, rng.choice([0, 1, 2, 3, p - 1, p - 2, c.G[0], (p - 1) // 2]), rng.randrange(p)][rnd % 4]
            while x is None or (rnd % 4 == 1 and c.lift_x(x) is not None):
                x = rng.randrange(p)
            judge_lift(ctx, base_case(ctx, "lift", x=x))
        elif op == 15:                      # construction: on-curve, and one coordinate bit flipped
            judge_construct(ctx, base_case(ctx, "construct", x=P[0], y=P[1]))
            bit = 1 << rng.randrange(p.bit_length() - 1)
            if rng.random() < 0.5:
                judge_construct(ctx, base_case(ctx, "construct", x=P[0] ^ bit, y=P[1]))
            else:
                judge_construct(ctx, base_case(ctx, "construct", x=P[0], y=P[1] ^ bit))
            judge_construct(ctx, base_case(ctx, "construct", x=P[1], y=P[0]))
        elif op == 16:                      # ECDH
            a = rng.choice([1, 2, n - 1, rng.randrange(1, n), rng.randrange(1, n)])
            b = rng.choice([1, n - 1, rng.randrange(1, n), rng.randrange(1, n), pow(a, -1, n)])
            judge_ecdh(ctx, base_case(ctx, "ecdh", a=a, b=b))
        elif op == 17:                      # inverse_mod
            m = rng.choice([n, p])
            a = rng.choice([1, 2, -1, -2, m - 1, m + 1, 2 * m + 3, -m - 7, rng.randrange(1, m), -rng.randrange(1, m),
                            rng.randrange(m, 1 << 520), (1 << 256) - 1])
            judge_inverse_mod(ctx, base_case(ctx, "inverse_mod", a=a, m=m))
        elif op == 18:                      # laws (several multiplications: thinned on the pure path)
            if ctx.native or rnd % 4 == 0:
                Q, R = rnd_point(c, rng, known, sub_only), rnd_point(c, rng, known, sub_only)
                rel = rnd % 5
                if rel == 1:
                    Q = P
                elif rel == 2:
                    Q = c.neg(P)
                elif rel == 3:
                    R = None
                a, _ = rnd_scalar(c, rng, fixed, pats)
                b, _ = rnd_scalar(c, rng, fixed, pats)
                judge_laws(ctx, base_case(ctx, "laws", P=L(P), Q=L(Q), R=L(R), a=a, b=b))
        else:                               # backend cross check (default worker only)
            if spec.get("cross") and rnd < spec["cross"] and ctx.native:
                k, pat = rnd_scalar(c, rng, fixed, pats)
                judge_backend(ctx, base_case(ctx, "backend", P=L(P), k=k))
            # refused calls between the judged ones (same objects, same process), caller-owned lists, and points
            # produced by one operation handed to another
            errpath_round(ctx, rng, rnd + shard_no, ent=ents[(rnd + shard_no) % len(ents)] if rnd % 2 else None)
            if rnd % 4 == 0:
                mutable_round(ctx, rng, rnd, basis=rnd == 0)
            if ctx.native and rnd < 2:
                combos = [(pr, co) for pr in PRODUCERS for co in CONSUMERS]
                chain_round(ctx, rng, combos, sibling="entropy" if rnd else None)
            else:
                off = rnd + shard_no
                combos = [(PRODUCERS[j], CONSUMERS[(j + off) % len(CONSUMERS)]) for j in range(len(PRODUCERS))]
                chain_round(ctx, rng, combos, sibling="inproc" if ctx.native and rnd == 2 else "entropy" if off % 2 else None)
        if i < 2:
            rec.sample({"config": spec.get("label"), "first_ops": "add/mul/gmul/lift/construct/ecdh/inverse_mod/laws/backend rotation",
                        "P": L(P)})
    gen = rec.counters.get("class:generic", 0)
    non = rec.counters.get("class:nongeneric", 0)
    if non < 0.2 * (gen + non):
        rec.require("relation_class_mix(>=20% non-generic)")


def run_shard(spec, rec):
    import time
    kind = spec["kind"]
    try:
        if kind == "memcheck":
            memcheck.run(spec, rec, PROPERTY)
        else:
            {"big": run_big, "toy": run_toy, "longrun": run_longrun, "state": run_state}[kind](spec, rec)
    except GeneratorUnavailable:
        rec.case(("generator_unavailable", spec.get("curve"), spec.get("gen")))
    finally:
        rec.ev("cpu_ms:" + kind, int(time.process_time() * 1000))


def replay_case(case, rec):
    kind = case.get("kind")
    if kind in ("memcheck", "memcheck_value"):
        memcheck.replay(case, rec, PROPERTY)
        return
    if kind == "twin":
        judge_twin(_TwinCtx(rec), dict(case, A=[int(v) for v in case["A"]], B=[int(v) for v in case["B"]]))
        return
    curve = case["curve"]
    if isinstance(curve, list):
        curve = [int(v) for v in curve]
    try:
        ctx = get_ctx(curve, case.get("gen", "inproc"), rec)
    except GeneratorUnavailable:
        return
    if kind == "import":
        return
    replay_refusals(ctx, case)
    JUDGES[kind](ctx, dict(case, curve=curve))
